// C17: typed wrappers are transparent; ==, != , < (and <=, >, >=) and the hash function objects of the fcppt
// value types are mutually coherent.
//
// Part A (transparency).  strong_typedef arithmetic / bitwise / assignment / comparison / increment operators
// are compared with the same operator applied to the underlying values (int over all pairs of [-128,127]^2,
// wrap-around boundary values of unsigned / uint8_t / uint16_t / uint64_t, a "probe" underlying type whose
// operators are mutually unrelated tables so that a forwarded *other* operator or swapped operands show, and
// std::string); reference, recursive, unique_ptr, shared_ptr and type_iso are checked to expose exactly the
// object / value they wrap (object identity through addresses owned by the harness).
//
// Part B (coherence).  For every listed value type a *family* of values is built: every value with components in
// the small domain, each reached through several histories (direct construction, assignment over a different
// value, the type's own operators, different capacities ...).  All operators the type offers are evaluated on
// all ordered pairs (including x op x on the same object) into relation matrices; then
//   ==  is judged against "all observable components are equal" (components read back through the type's
//       public accessors), reflexive, symmetric, transitive (all triples, on the matrices);
//   !=  is the negation of ==;
//   <   irreflexive, asymmetric, transitive (all triples), exactly one of  x<y, x==y, y<x;  equal to the
//       documented order where the header documents one (lexicographic on the components);
//   <=, >, >=  consistent with <;
//   hash(x) == hash(y) whenever x == y, for every hash function object the type offers.
// Observed only (never a violation): number of distinct hash values per family, std::hash specialisations
// agreeing with the hash of the wrapped value, variant::compare, the (undocumented) order of raw_vector against the
// lexicographic one, reference_to_const / reference_to_base / unique_ptr_to_base / unique_ptr_from_std, weak_ptr::lock,
// type_iso for enums.
#include <vf.hpp>

#include <array>
#include <concepts>
#include <cstddef>
#include <cstdint>
#include <deque>
#include <functional>
#include <limits>
#include <map>
#include <memory>
#include <string>
#include <tuple>
#include <type_traits>
#include <utility>
#include <vector>

#ifndef VF_SLICE
#define VF_SLICE -2 // single translation unit build: everything
#endif
#define VF_IN_SLICE(i) (VF_SLICE == (i) || VF_SLICE == -2)

// ------------------------------------------------------------------------------------------------ registry
// Every entry is run by exactly one partition (entry index modulo the number of partitions); the main
// translation unit requires the bucket ran/<entry> of every entry, so an entry that silently does not run makes
// the check inconclusive.  Heavy entries are placed so that they land on different partitions.
namespace
{
char const *const all_entries[] = {
    // slice 0
    "strong_typedef-ops<int>", "strong_typedef-ops<unsigned>", "strong_typedef-ops<u8>", "strong_typedef-ops<u16>",
    "strong_typedef-ops<u64>", "strong_typedef-ops<probe>", "strong_typedef-ops<string>", "strong_typedef<int>",
    "strong_typedef<string>", "type_iso", "reference-wrapper", "recursive-wrapper", "unique_ptr-wrapper",
    "shared_ptr-wrapper", "reference<int>", "shared_ptr<int>", "recursive<int>", "recursive<optional<int>>",
    // slice 1
    "optional<int>", "optional<optional<int>>", "optional<string>", "either<short,int>", "either<string,int>",
    "variant<bool,int,string>", "variant<int>", "tuple<int,int,int>", "tuple<int,string,bool>", "tuple<>",
    "array<int,3>", "array<int,1>", "array<string,2>",
    // slice 2
    "record<a,b,c>", "record<a,b>x<b,a>", "enum_array<e3,int>", "enum_array<e1,int>", "bitfield<e3,u8>",
    "bitfield<e5,u32>", "bitfield<e9,u8>", "bitfield<e8,u8>", "bitfield<e17,u16>", "bitfield<e11:int,u8>",
    "bitfield<e19:int,u16>", "bitfield<e9:u64,u8>", "bitfield<e5:i8,u64>",
    // slice 3
    "vector<int,1>", "vector<int,2>", "vector<int,3>", "vector<int,2>/view", "vector<int,2>/mixed-storage", "dim<int,1>",
    "dim<int,2>", "dim<int,3>", "dim<int,2>/mixed-storage", "matrix<int,2,2>", "matrix<int,1,3>", "matrix<int,3,1>",
    "vector<key-tag,3>", "dim<key-tag,3>",
    // slice 4
    "box<int,1>", "box<int,2>", "box<unsigned,1>", "sphere<int,1>", "sphere<int,2>", "grid<int,1>", "grid<int,2>",
    // slice 5
    "tree<int>", "raw_vector<int>", "raw_vector<char>", "raw_vector<float>"};
constexpr std::size_t n_entries = sizeof all_entries / sizeof all_entries[0];

[[maybe_unused]] bool entry_selected(std::string const &name)
{
  for (std::size_t i = 0; i < n_entries; ++i)
    if (name == all_entries[i])
    {
      if (!vf::entry_enabled(name) || !vf::mine(i))
        return false;
      vf::set_entry(name);
      vf::count("ran/" + name);
      return true;
    }
  // a family that is not in the registry would never be required: make that visible
  vf::set_entry(name);
  if (vf::begin_case("unregistered entry"))
    vf::violation("harness/unregistered-entry/" + name, "harness", "entry missing in all_entries");
  return false;
}

// ------------------------------------------------------------------------------------------------ model
using comps = std::vector<int>;

[[maybe_unused]] std::string show(comps const &c)
{
  std::string r = "[";
  for (std::size_t i = 0; i < c.size(); ++i)
    r += (i ? "," : "") + std::to_string(c[i]);
  return r + "]";
}
// all sequences of length k over {0..base-1}, in lexicographic order
[[maybe_unused]] std::vector<comps> sequences(std::size_t k, int base)
{
  std::vector<comps> r{comps{}};
  for (std::size_t i = 0; i < k; ++i)
  {
    std::vector<comps> n;
    for (auto const &p : r)
      for (int v = 0; v < base; ++v)
      {
        comps q = p;
        q.push_back(v);
        n.push_back(q);
      }
    r = n;
  }
  return r;
}
// the component domain: {0,1,2} as in the quantifier; the thorough tier adds a fourth value
[[maybe_unused]] int dom() { return vf::tier(3, 4); }
[[maybe_unused]] void append(comps &a, comps const &b) { a.insert(a.end(), b.begin(), b.end()); }

enum opbit : unsigned
{
  o_eq = 1,
  o_ne = 2,
  o_lt = 4,
  o_le = 8,
  o_gt = 16,
  o_ge = 32
};
enum
{
  i_eq,
  i_ne,
  i_lt,
  i_le,
  i_gt,
  i_ge,
  n_ops
};
[[maybe_unused]] char const *const op_name[n_ops] = {"==", "!=", "<", "<=", ">", ">="};
constexpr unsigned char unknown = 2;

struct hashcol
{
  std::string name;
  std::vector<std::size_t> h;
  std::vector<unsigned char> known;
};
struct relset
{
  std::string entry;
  std::size_t n = 0;
  unsigned ops = 0;
  bool documented_order = false; // the header documents which order < is
  std::vector<comps> obs;        // observable components, read through the public accessors
  std::vector<comps> ord;        // key whose lexicographic order is the documented order
  std::vector<std::string> how;  // how the value was reached
  std::vector<unsigned char> m[n_ops];
  std::vector<hashcol> hashes;
  unsigned char at(int op, std::size_t i, std::size_t j) const { return m[op][i * n + j]; }
};

[[maybe_unused]] std::string item_text(relset const &r, std::size_t i)
{
  return "#" + std::to_string(i) + "{" + r.how[i] + " components=" + show(r.obs[i]) + "}";
}
[[maybe_unused]] void rel_violation(relset const &r, char const *op, char const *cls, std::size_t i, std::size_t j,
                                    std::string const &extra)
{
  vf::violation(r.entry + "/" + op + "/" + cls, "mismatch",
                "x=" + item_text(r, i) + " y=" + item_text(r, j) + (extra.empty() ? "" : " " + extra));
}

// row bitsets for the exhaustive triple checks
struct bitrows
{
  std::size_t n, w;
  std::vector<std::uint64_t> b;
  explicit bitrows(std::size_t n_) : n(n_), w((n_ + 63) / 64), b(n * w, 0) {}
  void set(std::size_t i, std::size_t j) { b[i * w + j / 64] |= std::uint64_t{1} << (j % 64); }
  bool get(std::size_t i, std::size_t j) const { return (b[i * w + j / 64] >> (j % 64)) & 1U; }
  std::uint64_t const *row(std::size_t i) const { return &b[i * w]; }
};

// The judge: everything the statement says about ==, !=, <, <=, >, >= and hashes, on the filled matrices.
[[maybe_unused]] void analyze(relset const &r)
{
  std::size_t const n = r.n;
  if (!vf::begin_case("analysis of the %zu x %zu relation matrices (ops mask %u, %zu hash functions)", n, n, r.ops,
                      r.hashes.size()))
    return;
  bool complete = true;
  std::uint64_t pairs_equal = 0, pairs_equal_other_history = 0, pairs_unequal = 0, pairs_less = 0;
  std::uint64_t order_observed = 0, order_observed_diff = 0;
  auto has = [&](opbit b) { return (r.ops & b) != 0; };
  for (std::size_t i = 0; i < n; ++i)
    for (std::size_t j = 0; j < n; ++j)
    {
      vf::operands(static_cast<long long>(i), static_cast<long long>(j));
      bool const model_eq = r.obs[i] == r.obs[j];
      unsigned char const eq = has(o_eq) ? r.at(i_eq, i, j) : unknown;
      if (has(o_eq) && eq == unknown)
      {
        complete = false;
        continue;
      }
      if (has(o_eq))
      {
        if (model_eq)
        {
          ++pairs_equal;
          if (i != j)
            ++pairs_equal_other_history;
        }
        else
          ++pairs_unequal;
        if (i == j && !eq)
          rel_violation(r, "==", "not-reflexive", i, j, "x == x is false on the same object");
        else if (eq && !model_eq)
          rel_violation(r, "==", "equal-but-components-differ", i, j, "");
        else if (!eq && model_eq)
          rel_violation(r, "==", "unequal-but-all-components-equal", i, j, "");
        unsigned char const eq_ji = r.at(i_eq, j, i);
        if (eq_ji != unknown && i < j && (eq != 0) != (eq_ji != 0))
          rel_violation(r, "==", "not-symmetric", i, j,
                        std::string("x==y is ") + (eq ? "true" : "false") + ", y==x is " + (eq_ji ? "true" : "false"));
      }
      if (has(o_ne))
      {
        unsigned char const ne = r.at(i_ne, i, j);
        if (ne != unknown && (ne != 0) == (eq != 0))
          rel_violation(r, "!=", "not-negation-of-==", i, j,
                        std::string("x==y and x!=y are both ") + (eq ? "true" : "false"));
      }
      if (has(o_lt))
      {
        unsigned char const lt = r.at(i_lt, i, j), lt_ji = r.at(i_lt, j, i);
        if (lt == unknown || lt_ji == unknown)
        {
          complete = false;
          continue;
        }
        if (lt)
          ++pairs_less;
        if (i == j && lt)
          rel_violation(r, "<", "not-irreflexive", i, j, "x < x is true");
        if (i < j && lt && lt_ji)
          rel_violation(r, "<", "not-asymmetric", i, j, "x<y and y<x");
        if (i <= j && has(o_eq))
        {
          int const holds = (lt ? 1 : 0) + (eq ? 1 : 0) + (lt_ji ? 1 : 0);
          if (holds != 1 && !(i == j)) // the i == j cases are reported above
            rel_violation(r, "<", "incompatible-with-==", i, j,
                          std::string("x<y=") + (lt ? "1" : "0") + " x==y=" + (eq ? "1" : "0") +
                              " y<x=" + (lt_ji ? "1" : "0") + " (exactly one must hold)");
        }
        if (!r.documented_order && !r.ord.empty())
        {
          ++order_observed;
          if ((lt != 0) != (r.ord[i] < r.ord[j]))
            ++order_observed_diff;
        }
        if (r.documented_order)
        {
          bool const want = r.ord[i] < r.ord[j];
          if ((lt != 0) != want)
            rel_violation(r, "<", "differs-from-documented-order", i, j,
                          std::string("x<y is ") + (lt ? "true" : "false") + ", order keys " + show(r.ord[i]) + " vs " +
                              show(r.ord[j]));
        }
        if (has(o_gt))
        {
          unsigned char const v = r.at(i_gt, i, j);
          if (v != unknown && (v != 0) != (lt_ji != 0))
            rel_violation(r, ">", "inconsistent-with-<", i, j, std::string("x>y is ") + (v ? "true" : "false") + ", y<x is " + (lt_ji ? "true" : "false"));
        }
        if (has(o_le))
        {
          unsigned char const v = r.at(i_le, i, j);
          if (v != unknown && (v != 0) != (lt_ji == 0))
            rel_violation(r, "<=", "inconsistent-with-<", i, j, std::string("x<=y is ") + (v ? "true" : "false") + ", y<x is " + (lt_ji ? "true" : "false"));
        }
        if (has(o_ge))
        {
          unsigned char const v = r.at(i_ge, i, j);
          if (v != unknown && (v != 0) != (lt == 0))
            rel_violation(r, ">=", "inconsistent-with-<", i, j, std::string("x>=y is ") + (v ? "true" : "false") + ", x<y is " + (lt ? "true" : "false"));
        }
      }
    }
  // hashes: x == y (as the library says) implies equal hashes; also model-equal values
  for (hashcol const &hc : r.hashes)
  {
    std::uint64_t checked = 0;
    std::map<comps, std::size_t> first; // class representative
    std::map<std::size_t, unsigned> distinct;
    for (std::size_t i = 0; i < n; ++i)
    {
      if (!hc.known[i])
        continue;
      ++distinct[hc.h[i]];
      auto ins = first.emplace(r.obs[i], i);
      if (!ins.second)
      {
        std::size_t const j = ins.first->second;
        ++checked;
        bool const lib_eq = !has(o_eq) || r.at(i_eq, i, j) == 1 || r.at(i_eq, j, i) == 1;
        if (hc.h[i] != hc.h[j] && lib_eq)
          rel_violation(r, ("hash:" + hc.name).c_str(), "equal-values-different-hash", j, i,
                        "hash(x)=" + std::to_string(hc.h[j]) + " hash(y)=" + std::to_string(hc.h[i]));
      }
    }
    // pairs the library calls equal although the components differ (already reported above) must hash equal too
    if (has(o_eq))
      for (std::size_t i = 0; i < n; ++i)
        for (std::size_t j = i + 1; j < n; ++j)
          if (hc.known[i] && hc.known[j] && r.at(i_eq, i, j) == 1 && r.obs[i] != r.obs[j] && hc.h[i] != hc.h[j])
            rel_violation(r, ("hash:" + hc.name).c_str(), "equal-values-different-hash", i, j, "");
    vf::count("hash/equal-pairs-checked", checked);
    vf::count("hash/" + r.entry + "/" + hc.name + "/classes", first.size());
    vf::count("hash/" + r.entry + "/" + hc.name + "/distinct-hashes", distinct.size());
    // Not demanded by the statement ("equal values have equal hashes" also holds for a constant function), hence
    // an observation by default; the registry can turn it into a judged check with the argument --judge-hash-spread.
    if (first.size() >= 4 && distinct.size() == 1 && vf::has_extra("--judge-hash-spread"))
      vf::violation(r.entry + "/hash:" + hc.name + "/constant-over-different-values", "mismatch",
                    std::to_string(first.size()) + " different values, one hash");
    if (first.size() >= 4 && distinct.size() == 1)
      vf::observation("hash " + hc.name + " of " + r.entry + " is constant over " + std::to_string(first.size()) +
                      " different values (legal for the statement, useless as a hash)");
    else if (distinct.size() < first.size())
      vf::observation("hash " + hc.name + " of " + r.entry + ": " + std::to_string(distinct.size()) +
                      " distinct hashes for " + std::to_string(first.size()) + " different values");
  }
  // triples, exhaustively, on the matrices
  if (!complete)
    vf::count("triples/skipped-incomplete-matrix-after-restart");
  else
  {
    if (has(o_eq))
    {
      bitrows e(n);
      for (std::size_t i = 0; i < n; ++i)
        for (std::size_t j = 0; j < n; ++j)
          if (r.at(i_eq, i, j))
            e.set(i, j);
      // x==y and y==z imply x==z  <=>  for every x==y, row(y) is a subset of row(x)
      for (std::size_t i = 0; i < n; ++i)
        for (std::size_t j = 0; j < n; ++j)
          if (e.get(i, j))
            for (std::size_t k = 0; k < e.w; ++k)
              if (e.row(j)[k] & ~e.row(i)[k])
              {
                std::size_t z = k * 64 + static_cast<std::size_t>(__builtin_ctzll(e.row(j)[k] & ~e.row(i)[k]));
                rel_violation(r, "==", "not-transitive", i, j, "x==y, y==z but not x==z for z=" + item_text(r, z));
                break;
              }
      vf::count("triples/==-checked", n * n * n);
    }
    if (has(o_lt))
    {
      bitrows l(n);
      for (std::size_t i = 0; i < n; ++i)
        for (std::size_t j = 0; j < n; ++j)
          if (r.at(i_lt, i, j))
            l.set(i, j);
      for (std::size_t i = 0; i < n; ++i)
        for (std::size_t j = 0; j < n; ++j)
          if (l.get(i, j))
            for (std::size_t k = 0; k < l.w; ++k)
              if (l.row(j)[k] & ~l.row(i)[k])
              {
                std::size_t z = k * 64 + static_cast<std::size_t>(__builtin_ctzll(l.row(j)[k] & ~l.row(i)[k]));
                rel_violation(r, "<", "not-transitive", i, j, "x<y, y<z but not x<z for z=" + item_text(r, z));
                break;
              }
      // strict weak order: incomparability is transitive.  inc(x,y) = !(x<y) && !(y<x)
      bitrows inc(n);
      for (std::size_t i = 0; i < n; ++i)
        for (std::size_t j = 0; j < n; ++j)
          if (!l.get(i, j) && !l.get(j, i))
            inc.set(i, j);
      for (std::size_t i = 0; i < n; ++i)
        for (std::size_t j = 0; j < n; ++j)
          if (inc.get(i, j))
            for (std::size_t k = 0; k < inc.w; ++k)
              if (inc.row(j)[k] & ~inc.row(i)[k])
              {
                std::size_t z = k * 64 + static_cast<std::size_t>(__builtin_ctzll(inc.row(j)[k] & ~inc.row(i)[k]));
                rel_violation(r, "<", "incomparability-not-transitive", i, j, "z=" + item_text(r, z));
                break;
              }
      vf::count("triples/<-checked", n * n * n);
    }
  }
  if (order_observed)
  {
    vf::count("observed/" + r.entry + "/undocumented-order/pairs", order_observed);
    vf::count("observed/" + r.entry + "/undocumented-order/differs-from-lexicographic", order_observed_diff);
    if (order_observed_diff)
      vf::observation("operator< of " + r.entry + " (order not documented) differs from the lexicographic order on " +
                      std::to_string(order_observed_diff) + " of " + std::to_string(order_observed) + " pairs (observed only)");
  }
  vf::count("pairs/components-equal", pairs_equal);
  vf::count("pairs/components-equal-distinct-objects", pairs_equal_other_history);
  vf::count("pairs/components-differ", pairs_unequal);
  vf::count("pairs/less", pairs_less);
  vf::count_max("max/family-size", n);
}

// ------------------------------------------------------------------------------------------------ typed front end
template <class T>
concept has_eq = requires(T const &a, T const &b) { { a == b } -> std::convertible_to<bool>; };
template <class T>
concept has_ne = requires(T const &a, T const &b) { { a != b } -> std::convertible_to<bool>; };
template <class T>
concept has_lt = requires(T const &a, T const &b) { { a < b } -> std::convertible_to<bool>; };
template <class T>
concept has_le = requires(T const &a, T const &b) { { a <= b } -> std::convertible_to<bool>; };
template <class T>
concept has_gt = requires(T const &a, T const &b) { { a > b } -> std::convertible_to<bool>; };
template <class T>
concept has_ge = requires(T const &a, T const &b) { { a >= b } -> std::convertible_to<bool>; };
template <class T>
constexpr unsigned offered_ops = (has_eq<T> ? o_eq : 0U) | (has_ne<T> ? o_ne : 0U) | (has_lt<T> ? o_lt : 0U) |
                                 (has_le<T> ? o_le : 0U) | (has_gt<T> ? o_gt : 0U) | (has_ge<T> ? o_ge : 0U);

template <class T>
struct family
{
  std::deque<T> v; // deque: values never move after they were reached
  std::vector<std::string> how;
  template <class... A>
  T &add(std::string const &h, A &&...a)
  {
    v.emplace_back(std::forward<A>(a)...);
    how.push_back(h);
    return v.back();
  }
};
struct no_order
{
};
template <class T, class H>
struct named_hash
{
  char const *name;
  H fn;
};
template <class T, class H>
named_hash<T, H> hasher(char const *name, H fn)
{
  return {name, fn};
}

// Ops: the operators the type is expected to offer (a static_assert ties this table to what the compiler finds).
// observe(x): the observable components through the public accessors.  order(x): documented order key, or no_order.
template <unsigned Ops, class T, class Obs, class Ord, class... H>
void run_family(std::string const &entry, family<T> &f, Obs const &observe, Ord const &order, bool documented_order,
                named_hash<T, H> const &...hashers)
{
  static_assert(offered_ops<T> == Ops, "the operator table of the harness differs from what the type offers");
  relset r;
  r.entry = entry;
  r.n = f.v.size();
  r.ops = Ops;
  r.documented_order = documented_order;
  r.how = f.how;
  std::size_t const n = r.n;
  for (int k = 0; k < n_ops; ++k)
    if (Ops & (1U << k))
      r.m[k].assign(n * n, unknown);
  (r.hashes.push_back(hashcol{hashers.name, std::vector<std::size_t>(n, 0), std::vector<unsigned char>(n, 0)}), ...);
  // components are read before any comparison runs (and again afterwards: comparing must not change them)
  for (std::size_t i = 0; i < n; ++i)
  {
    r.obs.push_back(observe(f.v[i]));
    if constexpr (!std::is_same_v<Ord, no_order>)
      r.ord.push_back(order(f.v[i]));
  }
  std::uint64_t const eh = vf::hash_str(entry);
  for (std::size_t i = 0; i < n; ++i)
  {
    if (!vf::begin_case("row %zu: x={%s components=%s} against all %zu values", i, f.how[i].c_str(),
                        show(r.obs[i]).c_str(), n))
      continue;
    vf::sample_case(2);
    vf::note_distinct(vf::hash_mix(vf::hash_mix(eh, vf::hash_str(f.how[i])),
                                   vf::hash_bytes(r.obs[i].data(), r.obs[i].size() * sizeof(int))));
    T const &x = f.v[i];
    std::uint64_t evals = 0;
    for (std::size_t j = 0; j < n; ++j)
    {
      vf::operands(static_cast<long long>(i), static_cast<long long>(j));
      T const &y = f.v[j];
      if constexpr ((Ops & o_eq) != 0)
        r.m[i_eq][i * n + j] = (x == y) ? 1 : 0;
      if constexpr ((Ops & o_ne) != 0)
        r.m[i_ne][i * n + j] = (x != y) ? 1 : 0;
      if constexpr ((Ops & o_lt) != 0)
        r.m[i_lt][i * n + j] = (x < y) ? 1 : 0;
      if constexpr ((Ops & o_le) != 0)
        r.m[i_le][i * n + j] = (x <= y) ? 1 : 0;
      if constexpr ((Ops & o_gt) != 0)
        r.m[i_gt][i * n + j] = (x > y) ? 1 : 0;
      if constexpr ((Ops & o_ge) != 0)
        r.m[i_ge][i * n + j] = (x >= y) ? 1 : 0;
      evals += static_cast<unsigned>(__builtin_popcount(Ops));
    }
    {
      std::size_t k = 0;
      ((r.hashes[k].h[i] = hashers.fn(x), r.hashes[k].known[i] = 1, ++k), ...);
      evals += sizeof...(H);
      // a hash function object is a function: asking twice gives the same answer
      k = 0;
      ((hashers.fn(x) != r.hashes[k].h[i]
            ? vf::violation(entry + "/hash:" + hashers.name + "/not-deterministic", "mismatch", "x=" + item_text(r, i))
            : void()),
       ...);
    }
    // a copy is equal to its original and hashes equally
    if constexpr (std::is_copy_constructible_v<T> && (Ops & o_eq) != 0)
    {
      T const c(x);
      VF_COUNT("copies/compared");
      if (!(c == x) || !(x == c))
        vf::violation(entry + "/==/copy-not-equal-to-original", "mismatch", "x=" + item_text(r, i));
      if constexpr ((Ops & o_lt) != 0)
        if ((c < x) || (x < c))
          vf::violation(entry + "/</copy-ordered-against-original", "mismatch", "x=" + item_text(r, i));
      std::size_t k = 0;
      ((hashers.fn(c) != r.hashes[k++].h[i]
            ? vf::violation(entry + "/hash:" + hashers.name + "/copy-hashes-differently", "mismatch", "x=" + item_text(r, i))
            : void()),
       ...);
      evals += 2 + sizeof...(H);
    }
    if (evals > 0)
      vf::add_evals(evals - 1);
    if (observe(x) != r.obs[i])
      vf::violation(entry + "/comparison-changed-the-operand", "mismatch", "x=" + item_text(r, i));
  }
  analyze(r);
}
} // namespace

// ================================================================================================ slice 1
#if VF_IN_SLICE(1)
#include <fcppt/array/comparison.hpp>
#include <fcppt/array/get.hpp>
#include <fcppt/array/init.hpp>
#include <fcppt/array/object_impl.hpp>
#include <fcppt/either/comparison.hpp>
#include <fcppt/either/object_impl.hpp>
#include <fcppt/no_init.hpp>
#include <fcppt/optional/comparison.hpp>
#include <fcppt/optional/object_impl.hpp>
#include <fcppt/tuple/comparison.hpp>
#include <fcppt/tuple/get.hpp>
#include <fcppt/tuple/make.hpp>
#include <fcppt/tuple/object_impl.hpp>
#include <fcppt/variant/compare.hpp>
#include <fcppt/variant/comparison.hpp>
#include <fcppt/variant/get_unsafe.hpp>
#include <fcppt/variant/holds_type.hpp>
#include <fcppt/variant/object_impl.hpp>

namespace
{
std::vector<std::string> const small_strings{"", "a", "b", "aa", "ab", "ba"};
comps string_comps(std::string const &s)
{
  comps r;
  for (char c : s)
    r.push_back(static_cast<unsigned char>(c));
  return r;
}

// ---- optional
template <class T, class Enc>
void optional_family(std::string const &entry, std::vector<T> const &values, Enc const &enc)
{
  if (!entry_selected(entry))
    return;
  using opt = fcppt::optional::object<T>;
  family<opt> f;
  auto target = [&](int k) { return k < 0 ? opt() : opt(values[static_cast<std::size_t>(k)]); };
  auto name = [&](int k) { return k < 0 ? std::string("nothing") : "some(" + show(enc(values[static_cast<std::size_t>(k)])) + ")"; };
  int const nv = static_cast<int>(values.size());
  for (int k = -1; k < nv; ++k)
  {
    f.add("construct " + name(k), target(k));
    // the same value reached by assignment over every other state (engaged -> disengaged leaves storage behind)
    for (int p = -1; p < nv; ++p)
      if (p != k && (p < 1 || p == nv - 1))
      {
        opt &o = f.add("construct " + name(p) + " then assign " + name(k), target(p));
        o = target(k);
      }
    {
      opt src(target(k));
      f.add("move-construct from " + name(k), std::move(src));
    }
    if (k >= 0)
    {
      opt &o = f.add("construct " + name(k == 0 ? 1 % nv : 0) + " then write through get_unsafe " + name(k),
                     target(k == 0 ? 1 % nv : 0));
      o.get_unsafe() = values[static_cast<std::size_t>(k)];
    }
  }
  auto observe = [&](opt const &o) {
    comps c{o.has_value() ? 1 : 0};
    if (o.has_value())
      append(c, enc(o.get_unsafe()));
    return c;
  };
  // documented: "If one or both of them are empty, returns a.has_value() < b.has_value(), otherwise a.get_unsafe() < b.get_unsafe()"
  run_family<o_eq | o_ne | o_lt>(entry, f, observe, observe, true);
}

void slice1_optional()
{
  optional_family<int>("optional<int>", {0, 1, 2}, [](int v) { return comps{v}; });
  {
    using inner = fcppt::optional::object<int>;
    optional_family<inner>("optional<optional<int>>", {inner(), inner(0), inner(1), inner(2)}, [](inner const &o) {
      return o.has_value() ? comps{1, o.get_unsafe()} : comps{0};
    });
  }
  optional_family<std::string>("optional<string>", small_strings, string_comps);
}

// ---- either
template <class F, class S, class EncF, class EncS>
void either_family(std::string const &entry, std::vector<F> const &fs, std::vector<S> const &ss, EncF const &encf,
                   EncS const &encs)
{
  if (!entry_selected(entry))
    return;
  using ei = fcppt::either::object<F, S>;
  family<ei> f;
  int const nf = static_cast<int>(fs.size()), ns = static_cast<int>(ss.size());
  // state k: 0..nf-1 failure, nf.. success
  auto target = [&](int k) { return k < nf ? ei(fs[static_cast<std::size_t>(k)]) : ei(ss[static_cast<std::size_t>(k - nf)]); };
  auto name = [&](int k) {
    return k < nf ? "failure(" + show(encf(fs[static_cast<std::size_t>(k)])) + ")"
                  : "success(" + show(encs(ss[static_cast<std::size_t>(k - nf)])) + ")";
  };
  for (int k = 0; k < nf + ns; ++k)
  {
    f.add("construct " + name(k), target(k));
    for (int p : {0, nf - 1, nf, nf + ns - 1})
      if (p != k)
      {
        ei &e = f.add("construct " + name(p) + " then assign " + name(k), target(p));
        e = target(k);
      }
    ei src(target(k));
    f.add("move-construct from " + name(k), std::move(src));
  }
  auto observe = [&](ei const &e) {
    comps c{e.has_success() ? 1 : 0, e.has_failure() ? 1 : 0};
    if (e.has_success())
      append(c, encs(e.get_success_unsafe()));
    if (e.has_failure())
      append(c, encf(e.get_failure_unsafe()));
    return c;
  };
  run_family<o_eq | o_ne>(entry, f, observe, no_order{}, false);
}
void slice1_either()
{
  either_family<short, int>("either<short,int>", {0, 1, 2}, {0, 1, 2}, [](short v) { return comps{v}; },
                            [](int v) { return comps{v}; });
  either_family<std::string, int>("either<string,int>", small_strings, {0, 1, 2}, string_comps,
                                  [](int v) { return comps{v}; });
}

// ---- variant
void slice1_variant()
{
  if (entry_selected("variant<bool,int,string>"))
  {
    using var = fcppt::variant::object<bool, int, std::string>;
    std::vector<std::pair<std::string, std::function<var()>>> states;
    for (bool b : {false, true})
      states.emplace_back(std::string("bool ") + (b ? "true" : "false"), [b] { return var(b); });
    for (int i : {0, 1, 2})
      states.emplace_back("int " + std::to_string(i), [i] { return var(i); });
    for (std::string const &s : small_strings)
      states.emplace_back("string '" + s + "'", [s] { return var(s); });
    family<var> f;
    for (std::size_t k = 0; k < states.size(); ++k)
    {
      f.add("construct " + states[k].first, states[k].second());
      // the same value reached by assignment over every other alternative (inactive alternatives)
      for (std::size_t p : {std::size_t{0}, std::size_t{1}, std::size_t{2}, std::size_t{4}, states.size() - 1, states.size() - 3})
        if (p != k)
        {
          var &v = f.add("construct " + states[p].first + " then assign " + states[k].first, states[p].second());
          v = states[k].second();
        }
      var src(states[k].second());
      f.add("move-construct from " + states[k].first, std::move(src));
    }
    auto observe = [](var const &v) {
      comps c{static_cast<int>(v.type_index()), v.is_invalid() ? 1 : 0};
      if (fcppt::variant::holds_type<bool>(v))
        append(c, comps{0, fcppt::variant::get_unsafe<bool>(v) ? 1 : 0});
      if (fcppt::variant::holds_type<int>(v))
        append(c, comps{1, fcppt::variant::get_unsafe<int>(v)});
      if (fcppt::variant::holds_type<std::string>(v))
      {
        append(c, comps{2});
        append(c, string_comps(fcppt::variant::get_unsafe<std::string>(v)));
      }
      return c;
    };
    // documented: lexicographic on (type_index(), value)
    run_family<o_eq | o_ne | o_lt>("variant<bool,int,string>", f, observe, observe, true);
    // observed: variant::compare with an equality functor agrees with ==
    if (vf::begin_case("observed: variant::compare(x, y, equal_to) against x == y, all pairs"))
    {
      std::uint64_t bad = 0, n = 0;
      for (var const &a : f.v)
        for (var const &b : f.v)
        {
          bool const c = fcppt::variant::compare(a, b, [](auto const &l, auto const &r) { return l == r; });
          ++n;
          if (c != (a == b))
            ++bad;
        }
      vf::add_evals(n);
      vf::count("observed/variant::compare/calls", n);
      vf::count("observed/variant::compare/differs-from-==", bad);
      if (bad)
        vf::violation("variant<bool,int,string>/variant::compare/equal_to", "mismatch",
                      "variant::compare(x,y,==) differs from x==y on " + std::to_string(bad) + " of " + std::to_string(n) + " pairs");
    }
    // judged (documented: "equal if they hold the same type T and compare(left.get<T>(), right.get<T>()) holds"): with an
    // asymmetric function the wrapper must hand the values over in the order of its arguments, i.e. agree with < on
    // variants holding the same alternative, and be false for different alternatives
    if (vf::begin_case("variant::compare(x, y, less) against the documented definition, all pairs"))
    {
      std::uint64_t n = 0;
      for (var const &a : f.v)
        for (var const &b : f.v)
        {
          bool const c = fcppt::variant::compare(a, b, [](auto const &l, auto const &r) { return l < r; });
          bool const want = a.type_index() == b.type_index() && a < b;
          ++n;
          if (c != want)
          {
            vf::violation("variant<bool,int,string>/variant::compare/less", "mismatch",
                          std::string("compare(x, y, <) is ") + (c ? "true" : "false") + " where the documented definition gives " + (want ? "true" : "false"));
            break;
          }
        }
      vf::add_evals(n);
      vf::count("judged/variant::compare/less", n);
    }
  }
  if (entry_selected("variant<int>"))
  {
    using var = fcppt::variant::object<int>;
    family<var> f;
    for (int i : {0, 1, 2})
    {
      f.add("construct int " + std::to_string(i), var(i));
      var &v = f.add("construct int " + std::to_string((i + 1) % 3) + " then assign int " + std::to_string(i),
                     var((i + 1) % 3));
      v = var(i);
      var &w = f.add("construct int 7 then write through get_unsafe " + std::to_string(i), var(7));
      w.get_unsafe<int>() = i;
    }
    auto observe = [](var const &v) {
      return comps{static_cast<int>(v.type_index()), fcppt::variant::get_unsafe<int>(v)};
    };
    run_family<o_eq | o_ne | o_lt>("variant<int>", f, observe, observe, true);
  }
}

// ---- tuple
void slice1_tuple()
{
  if (entry_selected("tuple<int,int,int>"))
  {
    using tup = fcppt::tuple::object<int, int, int>;
    family<tup> f;
    for (comps const &c : sequences(3, dom()))
    {
      f.add("construct " + show(c), c[0], c[1], c[2]);
      f.add("tuple::make " + show(c), fcppt::tuple::make(c[0], c[1], c[2]));
      tup &t = f.add("construct [2,0,1] then assign " + show(c), 2, 0, 1);
      t = tup(c[0], c[1], c[2]);
      tup &u = f.add("construct [9,9,9] then write through get<I> " + show(c), 9, 9, 9);
      fcppt::tuple::get<0>(u) = c[0];
      fcppt::tuple::get<1>(u) = c[1];
      fcppt::tuple::get<2>(u) = c[2];
    }
    auto observe = [](tup const &t) {
      return comps{fcppt::tuple::get<0>(t), fcppt::tuple::get<1>(t), fcppt::tuple::get<2>(t)};
    };
    run_family<o_eq | o_ne>("tuple<int,int,int>", f, observe, no_order{}, false);
  }
  if (entry_selected("tuple<int,string,bool>"))
  {
    using tup = fcppt::tuple::object<int, std::string, bool>;
    family<tup> f;
    for (int i : {0, 1, 2})
      for (std::string const &s : small_strings)
        for (bool b : {false, true})
        {
          std::string const nm = "[" + std::to_string(i) + ",'" + s + "'," + (b ? "true" : "false") + "]";
          f.add("construct " + nm, i, s, b);
          tup &t = f.add("construct [1,'zz',true] then assign " + nm, 1, std::string("zz"), true);
          t = tup(i, s, b);
        }
    auto observe = [](tup const &t) {
      comps c{fcppt::tuple::get<0>(t), fcppt::tuple::get<2>(t) ? 1 : 0};
      append(c, string_comps(fcppt::tuple::get<1>(t)));
      return c;
    };
    run_family<o_eq | o_ne>("tuple<int,string,bool>", f, observe, no_order{}, false);
  }
  if (entry_selected("tuple<>"))
  {
    using tup = fcppt::tuple::object<>;
    family<tup> f;
    f.add("construct");
    f.add("construct (second object)");
    tup &t = f.add("construct then assign");
    t = tup();
    run_family<o_eq | o_ne>("tuple<>", f, [](tup const &) { return comps{}; }, no_order{}, false);
  }
}

// ---- array
void slice1_array()
{
  if (entry_selected("array<int,3>"))
  {
    using arr = fcppt::array::object<int, 3>;
    family<arr> f;
    for (comps const &c : sequences(3, dom()))
    {
      f.add("construct " + show(c), c[0], c[1], c[2]);
      arr &a = f.add("no_init then write through get_unsafe " + show(c), fcppt::no_init{});
      for (std::size_t i = 0; i < 3; ++i)
        a.get_unsafe(i) = c[i];
      f.add("array::init " + show(c), fcppt::array::init<arr>([&c](auto const idx) { return c[idx()]; }));
      arr &b = f.add("construct [2,2,2] then assign " + show(c), 2, 2, 2);
      b = arr(c[0], c[1], c[2]);
    }
    auto observe = [](arr const &a) {
      return comps{fcppt::array::get<0>(a), a.get_unsafe(1), *(a.begin() + 2), static_cast<int>(a.size())};
    };
    run_family<o_eq | o_ne>("array<int,3>", f, observe, no_order{}, false);
  }
  if (entry_selected("array<int,1>"))
  {
    using arr = fcppt::array::object<int, 1>;
    family<arr> f;
    for (int v : {0, 1, 2})
    {
      f.add("construct [" + std::to_string(v) + "]", v);
      arr &a = f.add("no_init then write " + std::to_string(v), fcppt::no_init{});
      a.get_unsafe(0) = v;
    }
    run_family<o_eq | o_ne>("array<int,1>", f, [](arr const &a) { return comps{a.get_unsafe(0)}; }, no_order{}, false);
  }
  if (entry_selected("array<string,2>"))
  {
    using arr = fcppt::array::object<std::string, 2>;
    family<arr> f;
    for (std::string const &s : small_strings)
      for (std::string const &t : small_strings)
      {
        f.add("construct ['" + s + "','" + t + "']", s, t);
        arr &a = f.add("construct ['x','y'] then assign ['" + s + "','" + t + "']", std::string("x"), std::string("y"));
        a = arr(s, t);
      }
    auto observe = [](arr const &a) {
      comps c{static_cast<int>(a.get_unsafe(0).size())};
      append(c, string_comps(a.get_unsafe(0)));
      append(c, string_comps(a.get_unsafe(1)));
      return c;
    };
    run_family<o_eq | o_ne>("array<string,2>", f, observe, no_order{}, false);
  }
}
} // namespace
void vf_slice_1()
{
  slice1_optional();
  slice1_either();
  slice1_variant();
  slice1_tuple();
  slice1_array();
}
#endif

// ================================================================================================ slice 0
#if VF_IN_SLICE(0)
#pragma GCC diagnostic ignored "-Wnarrowing" // strong_typedef<uint8_t>{int}: accepted by gcc with a warning
#include <fcppt/make_cref.hpp>
#include <fcppt/make_recursive.hpp>
#include <fcppt/make_ref.hpp>
#include <fcppt/make_shared_ptr.hpp>
#include <fcppt/make_unique_ptr.hpp>
#include <fcppt/recursive.hpp>
#include <fcppt/reference.hpp>
#include <fcppt/reference_to_base.hpp>
#include <fcppt/reference_to_const.hpp>
#include <fcppt/shared_ptr.hpp>
#include <fcppt/shared_ptr_hash_impl.hpp>
#include <fcppt/shared_ptr_std_hash.hpp>
#include <fcppt/strong_typedef.hpp>
#include <fcppt/strong_typedef_hash.hpp>
#include <fcppt/unique_ptr.hpp>
#include <fcppt/unique_ptr_from_std.hpp>
#include <fcppt/unique_ptr_to_base.hpp>
#include <fcppt/unique_ptr_to_const.hpp>
#include <fcppt/weak_ptr.hpp>
#include <fcppt/optional/comparison.hpp>
#include <fcppt/optional/object_impl.hpp>
#include <fcppt/type_iso/decorate.hpp>
#include <fcppt/type_iso/enum.hpp>
#include <fcppt/type_iso/strong_typedef.hpp>
#include <fcppt/type_iso/undecorate.hpp>

namespace
{
template <class T>
struct st_tag
{
};
template <class T>
using strong = fcppt::strong_typedef<T, st_tag<T>>;

// ---- an underlying type whose operators are unrelated to each other: the result of every operator encodes
// which operator ran on which operands in which order.  Only x++ / x-- are the conventional ones (old value,
// then the effect of ++x / --x), as for every regular type.
struct probe
{
  long id;
};
constexpr long pmix(long op, long a, long b) { return ((op * 1009 + a) * 1013 + b) % 1000003; }
constexpr bool pbit(long op, long a, long b) { return ((pmix(op, a, b) * 2654435761UL) >> 7 & 1UL) != 0; }
probe operator+(probe a, probe b) { return probe{pmix(1, a.id, b.id)}; }
probe operator-(probe a, probe b) { return probe{pmix(2, a.id, b.id)}; }
probe operator*(probe a, probe b) { return probe{pmix(3, a.id, b.id)}; }
probe operator-(probe a) { return probe{pmix(4, a.id, 0)}; }
probe operator&(probe a, probe b) { return probe{pmix(5, a.id, b.id)}; }
probe operator|(probe a, probe b) { return probe{pmix(6, a.id, b.id)}; }
probe operator^(probe a, probe b) { return probe{pmix(7, a.id, b.id)}; }
probe operator~(probe a) { return probe{pmix(8, a.id, 0)}; }
probe &operator+=(probe &a, probe b) { a.id = pmix(9, a.id, b.id); return a; }
probe &operator-=(probe &a, probe b) { a.id = pmix(10, a.id, b.id); return a; }
probe &operator*=(probe &a, probe b) { a.id = pmix(11, a.id, b.id); return a; }
probe &operator&=(probe &a, probe b) { a.id = pmix(12, a.id, b.id); return a; }
probe &operator|=(probe &a, probe b) { a.id = pmix(13, a.id, b.id); return a; }
probe &operator^=(probe &a, probe b) { a.id = pmix(14, a.id, b.id); return a; }
probe &operator++(probe &a) { a.id = pmix(15, a.id, 0); return a; }
probe &operator--(probe &a) { a.id = pmix(16, a.id, 0); return a; }
probe operator++(probe &a, int) { probe o = a; ++a; return o; }
probe operator--(probe &a, int) { probe o = a; --a; return o; }
bool operator<(probe a, probe b) { return pbit(21, a.id, b.id); }
bool operator<=(probe a, probe b) { return pbit(22, a.id, b.id); }
bool operator>(probe a, probe b) { return pbit(23, a.id, b.id); }
bool operator>=(probe a, probe b) { return pbit(24, a.id, b.id); }
bool operator==(probe a, probe b) { return pbit(25, a.id, b.id); }
bool operator!=(probe a, probe b) { return pbit(26, a.id, b.id); }

template <class T>
std::string val_text(T const &v)
{
  if constexpr (std::is_same_v<T, probe>)
    return "probe#" + std::to_string(v.id);
  else if constexpr (std::is_same_v<T, std::string>)
    return "'" + v + "'";
  else
    return std::to_string(v);
}
// identity of values for the judge (probe's own == is a table, so compare the representation)
template <class T>
bool same(T const &a, T const &b)
{
  if constexpr (std::is_same_v<T, probe>)
    return a.id == b.id;
  else
    return a == b;
}

template <class T>
struct ops_check
{
  using st = strong<T>;
  std::string entry;
  void bad(char const *op, char const *cls, T const &a, T const &b, std::string const &got, std::string const &want)
  {
    vf::violation(entry + "/operator" + op + "/" + cls, "mismatch",
                  "a=" + val_text(a) + " b=" + val_text(b) + " got=" + got + " want=" + want);
  }
  void value(char const *op, T const &a, T const &b, T const &got, T const &want)
  {
    if (!same(got, want))
      bad(op, "differs-from-underlying-operator", a, b, val_text(got), val_text(want));
  }
  void boolean(char const *op, T const &a, T const &b, bool got, bool want)
  {
    if (got != want)
      bad(op, "differs-from-underlying-operator", a, b, got ? "true" : "false", want ? "true" : "false");
  }
  // the wrapped result of "a op b" on the underlying values, converted to T as the wrapper's constructor does
  template <class R>
  static T conv(R const &r)
  {
    if constexpr (std::is_arithmetic_v<T>)
      return static_cast<T>(r);
    else
      return r;
  }
  static constexpr bool numeric = !std::is_same_v<T, std::string>;

  void pair(T const &a, T const &b)
  {
    st const x(a), y(b);
    std::uint64_t n = 0;
    // ---- binary value operators
    {
      auto r = x + y;
      static_assert(std::is_same_v<decltype(r), st>);
      value("+", a, b, r.get(), conv(a + b));
      ++n;
    }
    if constexpr (numeric)
    {
      value("-", a, b, (x - y).get(), conv(a - b));
      // uint16_t * uint16_t is computed in int and can overflow there: the underlying operator itself is
      // undefined for those operands, so there is no "wrapped result" to compare with (side condition)
      bool mul_defined = true;
      if constexpr (std::is_integral_v<T> && sizeof(T) < sizeof(int))
        mul_defined = static_cast<long long>(a) * static_cast<long long>(b) <= std::numeric_limits<int>::max();
      if (mul_defined)
        value("*", a, b, (x * y).get(), conv(a * b));
      else
        VF_COUNT("strong_typedef-ops/skipped-underlying-operator-undefined");
      value("&", a, b, (x & y).get(), conv(a & b));
      value("|", a, b, (x | y).get(), conv(a | b));
      value("^", a, b, (x ^ y).get(), conv(a ^ b));
      static_assert(std::is_same_v<decltype(x - y), st> && std::is_same_v<decltype(x * y), st> &&
                    std::is_same_v<decltype(x & y), st> && std::is_same_v<decltype(x | y), st> &&
                    std::is_same_v<decltype(x ^ y), st>);
      n += 5;
    }
    // ---- comparisons
    boolean("<", a, b, x < y, a < b);
    boolean("<=", a, b, x <= y, a <= b);
    boolean(">", a, b, x > y, a > b);
    boolean(">=", a, b, x >= y, a >= b);
    boolean("==", a, b, x == y, a == b);
    boolean("!=", a, b, x != y, a != b);
    n += 6;
    // ---- compound assignment: the left operand holds the underlying result, the operator returns the left
    // operand itself, the right operand is untouched
    auto compound = [&](char const *op, auto apply_st, auto apply_raw) {
      st l(a);
      st const rr(b);
      T want(a);
      apply_raw(want, b);
      st &ret = apply_st(l, rr);
      value(op, a, b, l.get(), want);
      if (&ret != &l)
        bad(op, "does-not-return-left-operand", a, b, "other object", "left operand");
      if (!same(rr.get(), b))
        bad(op, "modified-right-operand", a, b, val_text(rr.get()), val_text(b));
      ++n;
    };
    compound("+=", [](st &l, st const &r) -> st & { return l += r; }, [](T &l, T const &r) { l += r; });
    if constexpr (numeric)
    {
      // self operand: x op= x
      if (same(a, b))
      {
        bool add_defined = true;
        if constexpr (std::is_integral_v<T> && std::is_signed_v<T>)
          add_defined = static_cast<long long>(a) * 2 <= static_cast<long long>(std::numeric_limits<T>::max()) &&
                        static_cast<long long>(a) * 2 >= static_cast<long long>(std::numeric_limits<T>::min());
        if (add_defined)
        {
          st l(a);
          l += l;
          T want(a);
          want += a;
          value("+=(self)", a, a, l.get(), want);
        }
        st m(a);
        m -= m;
        T wz(a);
        wz -= a;
        value("-=(self)", a, a, m.get(), wz);
        st o(a);
        o ^= o;
        T wx(a);
        wx ^= a;
        value("^=(self)", a, a, o.get(), wx);
        n += 3;
      }
      compound("-=", [](st &l, st const &r) -> st & { return l -= r; }, [](T &l, T const &r) { l -= r; });
      bool mul_defined = true;
      if constexpr (std::is_integral_v<T> && sizeof(T) < sizeof(int))
        mul_defined = static_cast<long long>(a) * static_cast<long long>(b) <= std::numeric_limits<int>::max();
      if (mul_defined)
        compound("*=", [](st &l, st const &r) -> st & { return l *= r; }, [](T &l, T const &r) { l *= r; });
      compound("&=", [](st &l, st const &r) -> st & { return l &= r; }, [](T &l, T const &r) { l &= r; });
      compound("|=", [](st &l, st const &r) -> st & { return l |= r; }, [](T &l, T const &r) { l |= r; });
      compound("^=", [](st &l, st const &r) -> st & { return l ^= r; }, [](T &l, T const &r) { l ^= r; });
    }
    if (!same(x.get(), a) || !same(y.get(), b))
      bad("(binary)", "modified-an-operand", a, b, val_text(x.get()) + "," + val_text(y.get()), "unchanged");
    vf::add_evals(n);
  }
  void unary(T const &a)
  {
    if constexpr (numeric)
    {
      st const x(a);
      T const none(a);
      value("-(unary)", a, none, (-x).get(), conv(-a));
      value("~", a, none, (~x).get(), conv(~a));
      {
        st v(a);
        T w(a);
        st &ret = ++v;
        ++w;
        value("++(pre)", a, none, v.get(), w);
        if (&ret != &v)
          bad("++(pre)", "does-not-return-operand", a, none, "other object", "operand");
      }
      {
        st v(a);
        T w(a);
        st &ret = --v;
        --w;
        value("--(pre)", a, none, v.get(), w);
        if (&ret != &v)
          bad("--(pre)", "does-not-return-operand", a, none, "other object", "operand");
      }
      {
        st v(a);
        T w(a);
        st const old = v++;
        T const wold = w++;
        value("++(post)", a, none, v.get(), w);
        if (!same(old.get(), wold))
          bad("++(post)", "returned-value", a, none, val_text(old.get()), val_text(wold));
      }
      {
        st v(a);
        T w(a);
        st const old = v--;
        T const wold = w--;
        value("--(post)", a, none, v.get(), w);
        if (!same(old.get(), wold))
          bad("--(post)", "returned-value", a, none, val_text(old.get()), val_text(wold));
      }
      vf::add_evals(6);
    }
    // the wrapper itself: get() is the stored value, writable through the non-const get()
    {
      st v(a);
      if (!same(v.get(), a))
        bad("(get)", "constructor-get-roundtrip", a, a, val_text(v.get()), val_text(a));
      st const &cv = v;
      if (&cv.get() != &v.get())
        bad("(get)", "const-and-non-const-get-differ", a, a, "different objects", "same object");
      static_assert(std::is_same_v<typename st::value_type, T>);
    }
  }

  // as[i] against all bs; unary (++, --, -) only where inc_ok
  void run(std::vector<T> const &as, std::vector<T> const &bs, bool (*unary_ok)(T const &))
  {
    std::uint64_t const eh = vf::hash_str(entry);
    for (std::size_t i = 0; i < as.size(); ++i)
    {
      if (!vf::begin_case("a=%s against %zu values of b, all operators", val_text(as[i]).c_str(), bs.size()))
        continue;
      vf::sample_case(2);
      vf::note_distinct(vf::hash_mix(eh, vf::hash_str(val_text(as[i]))));
      for (T const &b : bs)
      {
        if constexpr (std::is_integral_v<T>)
          vf::operands(static_cast<long long>(as[i]), static_cast<long long>(b));
        pair(as[i], b);
        VF_COUNT("strong_typedef-ops/pairs");
      }
      if (unary_ok(as[i]))
      {
        unary(as[i]);
        VF_COUNT("strong_typedef-ops/unary");
      }
    }
  }
};

template <class T>
std::vector<T> wrap_boundary()
{
  // values around 0, around the middle and around the maximum, so that +, -, *, ++, -- wrap in both directions
  std::vector<T> r;
  T const mx = std::numeric_limits<T>::max();
  T const half = static_cast<T>(mx / 2U);
  for (unsigned d = 0; d <= 3; ++d)
  {
    r.push_back(static_cast<T>(d));
    r.push_back(static_cast<T>(mx - d));
    r.push_back(static_cast<T>(half - d));
    r.push_back(static_cast<T>(half + 1U + d));
  }
  for (unsigned k = 1; k < sizeof(T) * 8; k += (sizeof(T) > 2 ? 7 : 3))
    r.push_back(static_cast<T>((static_cast<T>(1) << k) + 1U));
  r.push_back(static_cast<T>(0x55555555AAAAAAAAULL));
  r.push_back(static_cast<T>(0xF0F0F0F00F0F0F0FULL));
  // a few seeded values of mixed magnitude
  vf::rng g(vf::seed_for("wrap_boundary", sizeof(T)));
  for (int i = 0; i < 8; ++i)
    r.push_back(static_cast<T>(g.next() >> g.below(sizeof(T) * 8)));
  return r;
}

void slice0_ops()
{
  if (entry_selected("strong_typedef-ops<int>"))
  {
    std::vector<int> v;
    for (int i = -128; i <= 127; ++i)
      v.push_back(i);
    ops_check<int> c{"strong_typedef-ops<int>"};
    c.run(v, v, [](int const &) { return true; });
  }
  if (entry_selected("strong_typedef-ops<unsigned>"))
  {
    auto v = wrap_boundary<unsigned>();
    ops_check<unsigned> c{"strong_typedef-ops<unsigned>"};
    c.run(v, v, [](unsigned const &) { return true; });
  }
  if (entry_selected("strong_typedef-ops<u8>"))
  {
    std::vector<std::uint8_t> v;
    for (unsigned i = 0; i < 256; ++i)
      v.push_back(static_cast<std::uint8_t>(i));
    ops_check<std::uint8_t> c{"strong_typedef-ops<u8>"};
    c.run(vf::thorough() ? v : wrap_boundary<std::uint8_t>(), v, [](std::uint8_t const &) { return true; });
  }
  if (entry_selected("strong_typedef-ops<u16>"))
  {
    auto v = wrap_boundary<std::uint16_t>();
    ops_check<std::uint16_t> c{"strong_typedef-ops<u16>"};
    c.run(v, v, [](std::uint16_t const &) { return true; });
  }
  if (entry_selected("strong_typedef-ops<u64>"))
  {
    auto v = wrap_boundary<std::uint64_t>();
    ops_check<std::uint64_t> c{"strong_typedef-ops<u64>"};
    c.run(v, v, [](std::uint64_t const &) { return true; });
  }
  if (entry_selected("strong_typedef-ops<probe>"))
  {
    std::vector<probe> v;
    for (long i = 0; i < vf::tier(40L, 200L); ++i)
      v.push_back(probe{i});
    ops_check<probe> c{"strong_typedef-ops<probe>"};
    c.run(v, v, [](probe const &) { return true; });
  }
  if (entry_selected("strong_typedef-ops<string>"))
  {
    std::vector<std::string> v{"", "a", "b", "aa", "ab", "ba", "a longer string that does not fit the small buffer"};
    ops_check<std::string> c{"strong_typedef-ops<string>"};
    c.run(v, v, [](std::string const &) { return true; });
  }
}

// ---- strong_typedef as a value type
void slice0_strong_family()
{
  if (entry_selected("strong_typedef<int>"))
  {
    using st = strong<int>;
    family<st> f;
    for (int v : {-1, 0, 1, 2})
    {
      std::string const s = std::to_string(v);
      f.add("construct " + s, v);
      st &a = f.add("construct 7 then assign " + s, 7);
      a = st(v);
      f.add("(" + std::to_string(v - 1) + ") + (1)", st(v - 1) + st(1));
      st &b = f.add("++ of " + std::to_string(v - 1), v - 1);
      ++b;
      st &c = f.add("construct 9 then write through get() " + s, 9);
      c.get() = v;
      f.add("-( " + std::to_string(-v) + ")", -st(-v));
    }
    auto observe = [](st const &x) { return comps{x.get()}; };
    run_family<o_eq | o_ne | o_lt | o_le | o_gt | o_ge>(
        "strong_typedef<int>", f, observe, observe, true,
        hasher<st>("strong_typedef_hash", [](st const &x) { return fcppt::strong_typedef_hash<st>()(x); }),
        hasher<st>("std::hash", [](st const &x) { return std::hash<st>()(x); }));
    // observed: the hash is the hash of the wrapped value
    std::uint64_t diff = 0;
    for (st const &x : f.v)
      if (fcppt::strong_typedef_hash<st>()(x) != std::hash<int>()(x.get()) ||
          std::hash<st>()(x) != std::hash<int>()(x.get()))
        ++diff;
    vf::count("observed/strong_typedef_hash/differs-from-hash-of-wrapped-value", diff);
    if (diff)
      vf::observation("strong_typedef_hash / std::hash<strong_typedef> differ from std::hash of the wrapped value (observed only)");
  }
  if (entry_selected("strong_typedef<string>"))
  {
    using st = strong<std::string>;
    family<st> f;
    for (std::string const &v : {std::string(""), std::string("a"), std::string("ab"), std::string("b")})
    {
      f.add("construct '" + v + "'", v);
      st &a = f.add("construct 'zzz' then assign '" + v + "'", std::string("zzz"));
      a = st(v);
      f.add("'" + v + "' + ''", st(v) + st(std::string()));
      if (!v.empty())
      {
        st &b = f.add("'" + v.substr(0, v.size() - 1) + "' += '" + v.substr(v.size() - 1) + "'", v.substr(0, v.size() - 1));
        b += st(v.substr(v.size() - 1));
      }
    }
    auto observe = [](st const &x) {
      comps c;
      for (char ch : x.get())
        c.push_back(static_cast<unsigned char>(ch));
      return c;
    };
    run_family<o_eq | o_ne | o_lt | o_le | o_gt | o_ge>(
        "strong_typedef<string>", f, observe, observe, true,
        hasher<st>("strong_typedef_hash", [](st const &x) { return fcppt::strong_typedef_hash<st>()(x); }),
        hasher<st>("std::hash", [](st const &x) { return std::hash<st>()(x); }));
  }
}

// ---- type_iso
enum class iso_enum : short
{
  a,
  b,
  c
};
void slice0_type_iso()
{
  if (!entry_selected("type_iso"))
    return;
  using st = strong<int>;
  struct outer_tag
  {
  };
  using st2 = fcppt::strong_typedef<st, outer_tag>;
  using sts = strong<std::string>;
  static_assert(std::is_same_v<fcppt::type_iso::undecorated_type<st>, int>);
  static_assert(std::is_same_v<fcppt::type_iso::undecorated_type<st2>, int>);
  static_assert(std::is_same_v<fcppt::type_iso::undecorated_type<int>, int>);
  auto viol = [](char const *fn, char const *cls, int v, std::string const &got) {
    vf::violation(std::string("type_iso/") + fn + "/" + cls, "mismatch", "value=" + std::to_string(v) + " got=" + got);
  };
  if (vf::begin_case("decorate/undecorate of strong_typedef<int>, strong_typedef<strong_typedef<int>>, int for all values in [-128,127]"))
  {
    vf::sample_case(1);
    vf::note_distinct(vf::hash_str("type_iso/int"));
    for (int v = -128; v <= 127; ++v)
    {
      vf::operands(v);
      st const d = fcppt::type_iso::decorate<st>(v);
      if (d.get() != v)
        viol("decorate<strong_typedef<int>>", "wrong-wrapped-value", v, std::to_string(d.get()));
      int const u = fcppt::type_iso::undecorate(st(v));
      if (u != v)
        viol("undecorate<strong_typedef<int>>", "wrong-value", v, std::to_string(u));
      st2 const d2 = fcppt::type_iso::decorate<st2>(v);
      if (d2.get().get() != v)
        viol("decorate<nested strong_typedef>", "wrong-wrapped-value", v, std::to_string(d2.get().get()));
      int const u2 = fcppt::type_iso::undecorate(st2(st(v)));
      if (u2 != v)
        viol("undecorate<nested strong_typedef>", "wrong-value", v, std::to_string(u2));
      if (fcppt::type_iso::decorate<int>(v) != v || fcppt::type_iso::undecorate(v) != v)
        viol("terminal<int>", "not-identity", v, "");
      // the transform itself
      using tr = fcppt::type_iso::transform<st>;
      if (tr::decorate(v).get() != v || tr::undecorate(st(v)) != v)
        viol("transform<strong_typedef<int>>", "wrong-value", v, "");
      // round trips
      if (fcppt::type_iso::undecorate(fcppt::type_iso::decorate<st2>(v)) != v)
        viol("undecorate(decorate)", "not-identity", v, "");
      VF_COUNT("type_iso/values");
      vf::add_evals(8);
    }
  }
  if (vf::begin_case("decorate/undecorate of strong_typedef<string>"))
  {
    vf::note_distinct(vf::hash_str("type_iso/string"));
    for (std::string const &s : {std::string(), std::string("a"), std::string("a longer string that does not fit the small buffer")})
    {
      sts const d = fcppt::type_iso::decorate<sts>(s);
      if (d.get() != s)
        vf::violation("type_iso/decorate<strong_typedef<string>>/wrong-wrapped-value", "mismatch", "value='" + s + "' got='" + d.get() + "'");
      if (fcppt::type_iso::undecorate(sts(s)) != s)
        vf::violation("type_iso/undecorate<strong_typedef<string>>/wrong-value", "mismatch", "value='" + s + "'");
      VF_COUNT("type_iso/values");
      vf::add_evals(2);
    }
  }
  if (vf::begin_case("observed: type_iso of an enum and of strong_typedef<enum>"))
  {
    std::uint64_t bad = 0;
    using ste = strong<iso_enum>;
    static_assert(std::is_same_v<fcppt::type_iso::undecorated_type<ste>, short>);
    for (short v = 0; v < 3; ++v)
    {
      if (fcppt::type_iso::decorate<iso_enum>(v) != static_cast<iso_enum>(v))
        ++bad;
      if (fcppt::type_iso::undecorate(static_cast<iso_enum>(v)) != v)
        ++bad;
      if (fcppt::type_iso::decorate<ste>(v).get() != static_cast<iso_enum>(v))
        ++bad;
      if (fcppt::type_iso::undecorate(ste(static_cast<iso_enum>(v))) != v)
        ++bad;
      vf::add_evals(4);
    }
    vf::count("observed/type_iso-enum/calls", 12);
    vf::count("observed/type_iso-enum/unexpected", bad);
    if (bad)
      vf::violation("type_iso<enum>/conversions", "mismatch", "type_iso for enums: " + std::to_string(bad) + " of 12 conversions differ from static_cast (a type_iso wrapper exposes exactly the wrapped value)");
  }
}

// ---- wrappers expose exactly the wrapped object
struct base_t
{
  int b = 0;
  virtual ~base_t() = default;
};
struct derived_t : base_t
{
  int d = 0;
  int twice() const { return 2 * d; }
};
std::vector<std::string> const wrapped_strings{"", "a", "a longer string that does not fit the small buffer"};

void slice0_reference_wrapper()
{
  if (!entry_selected("reference-wrapper"))
    return;
  auto viol = [](char const *what, std::string const &detail) {
    vf::violation(std::string("reference/") + what, "mismatch", detail);
  };
  int cells[4] = {5, 5, 6, 7};
  for (int k = 0; k < 4; ++k)
    for (int other = 0; other < 4; ++other)
    {
      if (!vf::begin_case("reference<int> bound to cell %d (value %d); rebinding partner cell %d", k, cells[k], other))
        continue;
      vf::sample_case(1);
      vf::note_distinct(vf::hash_mix(vf::hash_str("reference-wrapper"), static_cast<std::uint64_t>(k * 4 + other)));
      int const before[4] = {cells[0], cells[1], cells[2], cells[3]};
      fcppt::reference<int> r(cells[k]);
      if (&r.get() != &cells[k])
        viol("get/other-object", "get() does not return the bound object");
      if (r.operator->() != &cells[k])
        viol("operator->/other-object", "operator-> does not point at the bound object");
      fcppt::reference<int> c(r);
      if (&c.get() != &cells[k])
        viol("copy/other-object", "copy refers to another object");
      // assignment rebinds; it does not write through
      fcppt::reference<int> a(cells[other]);
      a = r;
      if (&a.get() != &cells[k])
        viol("assignment/does-not-rebind", "after a = r, a does not refer to r's object");
      for (int i = 0; i < 4; ++i)
        if (cells[i] != before[i])
          viol("assignment/wrote-through", "cell " + std::to_string(i) + " changed by rebinding");
      if (&fcppt::make_ref(cells[k]).get() != &cells[k])
        viol("make_ref/other-object", "");
      if (&fcppt::make_cref(cells[k]).get() != &cells[k])
        viol("make_cref/other-object", "");
      fcppt::reference<int const> cr(cells[k]);
      if (&cr.get() != &cells[k])
        viol("get<const>/other-object", "");
      // writing through get() changes exactly the bound object
      r.get() = 40 + k;
      for (int i = 0; i < 4; ++i)
        if (cells[i] != (i == k ? 40 + k : before[i]))
          viol("get/write-through", "cell " + std::to_string(i) + " has " + std::to_string(cells[i]));
      cells[k] = before[k];
      VF_COUNT("wrappers/reference-cases");
      vf::add_evals(9);
      // observed neighbours
      if (&fcppt::reference_to_const(r).get() != &cells[k])
      {
        vf::count("observed/reference_to_const/other-object");
        vf::violation("reference-wrapper/reference_to_const/another-object", "mismatch", "reference_to_const yields a reference to another object");
      }
    }
  if (vf::begin_case("reference<derived>: operator->, reference_to_base (observed)"))
  {
    derived_t obj;
    obj.d = 21;
    fcppt::reference<derived_t> r(obj);
    if (r->twice() != 42 || &r->d != &obj.d)
      viol("operator->/other-object", "member access through operator-> reaches another object");
    fcppt::reference<derived_t const> cr(obj);
    if (cr->twice() != 42 || &cr.get() != &obj)
      viol("get<const>/other-object", "");
    if (&fcppt::reference_to_base<base_t>(r).get() != static_cast<base_t *>(&obj))
    {
      vf::count("observed/reference_to_base/other-object");
      vf::violation("reference-wrapper/reference_to_base/another-object", "mismatch", "reference_to_base yields a reference to another object");
    }
    vf::count("observed/reference_to_base/calls");
    vf::add_evals(3);
  }
}

template <class T>
void recursive_cases(char const *tname, std::vector<T> const &values)
{
  auto viol = [&](char const *what, std::string const &detail) {
    vf::violation(std::string("recursive<") + tname + ">/" + what, "mismatch", detail);
  };
  for (std::size_t i = 0; i < values.size(); ++i)
    for (std::size_t j = 0; j < values.size(); ++j)
    {
      if (!vf::begin_case("recursive<%s> holding value #%zu, partner value #%zu", tname, i, j))
        continue;
      vf::sample_case(1);
      vf::note_distinct(vf::hash_mix(vf::hash_str(tname), i * 16 + j));
      T const v = values[i], w = values[j];
      T src = v;
      fcppt::recursive<T> r(src);
      if (!(r.get() == v))
        viol("get/wrong-value", "constructed from a const reference");
      if (&r.get() == &src)
        viol("get/aliases-the-source", "recursive must hold its own object");
      src = w; // the source is independent
      if (!(r.get() == v))
        viol("get/aliases-the-source", "changing the source changed the wrapped value");
      fcppt::recursive<T> const &cr = r;
      if (&cr.get() != &r.get())
        viol("get/const-and-non-const-differ", "");
      {
        T tmp = v;
        fcppt::recursive<T> m(std::move(tmp));
        if (!(m.get() == v))
          viol("get/wrong-value", "constructed from an rvalue");
      }
      // copy: equal value, independent object
      fcppt::recursive<T> c(r);
      if (!(c.get() == v))
        viol("copy/wrong-value", "");
      if (&c.get() == &r.get())
        viol("copy/shares-the-object", "");
      c.get() = w;
      if (!(r.get() == v) || !(c.get() == w))
        viol("copy/shares-the-object", "writing to the copy changed the original");
      // copy assignment, self assignment, move
      fcppt::recursive<T> a(w);
      a = r;
      if (!(a.get() == v) || &a.get() == &r.get())
        viol("copy-assignment/wrong-value-or-shared", "");
      fcppt::recursive<T> &self = a;
      a = self;
      if (!(a.get() == v))
        viol("self-assignment/wrong-value", "");
      T const *const addr = &a.get();
      fcppt::recursive<T> mv(std::move(a));
      if (!(mv.get() == v))
        viol("move/wrong-value", "");
      if (&mv.get() != addr)
        vf::count("observed/recursive/move-reallocates");
      fcppt::recursive<T> ma(w);
      ma = std::move(mv);
      if (!(ma.get() == v))
        viol("move-assignment/wrong-value", "");
      // a moved-from wrapper (a and mv by now) can be assigned to again and then exposes exactly the assigned object
      // (what std::vector does with its elements on insert / erase / assignment)
      a = r;
      if (!(a.get() == v) || &a.get() == &r.get())
        viol("copy-assignment-to-moved-from/wrong-value-or-shared", "");
      mv = fcppt::recursive<T>(w);
      if (!(mv.get() == w))
        viol("move-assignment-to-moved-from/wrong-value", "");
      {
        std::vector<fcppt::recursive<T>> vec;
        vec.reserve(8);
        vec.emplace_back(v);
        vec.emplace_back(w);
        vec.insert(vec.begin(), 3, fcppt::recursive<T>(w)); // shifts by move, then copy-assigns into moved-from slots
        bool good = vec.size() == 5 && vec[3].get() == v && vec[4].get() == w;
        for (std::size_t q = 0; q < 3 && good; ++q)
          good = vec[q].get() == w;
        std::vector<fcppt::recursive<T>> other;
        other.emplace_back(v);
        other.emplace_back(v);
        vec.erase(vec.begin()); // moves down, destroys the moved-from tail
        vec = other;            // copy-assigns over live elements, destroys the rest
        good = good && vec.size() == 2 && vec[0].get() == v && vec[1].get() == v && &vec[0].get() != &other[0].get();
        if (!good)
          viol("in-a-vector/insert-erase-assign", "elements of a std::vector<recursive> after insert(n copies) / erase / copy assignment");
      }
      VF_COUNT("wrappers/recursive-assigned-after-move");
      if (!(fcppt::make_recursive(v).get() == v))
        viol("make_recursive/wrong-value", "");
      // comparison forwards to the wrapped values
      if ((r == c) != (v == w) || (r != c) != (v != w))
        viol("comparison/differs-from-wrapped", "");
      VF_COUNT("wrappers/recursive-cases");
      vf::add_evals(12);
    }
}
// a JSON-like value: constructible from an int AND from a list of values of its own type - recursive<jv>(x) holds x, not {x}
struct jv
{
  int v = 0;
  std::vector<jv> items;
  jv(int x) : v(x) {} // NOLINT
  jv(std::initializer_list<jv> l) : v(-1), items(l) {}
  friend bool operator==(jv const &a, jv const &b) { return a.v == b.v && a.items == b.items; }
  friend bool operator!=(jv const &a, jv const &b) { return !(a == b); }
};
void slice0_recursive_wrapper()
{
  if (!entry_selected("recursive-wrapper"))
    return;
  if (vf::begin_case("recursive<jv> (a type with an initializer_list<jv> constructor): construction, copy, copy assignment, make_recursive, make_unique_ptr"))
  {
    for (jv const &x : {jv(7), jv{jv(1), jv(2)}, jv{}})
    {
      fcppt::recursive<jv> const r(x);
      fcppt::recursive<jv> const c(r);
      fcppt::recursive<jv> a(jv(99));
      a = r;
      VF_COUNT("wrappers/recursive-list-constructible-type");
      if (r.get() != x || c.get() != x || a.get() != x || fcppt::make_recursive(x).get() != x || *fcppt::make_unique_ptr<jv>(x) != x || !(r == c))
        vf::violation("recursive<list-constructible>/does-not-expose-the-wrapped-object", "mismatch",
                      "value with v=" + std::to_string(x.v) + " and " + std::to_string(x.items.size()) + " items: the wrapper holds v=" + std::to_string(r.get().v) + " with " +
                          std::to_string(r.get().items.size()) + " items");
    }
  }
  // a wrapped value whose own == is not reflexive (NaN): the wrapper "exposes exactly the wrapped object" - its == is the
  // == of the wrapped values, whether the two operands are one object or two
  if (vf::begin_case("recursive<double> holding NaN / 1.5: self comparison, aliases, copies"))
  {
    double const nan = std::numeric_limits<double>::quiet_NaN();
    for (double v : {nan, 1.5})
    {
      fcppt::recursive<double> const r(v), copy(r);
      fcppt::recursive<double> const &alias = r;
      bool const want = v == v;
      VF_COUNT("wrappers/recursive-non-reflexive-values");
      if ((r == alias) != want || (r != alias) == want || (r == copy) != want || (r == r) != (r.get() == r.get()))
        vf::violation("recursive<double>/comparison/differs-from-wrapped(non-reflexive value)", "mismatch",
                      std::string("value ") + (want ? "1.5" : "NaN") + ": r == r gives " + ((r == alias) ? "true" : "false") + ", the wrapped values compare " + (want ? "equal" : "unequal"));
      std::vector<fcppt::recursive<double>> const vec1{r}, &vec_alias = vec1;
      if ((vec1 == vec_alias) != want)
        vf::violation("recursive<double>/comparison/in-a-vector(non-reflexive value)", "mismatch", "");
    }
  }
  recursive_cases<int>("int", {0, 1, 2});
  recursive_cases<std::string>("string", wrapped_strings);
  recursive_cases<std::vector<int>>("std::vector<int>", {{}, {1}, {1, 2, 3}});
}

void slice0_unique_ptr_wrapper()
{
  if (!entry_selected("unique_ptr-wrapper"))
    return;
  auto viol = [](char const *what, std::string const &detail) {
    vf::violation(std::string("unique_ptr/") + what, "mismatch", detail);
  };
  for (int k = 0; k < 3; ++k)
  {
    if (!vf::begin_case("unique_ptr<derived> owning an object with d=%d", k))
      continue;
    vf::sample_case(1);
    vf::note_distinct(vf::hash_mix(vf::hash_str("unique_ptr-wrapper"), static_cast<std::uint64_t>(k)));
    auto *raw = new derived_t;
    raw->d = k;
    fcppt::unique_ptr<derived_t> p(raw);
    if (p.get_pointer() != raw)
      viol("get_pointer/other-object", "");
    if (&*p != raw)
      viol("operator*/other-object", "");
    if (p.operator->() != raw || p->twice() != 2 * k)
      viol("operator->/other-object", "");
    fcppt::unique_ptr<derived_t> q(std::move(p));
    if (q.get_pointer() != raw)
      viol("move/other-object", "");
    fcppt::unique_ptr<derived_t> other(fcppt::make_unique_ptr<derived_t>());
    derived_t *const other_raw = other.get_pointer();
    other = std::move(q);
    if (other.get_pointer() != raw || other_raw == raw)
      viol("move-assignment/other-object", "");
    derived_t *const rel = other.release_ownership();
    if (rel != raw)
      viol("release_ownership/other-object", "");
    // from std::unique_ptr
    std::unique_ptr<derived_t> sp(rel);
    fcppt::unique_ptr<derived_t> fromstd(std::move(sp));
    if (fromstd.get_pointer() != raw)
      viol("from-std/other-object", "");
    auto made = fcppt::make_unique_ptr<derived_t>();
    made->d = k;
    if (made->twice() != 2 * k || &*made != made.get_pointer())
      viol("make_unique_ptr/other-object", "");
    auto mi = fcppt::make_unique_ptr<int>(k);
    if (*mi != k)
      viol("make_unique_ptr/wrong-value", "");
    VF_COUNT("wrappers/unique_ptr-cases");
    vf::add_evals(9);
    // observed neighbours
    {
      fcppt::unique_ptr<base_t> asbase(fcppt::unique_ptr_to_base<base_t>(std::move(fromstd)));
      vf::count("observed/unique_ptr_to_base/calls");
      if (asbase.get_pointer() != static_cast<base_t *>(raw))
      {
        vf::count("observed/unique_ptr_to_base/other-object");
        vf::violation("unique_ptr-wrapper/unique_ptr_to_base/another-object", "mismatch", "unique_ptr_to_base does not keep the pointer");
      }
      auto opt = fcppt::unique_ptr_from_std(std::make_unique<int>(k));
      if (!opt.has_value() || *opt.get_unsafe() != k)
        vf::violation("unique_ptr-wrapper/unique_ptr_from_std/another-object", "mismatch", "unique_ptr_from_std does not keep the object");
      auto cp = fcppt::unique_ptr_to_const(fcppt::make_unique_ptr<int>(k));
      if (*cp != k)
        vf::violation("unique_ptr-wrapper/unique_ptr_to_const/another-object", "mismatch", "unique_ptr_to_const does not keep the object");
    }
  }
}

void slice0_shared_ptr_wrapper()
{
  if (!entry_selected("shared_ptr-wrapper"))
    return;
  auto viol = [](char const *what, std::string const &detail) {
    vf::violation(std::string("shared_ptr/") + what, "mismatch", detail);
  };
  for (int k = 0; k < 3; ++k)
  {
    if (!vf::begin_case("shared_ptr<derived> owning an object with d=%d", k))
      continue;
    vf::sample_case(1);
    vf::note_distinct(vf::hash_mix(vf::hash_str("shared_ptr-wrapper"), static_cast<std::uint64_t>(k)));
    auto *raw = new derived_t;
    raw->d = k;
    fcppt::shared_ptr<derived_t> p(raw);
    if (p.get_pointer() != raw)
      viol("get_pointer/other-object", "");
    if (&*p != raw)
      viol("operator*/other-object", "");
    if (p.operator->() != raw || p->twice() != 2 * k)
      viol("operator->/other-object", "");
    if (p.std_ptr().get() != raw)
      viol("std_ptr/other-object", "");
    if (p.use_count() != 1 || !p.unique())
      viol("use_count/wrong", "fresh pointer, use_count=" + std::to_string(p.use_count()));
    {
      fcppt::shared_ptr<derived_t> q(p);
      if (q.get_pointer() != raw)
        viol("copy/other-object", "");
      if (p.use_count() != 2 || q.use_count() != 2)
        viol("use_count/wrong", "after copy, use_count=" + std::to_string(p.use_count()));
      fcppt::shared_ptr<base_t> b(q);
      if (b.get_pointer() != static_cast<base_t *>(raw))
        viol("converting-copy/other-object", "");
      // aliasing constructor: shares ownership, exposes the given pointer
      fcppt::shared_ptr<int> al(q, &raw->d);
      if (al.get_pointer() != &raw->d || *al != k)
        viol("aliasing-constructor/other-object", "");
      if (p.use_count() != 4)
        viol("use_count/wrong", "three more owners, use_count=" + std::to_string(p.use_count()));
    }
    if (p.use_count() != 1)
      viol("use_count/wrong", "owners gone, use_count=" + std::to_string(p.use_count()));
    fcppt::shared_ptr<derived_t> a(fcppt::make_shared_ptr<derived_t>());
    a = p;
    if (a.get_pointer() != raw)
      viol("assignment/other-object", "");
    fcppt::shared_ptr<derived_t> m(std::move(a));
    if (m.get_pointer() != raw)
      viol("move/other-object", "");
    fcppt::shared_ptr<derived_t> s1(fcppt::make_shared_ptr<derived_t>());
    derived_t *const s1raw = s1.get_pointer();
    s1.swap(m);
    if (s1.get_pointer() != raw || m.get_pointer() != s1raw)
      viol("swap/other-object", "");
    // from unique_ptr
    auto *raw2 = new derived_t;
    fcppt::unique_ptr<derived_t> up(raw2);
    fcppt::shared_ptr<derived_t> fromu(std::move(up));
    if (fromu.get_pointer() != raw2)
      viol("from-unique_ptr/other-object", "");
    auto made = fcppt::make_shared_ptr<int>(k);
    if (*made != k || &*made != made.get_pointer())
      viol("make_shared_ptr/wrong-value", "");
    VF_COUNT("wrappers/shared_ptr-cases");
    vf::add_evals(14);
    // observed: weak_ptr round trip
    {
      fcppt::weak_ptr<derived_t> w(p);
      auto l = w.lock();
      vf::count("observed/weak_ptr-lock/calls");
      if (!l.has_value() || l.get_unsafe().get_pointer() != raw)
        vf::violation("shared_ptr-wrapper/weak_ptr::lock/another-object", "mismatch", "weak_ptr::lock does not give back the shared object");
    }
  }
}

// ---- reference / shared_ptr / recursive as value types
void slice0_identity_families()
{
  if (entry_selected("reference<int>"))
  {
    using ref = fcppt::reference<int>;
    static int cells[6] = {0, 1, 2, 0, 1, 2}; // equal contents in different objects
    family<ref> f;
    for (int k = 0; k < 6; ++k)
    {
      std::string const s = "cell " + std::to_string(k);
      f.add("bind " + s, cells[k]);
      f.add("make_ref " + s, fcppt::make_ref(cells[k]));
      ref &a = f.add("bind cell " + std::to_string((k + 3) % 6) + " then assign a reference to " + s, cells[(k + 3) % 6]);
      a = ref(cells[k]);
      ref const src(cells[k]);
      f.add("copy of a reference to " + s, src);
    }
    // identity through the accessor: which of the harness's cells does get() denote
    auto observe = [](ref const &r) { return comps{static_cast<int>(&r.get() - cells)}; };
    for (std::size_t i = 0; i < f.v.size(); ++i)
      if (&f.v[i].get() != &cells[i / 4])
        vf::violation("reference<int>/get/other-object", "mismatch", f.how[i]);
    // documented: "comparing the stored pointers via std::less"; cells of one array are ordered by index
    run_family<o_eq | o_ne | o_lt>("reference<int>", f, observe, observe, true,
                                   hasher<ref>("reference_hash", [](ref const &r) { return fcppt::reference_hash<ref>()(r); }),
                                   hasher<ref>("std::hash", [](ref const &r) { return std::hash<ref>()(r); }));
  }
  if (entry_selected("shared_ptr<int>"))
  {
    using sp = fcppt::shared_ptr<int>;
    using block = std::array<int, 4>;
    fcppt::shared_ptr<block> owner(fcppt::make_shared_ptr<block>(block{0, 1, 0, 1}));
    family<sp> f;
    for (std::size_t k = 0; k < 4; ++k)
    {
      std::string const s = "element " + std::to_string(k) + " of the shared block";
      f.add("aliasing pointer to " + s, owner, &(*owner)[k]);
      sp const src(owner, &(*owner)[k]);
      f.add("copy of a pointer to " + s, src);
      sp &a = f.add("pointer to element " + std::to_string((k + 1) % 4) + " then assign pointer to " + s, owner,
                    &(*owner)[(k + 1) % 4]);
      a = src;
      sp tmp(src);
      f.add("move of a pointer to " + s, std::move(tmp));
    }
    // separately allocated objects with equal contents
    for (int k = 0; k < 3; ++k)
    {
      sp &m = f.add("make_shared_ptr<int>(1) #" + std::to_string(k), fcppt::make_shared_ptr<int>(1));
      sp const cpy(m);
      f.add("copy of make_shared_ptr<int>(1) #" + std::to_string(k), cpy);
    }
    // empty pointers: what is left behind by a move
    for (int k = 0; k < 2; ++k)
    {
      sp &e = f.add("moved-from (empty) #" + std::to_string(k), fcppt::make_shared_ptr<int>(5));
      sp const sink(std::move(e));
    }
    // identity: rank of get_pointer() among all pointers (std::less is the documented order)
    std::vector<int *> all;
    for (sp const &p : f.v)
      all.push_back(p.get_pointer());
    std::sort(all.begin(), all.end(), std::less<int *>());
    all.erase(std::unique(all.begin(), all.end()), all.end());
    auto observe = [&all](sp const &p) {
      return comps{static_cast<int>(std::lower_bound(all.begin(), all.end(), p.get_pointer(), std::less<int *>()) - all.begin())};
    };
    for (std::size_t k = 0; k < 4; ++k)
      for (std::size_t h = 0; h < 4; ++h)
        if (f.v[k * 4 + h].get_pointer() != &(*owner)[k])
          vf::violation("shared_ptr<int>/get_pointer/other-object", "mismatch", f.how[k * 4 + h]);
    run_family<o_eq | o_ne | o_lt>("shared_ptr<int>", f, observe, observe, true,
                                   hasher<sp>("shared_ptr_hash", [](sp const &p) { return fcppt::shared_ptr_hash<sp>()(p); }),
                                   hasher<sp>("std::hash", [](sp const &p) { return std::hash<sp>()(p); }));
  }
  if (entry_selected("recursive<int>"))
  {
    using rec = fcppt::recursive<int>;
    family<rec> f;
    for (int v : {0, 1, 2})
    {
      std::string const s = std::to_string(v);
      f.add("construct " + s, v);
      f.add("make_recursive " + s, fcppt::make_recursive(v));
      rec &a = f.add("construct 7 then assign " + s, 7);
      a = rec(v);
      rec const src(v);
      f.add("copy of " + s, src);
      rec &w = f.add("construct 9 then write through get() " + s, 9);
      w.get() = v;
    }
    run_family<o_eq | o_ne>("recursive<int>", f, [](rec const &r) { return comps{r.get()}; }, no_order{}, false);
  }
  if (entry_selected("recursive<optional<int>>"))
  {
    using opt = fcppt::optional::object<int>;
    using rec = fcppt::recursive<opt>;
    family<rec> f;
    for (int v : {-1, 0, 1, 2})
    {
      opt const o = v < 0 ? opt() : opt(v);
      std::string const s = v < 0 ? "nothing" : "some " + std::to_string(v);
      f.add("construct " + s, o);
      rec &a = f.add("construct some 7 then assign " + s, opt(7));
      a = rec(o);
      rec &b = f.add("construct nothing then write through get() " + s, opt());
      b.get() = o;
    }
    run_family<o_eq | o_ne>(
        "recursive<optional<int>>", f,
        [](rec const &r) { return r.get().has_value() ? comps{1, r.get().get_unsafe()} : comps{0}; }, no_order{}, false);
  }
}
} // namespace
void vf_slice_0()
{
  slice0_ops();
  slice0_strong_family();
  slice0_type_iso();
  slice0_reference_wrapper();
  slice0_recursive_wrapper();
  slice0_unique_ptr_wrapper();
  slice0_shared_ptr_wrapper();
  slice0_identity_families();
}
#endif

// ================================================================================================ slice 2
#if VF_IN_SLICE(2)
#include <fcppt/no_init.hpp>
#include <fcppt/container/bitfield/comparison.hpp>
#include <fcppt/container/bitfield/hash.hpp>
#include <fcppt/container/bitfield/init.hpp>
#include <fcppt/container/bitfield/object.hpp>
#include <fcppt/container/bitfield/operators.hpp>
#include <fcppt/container/bitfield/std_hash.hpp>
#include <fcppt/enum/array.hpp>
#include <fcppt/enum/array_comparison.hpp>
#include <fcppt/enum/array_init.hpp>
#include <fcppt/record/comparison.hpp>
#include <fcppt/record/element.hpp>
#include <fcppt/record/get.hpp>
#include <fcppt/record/init.hpp>
#include <fcppt/record/make_label.hpp>
#include <fcppt/record/object_impl.hpp>
#include <fcppt/record/permute.hpp>
#include <fcppt/record/set.hpp>
#include <variant>

namespace
{
#define VF17_ENUM(name, under, n)                                                                           \
  enum class name : under                                                                                   \
  {                                                                                                         \
    first = 0,                                                                                              \
    fcppt_maximum = (n)-1                                                                                   \
  };
VF17_ENUM(e1, int, 1)
VF17_ENUM(e3, int, 3)
VF17_ENUM(e5, unsigned, 5)
VF17_ENUM(e8, std::uint8_t, 8)
VF17_ENUM(e9, std::uint8_t, 9)
VF17_ENUM(e17, short, 17)
// enumerator type and storage word of different widths (the padding of the last word is a property of the WORD)
VF17_ENUM(e11i, int, 11)
VF17_ENUM(e19i, int, 19)
VF17_ENUM(e9q, unsigned long long, 9)
VF17_ENUM(e5c, signed char, 5)

// ---- record
FCPPT_RECORD_MAKE_LABEL(la);
FCPPT_RECORD_MAKE_LABEL(lb);
FCPPT_RECORD_MAKE_LABEL(lc);
using el_a = fcppt::record::element<la, int>;
using el_b = fcppt::record::element<lb, int>;
using el_c = fcppt::record::element<lc, int>;

void slice2_record()
{
  if (entry_selected("record<a,b,c>"))
  {
    using rec = fcppt::record::object<el_a, el_b, el_c>;
    using rec_cab = fcppt::record::object<el_c, el_a, el_b>;
    family<rec> f;
    for (comps const &c : sequences(3, dom()))
    {
      std::string const s = show(c);
      f.add("construct a,b,c = " + s, la{} = c[0], lb{} = c[1], lc{} = c[2]);
      f.add("construct with initializers in the order c,a,b = " + s, lc{} = c[2], la{} = c[0], lb{} = c[1]);
      rec &r = f.add("construct [2,2,2] then set<label> " + s, la{} = 2, lb{} = 2, lc{} = 2);
      r.set<lc>(c[2]);
      fcppt::record::set<la>(r, c[0]);
      r.set<lb>(c[1]);
      f.add("permute from record<c,a,b> " + s, fcppt::record::permute<rec>(rec_cab(la{} = c[0], lb{} = c[1], lc{} = c[2])));
      rec &a = f.add("construct [0,1,2] then assign " + s, la{} = 0, lb{} = 1, lc{} = 2);
      a = rec(la{} = c[0], lb{} = c[1], lc{} = c[2]);
      // (record(no_init) and bitfield(no_init) do not compile in this tree: their tuple/array member has no
      // default constructor -- a compile-time defect outside this property, noted in the report)
      rec &w = f.add("construct [9,9,9] then write through get<label> " + s, la{} = 9, lb{} = 9, lc{} = 9);
      fcppt::record::get<la>(w) = c[0];
      w.get<lb>() = c[1];
      w.get<lc>() = c[2];
    }
    auto observe = [](rec const &r) {
      return comps{fcppt::record::get<la>(r), fcppt::record::get<lb>(r), r.get<lc>()};
    };
    run_family<o_eq | o_ne>("record<a,b,c>", f, observe, no_order{}, false);
  }
  if (entry_selected("record<a,b>x<b,a>"))
  {
    // the comparison operators also accept two records whose elements are listed in different orders
    using r_ab = fcppt::record::object<el_a, el_b>;
    using r_ba = fcppt::record::object<el_b, el_a>;
    struct either_order
    {
      std::variant<r_ab, r_ba> v;
      bool operator==(either_order const &o) const
      {
        return std::visit([](auto const &x, auto const &y) { return x == y; }, v, o.v);
      }
      bool operator!=(either_order const &o) const
      {
        return std::visit([](auto const &x, auto const &y) { return x != y; }, v, o.v);
      }
    };
    family<either_order> f;
    for (comps const &c : sequences(2, dom()))
    {
      std::string const s = show(c);
      f.add("record<a,b> a,b = " + s, either_order{r_ab(la{} = c[0], lb{} = c[1])});
      f.add("record<b,a> a,b = " + s, either_order{r_ba(la{} = c[0], lb{} = c[1])});
      f.add("record<b,a> permuted from record<a,b> a,b = " + s,
            either_order{fcppt::record::permute<r_ba>(r_ab(lb{} = c[1], la{} = c[0]))});
      r_ab x(la{} = 2 - c[0], lb{} = 2 - c[1]);
      x.set<la>(c[0]);
      x.set<lb>(c[1]);
      f.add("record<a,b> set<label> a,b = " + s, either_order{x});
    }
    auto observe = [](either_order const &e) {
      return std::visit([](auto const &r) { return comps{fcppt::record::get<la>(r), fcppt::record::get<lb>(r)}; }, e.v);
    };
    run_family<o_eq | o_ne>("record<a,b>x<b,a>", f, observe, no_order{}, false);
  }
}

// ---- enum array
void slice2_enum_array()
{
  if (entry_selected("enum_array<e3,int>"))
  {
    using arr = fcppt::enum_::array<e3, int>;
    family<arr> f;
    for (comps const &c : sequences(3, dom()))
    {
      std::string const s = show(c);
      f.add("construct " + s, c[0], c[1], c[2]);
      f.add("array_init " + s, fcppt::enum_::array_init<arr>([&c](auto const e) { return c[static_cast<std::size_t>(e())]; }));
      arr &w = f.add("construct [9,9,9] then write through operator[] " + s, 9, 9, 9);
      for (int k = 2; k >= 0; --k)
        w[static_cast<e3>(k)] = c[static_cast<std::size_t>(k)];
      arr &a = f.add("construct [1,0,2] then assign " + s, 1, 0, 2);
      a = arr(c[0], c[1], c[2]);
    }
    auto observe = [](arr const &a) { return comps{a[static_cast<e3>(0)], a[static_cast<e3>(1)], a[static_cast<e3>(2)]}; };
    run_family<o_eq | o_ne>("enum_array<e3,int>", f, observe, no_order{}, false);
  }
  if (entry_selected("enum_array<e1,int>"))
  {
    using arr = fcppt::enum_::array<e1, int>;
    family<arr> f;
    for (int v : {0, 1, 2})
    {
      f.add("construct [" + std::to_string(v) + "]", v);
      arr &w = f.add("construct [9] then write " + std::to_string(v), 9);
      w[e1::first] = v;
    }
    run_family<o_eq | o_ne>("enum_array<e1,int>", f, [](arr const &a) { return comps{a[e1::first]}; }, no_order{}, false);
  }
}

// ---- bitfield: every set of enumerators, reached through every operator
template <class E, unsigned N, class W>
void bitfield_family(std::string const &entry, std::size_t max_sets)
{
  if (!entry_selected(entry))
    return;
  using bf = fcppt::container::bitfield::object<E, W>;
  static_assert(bf::static_size::value == N);
  using mask = std::uint32_t;
  mask const full = (mask{1} << N) - 1U;
  auto en = [](unsigned k) { return static_cast<E>(k); };
  auto canon = [&](mask m) {
    bf r(bf::null());
    for (unsigned k = 0; k < N; ++k)
      if ((m >> k) & 1U)
        r.set(en(k), true);
    return r;
  };
  auto name = [&](mask m) {
    std::string s = "{";
    for (unsigned k = 0; k < N; ++k)
      if ((m >> k) & 1U)
        s += (s.size() > 1 ? "," : "") + std::to_string(k);
    return s + "}";
  };
  // the sets: all of them when there are few, otherwise empty, full, singletons, co-singletons and seeded random ones
  std::vector<mask> sets;
  if ((std::size_t{1} << N) <= max_sets)
    for (mask m = 0; m <= full; ++m)
      sets.push_back(m);
  else
  {
    sets = {0, full, 1, full & ~mask{1}, mask{1} << (N - 1), full & ~(mask{1} << (N - 1))};
    vf::rng g(vf::seed_for(entry));
    while (sets.size() < max_sets)
    {
      mask m = static_cast<mask>(g.next()) & full;
      if (std::find(sets.begin(), sets.end(), m) == sets.end())
        sets.push_back(m);
    }
  }
  vf::rng g(vf::seed_for(entry, 1));
  family<bf> f;
  for (mask m : sets)
  {
    mask const c = full & ~m;
    std::string const s = name(m);
    f.add("set(e,true) on null() " + s, canon(m));
    f.add("~ of " + name(c), ~canon(c));
    f.add("~~ of " + s, ~~canon(m));
    f.add("(~null()) ^ " + name(c), (~bf::null()) ^ canon(c));
    f.add("(~null()) & " + s, (~bf::null()) & canon(m));
    {
      bf &x = f.add("~null() then &= ~" + name(c), ~bf::null());
      x &= ~canon(c);
    }
    {
      mask const a = m & static_cast<mask>(g.next()), b = m & ~a;
      f.add(name(a) + " | " + name(b), canon(a) | canon(b));
    }
    {
      bf &x = f.add("null() then |= element, descending " + s, bf::null());
      for (unsigned k = N; k-- > 0;)
        if ((m >> k) & 1U)
          x |= en(k);
    }
    {
      bf &x = f.add("~null() then operator[] = false for " + name(c), ~bf::null());
      for (unsigned k = 0; k < N; ++k)
        if ((c >> k) & 1U)
          x[en(k)] = false;
    }
    {
      bf &x = f.add("~null() then set(e,false) for " + name(c), ~bf::null());
      for (unsigned k = 0; k < N; ++k)
        if ((c >> k) & 1U)
          x.set(en(k), false);
    }
    f.add("bitfield::init " + s, fcppt::container::bitfield::init<bf>([m](E e) { return ((m >> static_cast<unsigned>(e)) & 1U) != 0; }));
    {
      mask const other = static_cast<mask>(g.next()) & full;
      bf &x = f.add("~" + name(full & ~other) + " then assign " + s, ~canon(full & ~other));
      x = canon(m);
    }
    {
      bf &x = f.add("~" + name(c) + " ^= null()", ~canon(c));
      x ^= bf::null();
    }
    if (m == 0)
      f.add("initializer list {}", typename bf::initializer_list_type{});
  }
  auto observe = [&](bf const &b) {
    comps c;
    for (unsigned k = 0; k < N; ++k)
      c.push_back(b.get(en(k)) ? 1 : 0);
    return c;
  };
  run_family<o_eq | o_ne>(entry, f, observe, no_order{}, false,
                          hasher<bf>("bitfield::hash", [](bf const &b) { return fcppt::container::bitfield::hash<bf>()(b); }),
                          hasher<bf>("std::hash", [](bf const &b) { return std::hash<bf>()(b); }));
}
void slice2_bitfield()
{
  bitfield_family<e3, 3, std::uint8_t>("bitfield<e3,u8>", 8);
  bitfield_family<e5, 5, std::uint32_t>("bitfield<e5,u32>", 32);
  bitfield_family<e9, 9, std::uint8_t>("bitfield<e9,u8>", vf::tier<std::size_t>(64, 512));
  bitfield_family<e8, 8, std::uint8_t>("bitfield<e8,u8>", vf::tier<std::size_t>(64, 256));
  bitfield_family<e17, 17, std::uint16_t>("bitfield<e17,u16>", vf::tier<std::size_t>(48, 200));
  bitfield_family<e11i, 11, std::uint8_t>("bitfield<e11:int,u8>", vf::tier<std::size_t>(48, 300));
  bitfield_family<e19i, 19, std::uint16_t>("bitfield<e19:int,u16>", vf::tier<std::size_t>(40, 200));
  bitfield_family<e9q, 9, std::uint8_t>("bitfield<e9:u64,u8>", vf::tier<std::size_t>(48, 512));
  bitfield_family<e5c, 5, std::uint64_t>("bitfield<e5:i8,u64>", 32);
}
} // namespace
void vf_slice_2()
{
  slice2_record();
  slice2_enum_array();
  slice2_bitfield();
}
#endif

// ================================================================================================ slice 3
#if VF_IN_SLICE(3)
#include <fcppt/no_init.hpp>
#include <fcppt/math/size_type.hpp>
#include <fcppt/math/static_size.hpp>
#include <fcppt/math/dim/arithmetic.hpp>
#include <fcppt/math/dim/at.hpp>
#include <fcppt/math/dim/comparison.hpp>
#include <fcppt/math/dim/init.hpp>
#include <fcppt/math/dim/object_impl.hpp>
#include <fcppt/math/dim/static.hpp>
#include <fcppt/math/dim/std_hash.hpp>
#include <fcppt/math/matrix/arithmetic.hpp>
#include <fcppt/math/matrix/at_r_c.hpp>
#include <fcppt/math/matrix/comparison.hpp>
#include <fcppt/math/matrix/init.hpp>
#include <fcppt/math/matrix/object_impl.hpp>
#include <fcppt/math/matrix/static.hpp>
#include <fcppt/math/matrix/std_hash.hpp>
#include <fcppt/math/matrix/transpose.hpp>
#include <fcppt/math/vector/arithmetic.hpp>
#include <fcppt/math/vector/at.hpp>
#include <fcppt/math/vector/comparison.hpp>
#include <fcppt/math/vector/init.hpp>
#include <fcppt/math/vector/is_vector.hpp>
#include <fcppt/math/vector/object_impl.hpp>
#include <fcppt/math/vector/static.hpp>
#include <fcppt/math/vector/std_hash.hpp>
#include <variant>

namespace
{
namespace fm = fcppt::math;
// a storage type supplied by the user: a view over memory owned by somebody else (test/math/vector/view_storage.cpp)
template <typename T, fm::size_type N>
class view_storage
{
public:
  using value_type = T;
  using size_type = fm::size_type;
  using storage_size = fm::static_size<N>;
  using pointer = value_type *;
  using reference = value_type &;
  using const_reference = value_type const &;
  explicit view_storage(pointer const _data) : data_(_data) {}
  reference operator[](size_type const _index) { return data_[_index]; }
  const_reference operator[](size_type const _index) const { return data_[_index]; }

private:
  pointer data_;
};

// One value of "vector<int,N> in some storage": the comparison operators accept every pair of storages.
template <class... V>
struct any_storage
{
  std::variant<V...> v;
#define VF17_FWD(op)                                                                                        \
  bool operator op(any_storage const &o) const                                                              \
  {                                                                                                         \
    return std::visit([](auto const &x, auto const &y) -> bool { return x op y; }, v, o.v);                 \
  }
  VF17_FWD(==)
  VF17_FWD(!=)
  VF17_FWD(<)
  VF17_FWD(<=)
  VF17_FWD(>)
  VF17_FWD(>=)
#undef VF17_FWD
};
template <class... V>
struct any_storage_eq
{
  std::variant<V...> v;
  bool operator==(any_storage_eq const &o) const
  {
    return std::visit([](auto const &x, auto const &y) -> bool { return x == y; }, v, o.v);
  }
  bool operator!=(any_storage_eq const &o) const
  {
    return std::visit([](auto const &x, auto const &y) -> bool { return x != y; }, v, o.v);
  }
};

// which: 0 = static storage only (all six operators), 1 = views only (all six operators),
//        2 = static and view mixed (== and != only: operator< between two different storage types does not
//            compile in this tree -- array_less takes two arguments of one type -- so it is not "offered")
template <template <class, fm::size_type, class> class Obj, template <class, fm::size_type> class Static, fm::size_type N, int Which>
void linear_family(std::string const &entry)
{
  if (!entry_selected(entry))
    return;
  using st = Static<int, N>;
  using vs = view_storage<int, N>;
  using vw = Obj<int, N, vs>;
  using any = std::conditional_t<Which == 0, any_storage<st>,
                                 std::conditional_t<Which == 1, any_storage<vw>, any_storage_eq<st, vw>>>;
  constexpr bool with_static = Which != 1, with_views = Which != 0;
  static std::deque<std::array<int, N>> backing; // memory behind the views
  family<any> f;
  auto make = [](comps const &c) {
    st r{fcppt::no_init{}};
    for (fm::size_type i = 0; i < N; ++i)
      r.get_unsafe(i) = c[i];
    return r;
  };
  for (comps const &c : sequences(N, dom()))
  {
    std::string const s = show(c);
    if constexpr (with_static)
    {
      if constexpr (N == 1)
        f.add("construct " + s, any{st(c[0])});
      else if constexpr (N == 2)
        f.add("construct " + s, any{st(c[0], c[1])});
      else
        f.add("construct " + s, any{st(c[0], c[1], c[2])});
      f.add("no_init then write through get_unsafe " + s, any{make(c)});
      if constexpr (fm::vector::is_vector<st>::value)
        f.add("vector::init " + s, any{fm::vector::init<st>([&c](fm::size_type const i) { return c[i]; })});
      else
        f.add("dim::init " + s, any{fm::dim::init<st>([&c](fm::size_type const i) { return c[i]; })});
      {
        // reached by arithmetic: (c - d) + d
        comps d(N), e(N);
        for (fm::size_type i = 0; i < N; ++i)
        {
          d[i] = static_cast<int>(i) + 1;
          e[i] = c[i] - d[i];
        }
        f.add(show(e) + " + " + show(d), any{st(make(e) + make(d))});
      }
      {
        any &a = f.add("construct [2,..] then assign " + s, any{make(comps(N, 2))});
        std::get<st>(a.v) = make(c);
      }
    }
    if constexpr (with_views)
    {
      backing.emplace_back();
      for (fm::size_type i = 0; i < N; ++i)
        backing.back()[i] = c[i];
      f.add("view over foreign memory " + s, any{vw(vs(backing.back().data()))});
      backing.emplace_back();
      backing.back().fill(7);
      any &w = f.add("view over foreign memory [7,..] then assign " + s, any{vw(vs(backing.back().data()))});
      std::get<vw>(w.v) = make(c);
      if constexpr (with_static)
        f.add("static copy of a view " + s, any{st(std::get<vw>(w.v))});
    }
  }
  auto observe = [](any const &a) {
    return std::visit(
        [](auto const &x) {
          comps c;
          for (fm::size_type i = 0; i < N; ++i)
            c.push_back(x.get_unsafe(i));
          return c;
        },
        a.v);
  };
  auto hash = hasher<any>("std::hash", [](any const &a) {
    return std::visit([](auto const &x) { return std::hash<std::remove_cvref_t<decltype(x)>>()(x); }, a.v);
  });
  // documented: "Compares two vectors lexicographically"
  if constexpr (Which == 2)
    run_family<o_eq | o_ne>(entry, f, observe, no_order{}, false, hash);
  else
    run_family<o_eq | o_ne | o_lt | o_le | o_gt | o_ge>(entry, f, observe, observe, true, hash);
}

template <fm::size_type R, fm::size_type C>
void matrix_family(std::string const &entry, bool with_views)
{
  if (!entry_selected(entry))
    return;
  using st = fm::matrix::static_<int, R, C>;
  using vs = view_storage<int, R * C>;
  using vw = fm::matrix::object<int, R, C, vs>;
  using any = any_storage_eq<st, vw>;
  static std::deque<std::array<int, R * C>> backing;
  family<any> f;
  auto make = [](comps const &c) {
    return fm::matrix::init<st>([&c]<fm::size_type Rw, fm::size_type Cl>(fm::matrix::index<Rw, Cl>) { return c[Rw * C + Cl]; });
  };
  for (comps const &c : sequences(R * C, dom()))
  {
    std::string const s = show(c);
    f.add("matrix::init " + s, any{make(c)});
    {
      st m{fcppt::no_init{}};
      for (fm::size_type r = 0; r < R; ++r)
        for (fm::size_type k = 0; k < C; ++k)
          m.get_unsafe(r).get_unsafe(k) = c[r * C + k];
      f.add("no_init then write through get_unsafe(r).get_unsafe(c) " + s, any{m});
    }
    {
      comps d(R * C), e(R * C);
      for (std::size_t i = 0; i < R * C; ++i)
      {
        d[i] = static_cast<int>(i) - 1;
        e[i] = c[i] - d[i];
      }
      f.add(show(e) + " + " + show(d), any{st(make(e) + make(d))});
    }
    if constexpr (R == C)
    {
      comps t(R * C);
      for (std::size_t r = 0; r < R; ++r)
        for (std::size_t k = 0; k < C; ++k)
          t[k * R + r] = c[r * C + k];
      f.add("transpose of " + show(t), any{st(fm::matrix::transpose(make(t)))});
    }
    if (with_views)
    {
      backing.emplace_back();
      for (std::size_t i = 0; i < R * C; ++i)
        backing.back()[i] = c[i];
      f.add("view over foreign memory " + s, any{vw(vs(backing.back().data()))});
      backing.emplace_back();
      backing.back().fill(7);
      any &w = f.add("view over foreign memory [7,..] then assign " + s, any{vw(vs(backing.back().data()))});
      std::get<vw>(w.v) = make(c);
    }
  }
  auto observe = [](any const &a) {
    return std::visit(
        [](auto const &x) {
          comps c;
          for (fm::size_type r = 0; r < R; ++r)
            for (fm::size_type k = 0; k < C; ++k)
              c.push_back(x.get_unsafe(r).get_unsafe(k));
          return c;
        },
        a.v);
  };
  run_family<o_eq | o_ne>(entry, f, observe, no_order{}, false, hasher<any>("std::hash", [](any const &a) {
                            return std::visit([](auto const &x) { return std::hash<std::remove_cvref_t<decltype(x)>>()(x); }, a.v);
                          }));
}
// ---- an element type whose == is FINER than its < (ordered by key, equal on key and tag: legal, like a record ordered
// by one member).  vector / dim operator< are documented as the lexicographic comparison: by the elements' operator<
// alone.  Judged: agreement with that definition, and the strict-weak-order axioms over the whole family (irreflexive,
// asymmetric, transitive, incomparability transitive); == stays component-wise equality.
struct fine
{
  int key = 0, tag = 0;
  friend bool operator==(fine const &a, fine const &b) { return a.key == b.key && a.tag == b.tag; }
  friend bool operator!=(fine const &a, fine const &b) { return !(a == b); }
  friend bool operator<(fine const &a, fine const &b) { return a.key < b.key; }
};
template <template <class, fm::size_type, class> class Obj, template <class, fm::size_type> class Static>
void finer_equality_family(std::string const &entry)
{
  if (!entry_selected(entry))
    return;
  constexpr fm::size_type N = 3;
  using V = Static<fine, N>;
  std::vector<V> vals;
  std::vector<std::array<fine, N>> plain;
  for (unsigned code = 0; code < 64; ++code)
  {
    std::array<fine, N> a{};
    unsigned c = code;
    for (auto &e : a)
    {
      e.key = static_cast<int>(c & 1U);
      e.tag = static_cast<int>((c >> 1U) & 1U);
      c >>= 2U;
    }
    plain.push_back(a);
    vals.push_back(V(a[0], a[1], a[2]));
  }
  if (!vf::begin_case("all 64 values with (key,tag) components in {0,1}^2, all pairs and triples"))
    return;
  vf::sample_case(1);
  std::size_t const n = vals.size();
  std::vector<unsigned char> lt(n * n);
  for (std::size_t i = 0; i < n; ++i)
    for (std::size_t j = 0; j < n; ++j)
    {
      vf::note_distinct(vf::hash_mix(vf::hash_str(entry), i * 64 + j));
      bool const l = vals[i] < vals[j];
      lt[i * n + j] = l ? 1 : 0;
      bool const want = std::lexicographical_compare(plain[i].begin(), plain[i].end(), plain[j].begin(), plain[j].end());
      if (l != want)
        vf::violation(entry + "/</differs-from-the-documented-lexicographic-comparison", "mismatch", "values #" + std::to_string(i) + " and #" + std::to_string(j));
      if ((vals[i] > vals[j]) != std::lexicographical_compare(plain[j].begin(), plain[j].end(), plain[i].begin(), plain[i].end()))
        vf::violation(entry + "/>/differs-from-the-documented-lexicographic-comparison", "mismatch", "values #" + std::to_string(i) + " and #" + std::to_string(j));
      if ((vals[i] == vals[j]) != (plain[i] == plain[j]) || (vals[i] != vals[j]) == (plain[i] == plain[j]))
        vf::violation(entry + "/==/not-component-wise", "mismatch", "values #" + std::to_string(i) + " and #" + std::to_string(j));
    }
  vf::add_evals(4 * n * n);
  bool reported = false;
  auto const incomparable = [&](std::size_t a, std::size_t b) { return !lt[a * n + b] && !lt[b * n + a]; };
  for (std::size_t i = 0; i < n && !reported; ++i)
  {
    if (lt[i * n + i])
    {
      vf::violation(entry + "/</not-irreflexive", "mismatch", "value #" + std::to_string(i));
      reported = true;
    }
    for (std::size_t j = 0; j < n && !reported; ++j)
    {
      if (lt[i * n + j] && lt[j * n + i])
      {
        vf::violation(entry + "/</not-asymmetric", "mismatch", "");
        reported = true;
      }
      for (std::size_t k = 0; k < n && !reported; ++k)
      {
        if (lt[i * n + j] && lt[j * n + k] && !lt[i * n + k])
        {
          vf::violation(entry + "/</not-transitive", "mismatch", "values #" + std::to_string(i) + ", #" + std::to_string(j) + ", #" + std::to_string(k));
          reported = true;
        }
        if (incomparable(i, j) && incomparable(j, k) && !incomparable(i, k))
        {
          vf::violation(entry + "/</incomparability-not-transitive(not-a-strict-weak-order)", "mismatch",
                        "values #" + std::to_string(i) + ", #" + std::to_string(j) + ", #" + std::to_string(k));
          reported = true;
        }
      }
    }
  }
  VF_COUNT("order/finer-equality-families");
}
} // namespace
void vf_slice_3()
{
  finer_equality_family<fm::vector::object, fm::vector::static_>("vector<key-tag,3>");
  finer_equality_family<fm::dim::object, fm::dim::static_>("dim<key-tag,3>");
  linear_family<fm::vector::object, fm::vector::static_, 1, 0>("vector<int,1>");
  linear_family<fm::vector::object, fm::vector::static_, 2, 0>("vector<int,2>");
  linear_family<fm::vector::object, fm::vector::static_, 3, 0>("vector<int,3>");
  linear_family<fm::vector::object, fm::vector::static_, 2, 1>("vector<int,2>/view");
  linear_family<fm::vector::object, fm::vector::static_, 2, 2>("vector<int,2>/mixed-storage");
  linear_family<fm::dim::object, fm::dim::static_, 1, 0>("dim<int,1>");
  linear_family<fm::dim::object, fm::dim::static_, 2, 0>("dim<int,2>");
  linear_family<fm::dim::object, fm::dim::static_, 3, 0>("dim<int,3>");
  linear_family<fm::dim::object, fm::dim::static_, 2, 2>("dim<int,2>/mixed-storage");
  matrix_family<2, 2>("matrix<int,2,2>", true);
  matrix_family<1, 3>("matrix<int,1,3>", false);
  matrix_family<3, 1>("matrix<int,3,1>", false);
}
#endif

// ================================================================================================ slice 4
#if VF_IN_SLICE(4)
#include <fcppt/no_init.hpp>
#include <fcppt/container/grid/comparison.hpp>
#include <fcppt/container/grid/object.hpp>
#include <fcppt/container/grid/resize.hpp>
#include <fcppt/container/grid/static_row.hpp>
#include <fcppt/math/box/comparison.hpp>
#include <fcppt/math/box/object.hpp>
#include <fcppt/math/dim/comparison.hpp>
#include <fcppt/math/dim/object_impl.hpp>
#include <fcppt/math/sphere/comparison.hpp>
#include <fcppt/math/sphere/object.hpp>
#include <fcppt/math/vector/comparison.hpp>
#include <fcppt/math/vector/object_impl.hpp>

namespace
{
namespace fm4 = fcppt::math;

template <class T, fm4::size_type N>
void box_family(std::string const &entry)
{
  if (!entry_selected(entry))
    return;
  using box = fm4::box::object<T, N>;
  using vec = typename box::vector;
  using dim = typename box::dim;
  auto mkv = [](comps const &c, std::size_t off) {
    vec v{fcppt::no_init{}};
    for (fm4::size_type i = 0; i < N; ++i)
      v.get_unsafe(i) = static_cast<T>(c[off + i]);
    return v;
  };
  auto mkd = [](comps const &c, std::size_t off) {
    dim d{fcppt::no_init{}};
    for (fm4::size_type i = 0; i < N; ++i)
      d.get_unsafe(i) = static_cast<T>(c[off + i]);
    return d;
  };
  family<box> f;
  for (comps const &c : sequences(2 * N, dom())) // pos..., size...
  {
    std::string const s = show(c);
    comps mx(N);
    for (std::size_t i = 0; i < N; ++i)
      mx[i] = c[i] + c[N + i];
    f.add("construct (pos,size) " + s, mkv(c, 0), mkd(c, N));
    f.add("construct (min,max) for pos,size " + s, mkv(c, 0), mkv(mx, 0));
    {
      box &b = f.add("no_init then write pos() and max() for pos,size " + s, fcppt::no_init{});
      b.max() = mkv(mx, 0);
      b.pos() = mkv(c, 0);
    }
    {
      box &b = f.add("construct ([1..],[2..]) then assign pos,size " + s, mkv(comps(N, 1), 0), mkd(comps(N, 2), 0));
      b = box(mkv(c, 0), mkd(c, N));
    }
  }
  auto observe = [](box const &b) {
    comps c;
    for (fm4::size_type i = 0; i < N; ++i)
      c.push_back(static_cast<int>(b.pos().get_unsafe(i)));
    dim const sz(b.size());
    for (fm4::size_type i = 0; i < N; ++i)
      c.push_back(static_cast<int>(sz.get_unsafe(i)));
    for (fm4::size_type i = 0; i < N; ++i)
      c.push_back(static_cast<int>(b.max().get_unsafe(i)));
    return c;
  };
  // documented: "Compare two boxes lexicographically" (position first, then size)
  run_family<o_eq | o_ne | o_lt>(entry, f, observe, observe, true);
}

template <fm4::size_type N>
void sphere_family(std::string const &entry)
{
  if (!entry_selected(entry))
    return;
  using sph = fm4::sphere::object<int, N>;
  using point = typename sph::point_type;
  auto mkp = [](comps const &c) {
    point v{fcppt::no_init{}};
    for (fm4::size_type i = 0; i < N; ++i)
      v.get_unsafe(i) = c[i];
    return v;
  };
  family<sph> f;
  for (comps const &c : sequences(N + 1, dom())) // origin..., radius
  {
    std::string const s = show(c);
    f.add("construct (origin,radius) " + s, mkp(c), c[N]);
    {
      sph &x = f.add("construct ([2..],1) then write origin() and radius() " + s, mkp(comps(N, 2)), 1);
      x.radius() = c[N];
      x.origin() = mkp(c);
    }
    {
      sph &x = f.add("construct ([0..],2) then assign " + s, mkp(comps(N, 0)), 2);
      x = sph(mkp(c), c[N]);
    }
  }
  auto observe = [](sph const &x) {
    comps c;
    for (fm4::size_type i = 0; i < N; ++i)
      c.push_back(x.origin().get_unsafe(i));
    c.push_back(x.radius());
    return c;
  };
  run_family<o_eq | o_ne>(entry, f, observe, no_order{}, false);
}

namespace fg = fcppt::container::grid;
void grid1_family()
{
  if (!entry_selected("grid<int,1>"))
    return;
  using grid = fg::object<int, 1>;
  using dim = grid::dim;
  using pos = grid::pos;
  family<grid> f;
  std::size_t const maxw = vf::tier<std::size_t>(2, 4);
  for (std::size_t w = 0; w <= maxw; ++w)
    for (comps const &c : sequences(w, 3))
    {
      std::string const s = "size " + std::to_string(w) + " elements " + show(c);
      f.add("construct (size, function) " + s, dim(w), [&c](pos const p) { return c[p.x()]; });
      {
        grid &g = f.add("construct (size, 7) then write through get_unsafe " + s, dim(w), 7);
        for (std::size_t x = w; x-- > 0;)
          g.get_unsafe(pos(x)) = c[x];
      }
      {
        grid &g = f.add("construct a larger grid then assign " + s, dim(w + 2), 5);
        g = grid(dim(w), [&c](pos const p) { return c[p.x()]; });
      }
      f.add("grid::resize from size " + std::to_string(w + 1) + " " + s,
            fg::resize(grid(dim(w + 1), [&c, w](pos const p) { return p.x() < w ? c[p.x()] : 9; }), dim(w), [](pos) { return 8; }));
      if (w == 0)
        f.add("default constructed");
    }
  auto observe = [](grid const &g) {
    comps c{static_cast<int>(g.size().w()), static_cast<int>(g.content()), g.empty() ? 1 : 0};
    for (std::size_t x = 0; x < g.size().w(); ++x)
      c.push_back(g.get_unsafe(pos(x)));
    return c;
  };
  // documented: the size is the first component, then std::lexicographical_compare over begin()..end()
  auto order = [](grid const &g) {
    comps c{static_cast<int>(g.size().w())};
    for (int v : g)
      c.push_back(v);
    return c;
  };
  run_family<o_eq | o_ne | o_lt | o_le | o_gt | o_ge>("grid<int,1>", f, observe, order, true);
}
void grid2_family()
{
  if (!entry_selected("grid<int,2>"))
    return;
  using grid = fg::object<int, 2>;
  using dim = grid::dim;
  using pos = grid::pos;
  family<grid> f;
  std::size_t const maxe = 2;
  for (std::size_t w = 0; w <= maxe; ++w)
    for (std::size_t h = 0; h <= maxe; ++h)
      for (comps const &c : sequences(w * h, 3))
      {
        std::string const s = "size " + std::to_string(w) + "x" + std::to_string(h) + " elements(y-major) " + show(c);
        auto at = [&c, w](pos const p) { return c[p.y() * w + p.x()]; };
        f.add("construct (size, function) " + s, dim(w, h), at);
        {
          grid &g = f.add("construct (size, 7) then write through get_unsafe " + s, dim(w, h), 7);
          for (std::size_t y = 0; y < h; ++y)
            for (std::size_t x = 0; x < w; ++x)
              g.get_unsafe(pos(x, y)) = c[y * w + x];
        }
        {
          // the transposed size with other contents, then assigned
          grid &g = f.add("construct " + std::to_string(h + 1) + "x" + std::to_string(w) + " then assign " + s, dim(h + 1, w), 5);
          g = grid(dim(w, h), at);
        }
        if (w == 2 && h == 2)
          f.add("construct from static_row " + s, fg::static_row(c[0], c[1]), fg::static_row(c[2], c[3]));
        if (w == 0 && h == 0)
          f.add("default constructed");
      }
  auto observe = [](grid const &g) {
    comps c{static_cast<int>(g.size().w()), static_cast<int>(g.size().h()), static_cast<int>(g.content()), g.empty() ? 1 : 0};
    for (std::size_t y = 0; y < g.size().h(); ++y)
      for (std::size_t x = 0; x < g.size().w(); ++x)
        c.push_back(g.get_unsafe(pos(x, y)));
    return c;
  };
  auto order = [](grid const &g) {
    comps c{static_cast<int>(g.size().w()), static_cast<int>(g.size().h())};
    for (int v : g)
      c.push_back(v);
    return c;
  };
  run_family<o_eq | o_ne | o_lt | o_le | o_gt | o_ge>("grid<int,2>", f, observe, order, true);
}
} // namespace
void vf_slice_4()
{
  box_family<int, 1>("box<int,1>");
  box_family<int, 2>("box<int,2>");
  box_family<unsigned, 1>("box<unsigned,1>");
  sphere_family<1>("sphere<int,1>");
  sphere_family<2>("sphere<int,2>");
  grid1_family();
  grid2_family();
}
#endif

// ================================================================================================ slice 5
#if VF_IN_SLICE(5)
#include <fcppt/container/raw_vector/comparison.hpp>
#include <fcppt/container/raw_vector/object.hpp>
#include <fcppt/container/tree/comparison.hpp>
#include <fcppt/container/tree/object.hpp>
#include <fcppt/optional/object_impl.hpp>
#include <fcppt/range/hash.hpp>

namespace
{
// ---- tree: model = value + ordered list of children
struct mtree
{
  int v;
  std::vector<mtree> ch;
};
using forest = std::vector<mtree>;
std::vector<mtree> const &model_trees(std::size_t n, int base);
std::vector<forest> const &model_forests(std::size_t m, int base)
{
  static std::map<std::pair<std::size_t, int>, std::vector<forest>> memo;
  auto key = std::make_pair(m, base);
  auto it = memo.find(key);
  if (it != memo.end())
    return it->second;
  std::vector<forest> r;
  if (m == 0)
    r.push_back(forest{});
  else
    for (std::size_t k = 1; k <= m; ++k)
      for (mtree const &t : model_trees(k, base))
        for (forest const &rest : model_forests(m - k, base))
        {
          forest f{t};
          f.insert(f.end(), rest.begin(), rest.end());
          r.push_back(f);
        }
  return memo.emplace(key, r).first->second;
}
std::vector<mtree> const &model_trees(std::size_t n, int base)
{
  static std::map<std::pair<std::size_t, int>, std::vector<mtree>> memo;
  auto key = std::make_pair(n, base);
  auto it = memo.find(key);
  if (it != memo.end())
    return it->second;
  std::vector<mtree> r;
  for (int v = 0; v < base; ++v)
    for (forest const &f : model_forests(n - 1, base))
      r.push_back(mtree{v, f});
  return memo.emplace(key, r).first->second;
}
std::string show_tree(mtree const &t)
{
  std::string s = std::to_string(t.v);
  if (!t.ch.empty())
  {
    s += "(";
    for (std::size_t i = 0; i < t.ch.size(); ++i)
      s += (i ? " " : "") + show_tree(t.ch[i]);
    s += ")";
  }
  return s;
}

using tree = fcppt::container::tree::object<int>;
tree build_bottom_up(mtree const &m)
{
  tree t(m.v);
  for (mtree const &c : m.ch)
    t.push_back(build_bottom_up(c));
  return t;
}
void fill_top_down(tree &t, mtree const &m)
{
  for (mtree const &c : m.ch)
  {
    tree::reference r = t.push_back(c.v);
    fill_top_down(r.get(), c);
  }
}
tree build_front(mtree const &m)
{
  tree t(m.v);
  for (std::size_t i = m.ch.size(); i-- > 0;)
    t.push_front(build_front(m.ch[i]));
  return t;
}
// builds with a wrong value and extra children everywhere, then repairs: value(v), pop/erase/release
tree build_detour(mtree const &m)
{
  tree t(m.v + 5);
  t.push_back(77);
  for (mtree const &c : m.ch)
    t.push_back(build_detour(c));
  t.push_back(tree(88));
  t.value(m.v);
  tree const gone = t.release(t.begin());
  (void)gone;
  auto last = t.pop_back();
  (void)last;
  return t;
}
tree build_list_ctor(mtree const &m)
{
  tree::child_list l;
  for (mtree const &c : m.ch)
    l.push_back(build_list_ctor(c));
  int v = m.v;
  return tree(std::move(v), std::move(l));
}
tree build_insert(mtree const &m)
{
  tree t(m.v);
  // children inserted from the middle outwards
  std::size_t const n = m.ch.size();
  if (n > 0)
  {
    std::size_t const mid = n / 2;
    t.insert(t.end(), build_insert(m.ch[mid]));
    for (std::size_t i = mid; i-- > 0;)
      t.insert(t.begin(), build_insert(m.ch[i]));
    for (std::size_t i = mid + 1; i < n; ++i)
      t.insert(t.end(), build_insert(m.ch[i]));
  }
  return t;
}
void observe_tree(tree const &t, comps &c)
{
  c.push_back(t.value());
  c.push_back(static_cast<int>(t.size()));
  c.push_back(t.empty() ? 1 : 0);
  for (tree const &ch : t.children())
    observe_tree(ch, c);
}

void tree_family()
{
  if (!entry_selected("tree<int>"))
    return;
  family<tree> f;
  std::size_t idx = static_cast<std::size_t>(vf::seed_for("tree<int>") % 6U); // which history goes with which tree
  auto add_all = [&](std::size_t nodes, int base) {
    for (mtree const &m : model_trees(nodes, base))
    {
      std::string const s = show_tree(m);
      f.add("push_back(tree&&) bottom-up " + s, build_bottom_up(m));
      switch (idx++ % 6)
      {
      case 0:
      {
        tree &t = f.add("push_back(value) top-down through the returned references " + s, m.v);
        fill_top_down(t, m);
        break;
      }
      case 1: f.add("push_front in reverse order " + s, build_front(m)); break;
      case 2: f.add("wrong values and extra children, then value()/release/pop_back " + s, build_detour(m)); break;
      case 3: f.add("constructor (value, child_list) " + s, build_list_ctor(m)); break;
      case 4: f.add("insert from the middle outwards " + s, build_insert(m)); break;
      default:
      {
        tree &t = f.add("a different tree, then copy-assigned " + s, build_bottom_up(mtree{m.v + 1, {mtree{0, {}}, mtree{1, {}}}}));
        tree const src(build_front(m));
        t = src;
        break;
      }
      }
    }
  };
  for (std::size_t n = 1; n <= 4; ++n)
    add_all(n, 3);
  if (vf::thorough())
    add_all(5, 3);
  auto observe = [](tree const &t) {
    comps c;
    observe_tree(t, c);
    return c;
  };
  run_family<o_eq | o_ne>("tree<int>", f, observe, no_order{}, false);
  // == looks at the values and the shape below the two nodes compared - not at where they hang: a copy of every family
  // value attached one and two levels deep in a host tree compares with every (standalone) family value as the original
  if (vf::begin_case("every family value as an attached subtree (depth 1 and 2) against every standalone value"))
  {
    std::vector<comps> obs;
    for (tree const &t : f.v)
      obs.push_back(observe(t));
    for (std::size_t i = 0; i < f.v.size(); ++i)
    {
      tree host(1000);
      host.push_back(tree(f.v[i]));
      tree host2(1001);
      host2.push_back(tree(host));
      tree const &depth1 = host.front().get_unsafe().get();
      tree const &depth2 = host2.front().get_unsafe().get().front().get_unsafe().get();
      for (std::size_t j = 0; j < f.v.size(); ++j)
      {
        bool const same = obs[i] == obs[j];
        VF_COUNT("tree/attached-subtree-comparisons");
        for (tree const *a : {&depth1, &depth2})
          if ((*a == f.v[j]) != same || (f.v[j] == *a) != same || (*a != f.v[j]) == same)
          {
            vf::violation("tree<int>/==/attached-subtree-against-standalone-tree", "mismatch",
                          "value " + f.how[i] + " attached at depth " + (a == &depth1 ? "1" : "2") + " against " + f.how[j] + ": == gives " + ((*a == f.v[j]) ? "true" : "false"));
            break;
          }
      }
      if (!(depth1 == depth2))
        vf::violation("tree<int>/==/attached-subtrees-at-different-depths", "mismatch", f.how[i]);
    }
    vf::add_evals(f.v.size() * f.v.size());
  }
}

// ---- raw_vector: the same contents reached through different capacities and histories
template <class T>
void raw_vector_family(std::string const &entry, std::size_t maxlen)
{
  if (!entry_selected(entry))
    return;
  using rv = fcppt::container::raw_vector::object<T>;
  family<rv> f;
  // floating point elements: the component 0 is alternately +0.0 and -0.0 - equal values with different bit patterns
  // (== of the container is == of the elements, not of their bytes)
  bool flip = false;
  auto val = [&flip](int v) -> T {
    if constexpr (std::is_floating_point_v<T>)
      if (v == 0)
      {
        flip = !flip;
        return flip ? T(0.0) : -T(0.0);
      }
    return static_cast<T>(v);
  };
  for (std::size_t len = 0; len <= maxlen; ++len)
    for (comps const &c : sequences(len, 3))
    {
      std::string const s = show(c);
      std::vector<T> src;
      for (int v : c)
        src.push_back(val(v));
      {
        rv &x = f.add("push_back one by one " + s);
        for (T v : src)
          x.push_back(v);
      }
      f.add("range constructor " + s, src.begin(), src.end());
      if constexpr (std::is_floating_point_v<T>)
      {
        // the same values with the sign of every zero flipped: equal element by element, different bytes
        rv &x = f.add("push_back, zeros with the other sign " + s);
        for (T v : src)
          x.push_back(v == T(0) ? -v : v);
      }
      {
        rv &x = f.add("reserve(64) then push_back " + s);
        x.reserve(64);
        for (T v : src)
          x.push_back(v);
      }
      {
        rv &x = f.add("construct (n+2, 9), overwrite, pop_back twice " + s, len + 2, val(9));
        for (std::size_t i = 0; i < len; ++i)
          x[i] = src[i];
        x.pop_back();
        x.pop_back();
      }
      {
        rv &x = f.add("construct [7]+contents, erase(begin), shrink_to_fit " + s);
        x.push_back(val(7));
        x.insert(x.end(), src.begin(), src.end());
        x.erase(x.begin());
        x.shrink_to_fit();
      }
      {
        rv &x = f.add("insert at the front in reverse order " + s);
        for (std::size_t i = len; i-- > 0;)
          x.insert(x.begin(), src[i]);
      }
      {
        rv &x = f.add("construct (5, 1), resize(n, 0), overwrite " + s, std::size_t{5}, val(1));
        x.resize(len, val(0));
        for (std::size_t i = 0; i < len; ++i)
          x[i] = src[i];
      }
      {
        rv &x = f.add("a longer vector, then move-assigned " + s, std::size_t{6}, val(2));
        x = rv(src.begin(), src.end());
      }
      if (len == 0)
      {
        rv &x = f.add("push_back three, then clear");
        x.push_back(val(1));
        x.push_back(val(2));
        x.push_back(val(0));
        x.clear();
      }
      if (len == 3)
        f.add("initializer list " + s, std::initializer_list<T>{src[0], src[1], src[2]});
    }
  auto observe = [](rv const &x) {
    comps c{static_cast<int>(x.size()), x.empty() ? 1 : 0};
    for (std::size_t i = 0; i < x.size(); ++i)
      c.push_back(static_cast<int>(x[i]));
    return c;
  };
  // raw_vector's operator< has no documentation at all: only the order axioms are judged, agreement with the
  // lexicographic order of std::vector is observed
  auto order = [](rv const &x) {
    comps c;
    for (T v : x)
      c.push_back(static_cast<int>(v));
    return c;
  };
  run_family<o_eq | o_ne | o_lt | o_le | o_gt | o_ge>(
      entry, f, observe, order, false, hasher<rv>("range::hash", [](rv const &x) { return fcppt::range::hash<rv>()(x); }));
}
} // namespace
void vf_slice_5()
{
  tree_family();
  raw_vector_family<int>("raw_vector<int>", vf::tier<std::size_t>(3, 4));
  raw_vector_family<char>("raw_vector<char>", 2);
  raw_vector_family<float>("raw_vector<float>", 2);
}
#endif

// ================================================================================================ main
#if VF_SLICE < 0
void vf_slice_0();
void vf_slice_1();
void vf_slice_2();
void vf_slice_3();
void vf_slice_4();
void vf_slice_5();
namespace
{
void body()
{
  for (std::size_t i = 0; i < n_entries; ++i)
    vf::require_bucket(std::string("ran/") + all_entries[i]);
  for (char const *b : {"pairs/components-equal", "pairs/components-equal-distinct-objects", "pairs/components-differ",
                        "pairs/less", "hash/equal-pairs-checked", "triples/==-checked", "triples/<-checked",
                        "copies/compared", "strong_typedef-ops/pairs", "strong_typedef-ops/unary", "type_iso/values",
                        "wrappers/reference-cases", "wrappers/recursive-cases", "wrappers/unique_ptr-cases",
                        "wrappers/shared_ptr-cases"})
    vf::require_bucket(b);
  vf_slice_0();
  vf_slice_1();
  vf_slice_2();
  vf_slice_3();
  vf_slice_4();
  vf_slice_5();
}
} // namespace
VF_MAIN(body)
#endif
