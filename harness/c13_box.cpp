// C13: axis-aligned boxes behave as half-open point sets.
//
// Oracle: a box is the explicit set of integer lattice points p with pos <= p < max in every
// coordinate (a std::bitset over a lattice that covers every operand and every result with a
// margin).  All judged results are compared as point sets; nothing below calls the function under
// test to obtain its own expectation.
//
// Judged (named by the statement): contains_point, intersection (+ "is the null box"), intersects
// (non-empty operands), contains (non-empty inner), extend_bounding_box(box,box) (non-empty
// operands), size/pos/max, corner_points, shrink, stretch_absolute.
// Observed only: extend_bounding_box(box,point), center, stretch_relative, distance /
// interval_distance, interval, init_max, init_dim, structure_cast, left/right/top/bottom/front/back,
// operator== between equal boxes, intersects/contains/extend with empty operands.
#include <vf.hpp>
#include <heavy.hpp>

#include <fcppt/array/object_impl.hpp>
#include <fcppt/cast/static_cast_fun.hpp>
#include <fcppt/math/size_constant.hpp>
#include <fcppt/math/size_type.hpp>
#include <fcppt/math/box/center.hpp>
#include <fcppt/math/box/comparison.hpp>
#include <fcppt/math/box/contains.hpp>
#include <fcppt/math/box/contains_point.hpp>
#include <fcppt/math/box/corner_points.hpp>
#include <fcppt/math/box/distance.hpp>
#include <fcppt/math/box/extend_bounding_box.hpp>
#include <fcppt/math/box/init_dim.hpp>
#include <fcppt/math/box/init_max.hpp>
#include <fcppt/math/box/intersection.hpp>
#include <fcppt/math/box/intersects.hpp>
#include <fcppt/math/box/interval.hpp>
#include <fcppt/math/box/null.hpp>
#include <fcppt/math/box/object.hpp>
#include <fcppt/math/box/shrink.hpp>
#include <fcppt/math/box/stretch_absolute.hpp>
#include <fcppt/math/box/stretch_relative.hpp>
#include <fcppt/math/box/structure_cast.hpp>
#include <fcppt/math/dim/object_impl.hpp>
#include <fcppt/math/dim/static.hpp>
#include <fcppt/math/vector/object_impl.hpp>
#include <fcppt/math/vector/static.hpp>
#include <fcppt/tuple/get.hpp>
#include <fcppt/tuple/make.hpp>
#include <fcppt/tuple/object_impl.hpp>

#include <algorithm>
#include <array>
#include <bitset>
#include <cstdint>
#include <limits>
#include <string>
#include <type_traits>
#include <unordered_map>
#include <vector>

namespace
{
using ll = long long;
using dim_t = fcppt::math::size_type;

template <class T>
char const *tn()
{
  if constexpr (std::is_same_v<T, int>)
    return "int";
  else if constexpr (std::is_same_v<T, long>)
    return "long";
  else if constexpr (std::is_same_v<T, unsigned>)
    return "unsigned";
  else if constexpr (std::is_same_v<T, vf::heavy>)
    return "heavy";
  else if constexpr (std::is_same_v<T, vf::natural>)
    return "natural";
  else
    return "?";
}

// ------------------------------------------------------------------ the reference model
template <dim_t N>
using pt = std::array<ll, N>;

template <dim_t N>
struct obox // the half-open set { p : lo <= p < hi in every coordinate }
{
  pt<N> lo, hi;
};

template <dim_t N>
bool member(obox<N> const &b, pt<N> const &p)
{
  for (dim_t i = 0; i < N; ++i)
    if (!(b.lo[i] <= p[i] && p[i] < b.hi[i]))
      return false;
  return true;
}

template <dim_t N>
std::string show(pt<N> const &p)
{
  std::string r = "(";
  for (dim_t i = 0; i < N; ++i)
    r += (i ? "," : "") + std::to_string(p[i]);
  return r + ")";
}
template <dim_t N>
std::string show(obox<N> const &b)
{
  return "[" + show<N>(b.lo) + ".." + show<N>(b.hi) + ")";
}

// lattice [l0,l1]^N with an index for every point
template <dim_t N>
struct lattice
{
  ll l0, l1;
  std::size_t w, total;
  std::vector<pt<N>> pts;
  lattice(ll a, ll b) : l0(a), l1(b), w(static_cast<std::size_t>(b - a + 1)), total(1)
  {
    for (dim_t i = 0; i < N; ++i)
      total *= w;
    pts.resize(total);
    for (std::size_t k = 0; k < total; ++k)
    {
      std::size_t r = k;
      for (dim_t i = 0; i < N; ++i)
      {
        pts[k][i] = l0 + static_cast<ll>(r % w);
        r /= w;
      }
    }
  }
};

template <dim_t N>
constexpr std::size_t cap = N == 1 ? 16 : N == 2 ? 256 : 2200;
template <dim_t N>
using bits = std::bitset<cap<N>>;

// the explicit point set of a box on the lattice
template <dim_t N>
bits<N> pointset_explicit(lattice<N> const &l, obox<N> const &b)
{
  bits<N> r;
  for (std::size_t k = 0; k < l.total; ++k)
    if (member<N>(b, l.pts[k]))
      r.set(k);
  return r;
}

// same, memoised for boxes whose corners are near the lattice (pure function, so the memo does not
// change any verdict)
template <dim_t N>
struct psets
{
  lattice<N> const &l;
  std::unordered_map<std::uint64_t, bits<N>> memo;
  explicit psets(lattice<N> const &l_) : l(l_) {}
  bits<N> of(obox<N> const &b)
  {
    std::uint64_t key = 0;
    bool cacheable = true;
    for (dim_t i = 0; i < N && cacheable; ++i)
      for (ll c : {b.lo[i], b.hi[i]})
      {
        ll d = c - l.l0 + 8;
        if (d < 0 || d >= 64)
        {
          cacheable = false;
          break;
        }
        key = key * 64 + static_cast<std::uint64_t>(d);
      }
    if (!cacheable)
      return pointset_explicit<N>(l, b);
    auto it = memo.find(key);
    if (it != memo.end())
      return it->second;
    bits<N> r = pointset_explicit<N>(l, b);
    if (memo.size() < 200000)
      memo.emplace(key, r);
    return r;
  }
};

// all boxes with corners in [a,b]^N and lo <= hi
template <dim_t N>
std::vector<obox<N>> all_boxes(ll a, ll b)
{
  std::vector<std::pair<ll, ll>> iv;
  for (ll lo = a; lo <= b; ++lo)
    for (ll hi = lo; hi <= b; ++hi)
      iv.emplace_back(lo, hi);
  std::size_t total = 1;
  for (dim_t i = 0; i < N; ++i)
    total *= iv.size();
  std::vector<obox<N>> r(total);
  for (std::size_t k = 0; k < total; ++k)
  {
    std::size_t q = k;
    for (dim_t i = 0; i < N; ++i)
    {
      r[k].lo[i] = iv[q % iv.size()].first;
      r[k].hi[i] = iv[q % iv.size()].second;
      q /= iv.size();
    }
  }
  return r;
}
template <dim_t N>
std::vector<pt<N>> all_vectors(ll a, ll b)
{
  std::size_t w = static_cast<std::size_t>(b - a + 1), total = 1;
  for (dim_t i = 0; i < N; ++i)
    total *= w;
  std::vector<pt<N>> r(total);
  for (std::size_t k = 0; k < total; ++k)
  {
    std::size_t q = k;
    for (dim_t i = 0; i < N; ++i)
    {
      r[k][i] = a + static_cast<ll>(q % w);
      q /= w;
    }
  }
  return r;
}

template <dim_t N>
std::uint64_t hash_box(obox<N> const &b, std::uint64_t h)
{
  for (dim_t i = 0; i < N; ++i)
  {
    h = vf::hash_mix(h, static_cast<std::uint64_t>(b.lo[i]));
    h = vf::hash_mix(h, static_cast<std::uint64_t>(b.hi[i]));
  }
  return h;
}
template <dim_t N>
std::uint64_t hash_pt(pt<N> const &p, std::uint64_t h)
{
  for (dim_t i = 0; i < N; ++i)
    h = vf::hash_mix(h, static_cast<std::uint64_t>(p[i]));
  return h;
}

template <dim_t N>
bool all_lt(pt<N> const &a, pt<N> const &b)
{
  for (dim_t i = 0; i < N; ++i)
    if (!(a[i] < b[i]))
      return false;
  return true;
}
template <dim_t N>
bool is_zero(pt<N> const &a)
{
  for (dim_t i = 0; i < N; ++i)
    if (a[i] != 0)
      return false;
  return true;
}
template <dim_t N>
pt<N> add(pt<N> a, pt<N> const &b, ll f = 1)
{
  for (dim_t i = 0; i < N; ++i)
    a[i] += f * b[i];
  return a;
}

// ------------------------------------------------------------------ the library side
template <class T, dim_t N>
struct lib
{
  using box = fcppt::math::box::object<T, N>;
  using vec = typename box::vector;
  using dim = typename box::dim;
  static vec mkvec(pt<N> const &p)
  {
    if constexpr (N == 1)
      return vec(static_cast<T>(p[0]));
    else if constexpr (N == 2)
      return vec(static_cast<T>(p[0]), static_cast<T>(p[1]));
    else
      return vec(static_cast<T>(p[0]), static_cast<T>(p[1]), static_cast<T>(p[2]));
  }
  static dim mkdim(pt<N> const &p)
  {
    if constexpr (N == 1)
      return dim(static_cast<T>(p[0]));
    else if constexpr (N == 2)
      return dim(static_cast<T>(p[0]), static_cast<T>(p[1]));
    else
      return dim(static_cast<T>(p[0]), static_cast<T>(p[1]), static_cast<T>(p[2]));
  }
  template <class V>
  static pt<N> rd(V const &v)
  {
    pt<N> r{};
    for (dim_t i = 0; i < N; ++i)
      r[i] = static_cast<ll>(v.get_unsafe(i));
    return r;
  }
  static box mk(obox<N> const &b) { return box(mkvec(b.lo), mkvec(b.hi)); }
  static obox<N> ob(box const &b) { return obox<N>{rd(b.pos()), rd(b.max())}; }
};

template <class T, dim_t N>
struct ctx
{
  static constexpr bool uns = std::is_unsigned_v<T> || std::is_same_v<T, vf::natural>;
  static constexpr ll off = uns ? 3 : 0;    // the corner range is [off-3, off+3]
  static constexpr ll radius = N <= 2 ? 7 : 6;
  std::string tag;
  lattice<N> lat;
  psets<N> ps;
  ctx() : tag(std::string(tn<T>()) + "," + std::to_string(N)), lat(uns ? 0 : -radius, off + radius), ps(lat) {}
  void bad(char const *fn, char const *cls, std::string const &detail) const
  {
    vf::violation(std::string(fn) + "/" + tag + "/" + cls, "mismatch", detail);
  }
};

// Compares a result box with the expected point set: explicitly on the lattice, and (two boxes
// have the same points iff both are empty or their faces agree) on the faces, which also covers a
// result that would leave the lattice.
template <class T, dim_t N>
void judge_same_points(ctx<T, N> &c, char const *fn, obox<N> const &want, obox<N> const &got, std::string const &what)
{
  bits<N> const w = c.ps.of(want), g = c.ps.of(got);
  if (w != g)
  {
    c.bad(fn, (g & ~w).any() ? "extra-points" : "missing-points", what + " got=" + show<N>(got) + " want=" + show<N>(want));
    return;
  }
  bool const we = !all_lt<N>(want.lo, want.hi), ge = !all_lt<N>(got.lo, got.hi);
  if (we != ge || (!we && (want.lo != got.lo || want.hi != got.hi)))
    c.bad(fn, "faces", what + " got=" + show<N>(got) + " want=" + show<N>(want));
}

// ---- one box: size/pos/max, corner_points, contains_point over `points`
template <class T, dim_t N>
std::uint64_t judge_box(ctx<T, N> &c, obox<N> const &a, std::vector<pt<N>> const &points, bool lattice_covers)
{
  using L = lib<T, N>;
  using box = typename L::box;
  std::uint64_t calls = 0;
  pt<N> const ext = add<N>(a.hi, a.lo, -1);
  box const b1 = L::mk(a);
  box const b2(L::mkvec(a.lo), L::mkdim(ext));
  box b3 = fcppt::math::box::null<box>();
  b3.pos() = L::mkvec(a.lo);
  b3.max() = L::mkvec(a.hi);
  {
    box const *bs[3] = {&b1, &b2, &b3};
    char const *nm[3] = {"min-max-constructor", "pos-size-constructor", "mutable-accessors"};
    for (int k = 0; k < 3; ++k)
    {
      pt<N> const p = L::rd(bs[k]->pos()), m = L::rd(bs[k]->max()), s = L::rd(bs[k]->size());
      calls += 3;
      if (p != a.lo)
        c.bad("pos", nm[k], "box " + show<N>(a) + " pos()=" + show<N>(p));
      if (m != a.hi)
        c.bad("max", nm[k], "box " + show<N>(a) + " max()=" + show<N>(m));
      if (s != ext)
        c.bad("size", nm[k], "box " + show<N>(a) + " size()=" + show<N>(s) + " want=" + show<N>(ext));
    }
    VF_COUNT("size-pos-max/boxes");
  }
  if (lattice_covers)
  {
    // size() is consistent with the point set: the number of points is the product of the extents
    std::size_t const npts = c.ps.of(a).count();
    pt<N> const s = L::rd(b1.size());
    ll prod = 1;
    for (dim_t i = 0; i < N; ++i)
      prod *= s[i];
    ++calls;
    if (static_cast<ll>(npts) != prod)
      c.bad("size", "point-count", "box " + show<N>(a) + " has " + std::to_string(npts) + " lattice points, size()=" + show<N>(s));
    if (npts)
      VF_COUNT("size/nonempty-box");
    else
      VF_COUNT("size/empty-box");
  }
  {
    // corner_points: the 2^N combinations of pos/max coordinates
    auto const cp = fcppt::math::box::corner_points(b1);
    ++calls;
    std::vector<pt<N>> got, want, want_ordered;
    for (auto const &v : cp)
      got.push_back(L::rd(v));
    for (unsigned m = 0; m < (1U << N); ++m)
    {
      pt<N> p{};
      for (dim_t i = 0; i < N; ++i)
        p[i] = ((m >> i) & 1U) ? a.hi[i] : a.lo[i];
      want.push_back(p);
    }
    want_ordered = want;
    bool const in_order = got == want_ordered;
    std::sort(got.begin(), got.end());
    std::sort(want.begin(), want.end());
    if (got != want)
    {
      std::string g;
      for (auto const &p : got)
        g += show<N>(p);
      c.bad("corner_points", "corner-set", "box " + show<N>(a) + " corners=" + g);
    }
    else if (!in_order)
      vf::observation("corner_points<" + c.tag + ">: corners are not in bit-string order (observed only)");
    VF_COUNT("corner_points/boxes");
  }
  // contains_point is membership
  bool const nonempty = all_lt<N>(a.lo, a.hi);
  for (auto const &p : points)
  {
    bool const want = member<N>(a, p);
    bool const got = fcppt::math::box::contains_point(b1, L::mkvec(p));
    ++calls;
    bool on_min = false, in_closed = true;
    for (dim_t i = 0; i < N; ++i)
    {
      on_min = on_min || p[i] == a.lo[i];
      in_closed = in_closed && a.lo[i] <= p[i] && p[i] <= a.hi[i];
    }
    char const *cls;
    if (want)
    {
      if (on_min)
      {
        cls = "point-on-min-face";
        VF_COUNT("contains_point/inside-on-min-face");
      }
      else
      {
        cls = "interior-point";
        VF_COUNT("contains_point/inside-interior");
      }
    }
    else if (in_closed && nonempty)
    {
      cls = "point-on-max-face";
      VF_COUNT("contains_point/outside-on-max-face");
    }
    else if (in_closed)
    {
      cls = "point-on-empty-box";
      VF_COUNT("contains_point/outside-on-empty-box");
    }
    else
    {
      cls = "exterior-point";
      VF_COUNT("contains_point/outside-exterior");
    }
    if (got != want)
      c.bad("contains_point", cls, "box " + show<N>(a) + " point " + show<N>(p) + " got=" + (got ? "true" : "false") + " want=" + (want ? "true" : "false"));
  }
  return calls;
}

// ---- observed neighbours on one box (never a violation)
template <class T, dim_t N>
void observe_box(ctx<T, N> &c, obox<N> const &a)
{
  using L = lib<T, N>;
  using box = typename L::box;
  box const b1 = L::mk(a);
  box const b2(L::mkvec(a.lo), L::mkdim(add<N>(a.hi, a.lo, -1)));
  VF_COUNT("observed/neighbour-calls");
  if (!(b1 == b2) || (b1 != b2))
    vf::observation("operator==<" + c.tag + ">: box(min,max) and box(pos,size) of the same box compare unequal (observed only)");
  {
    pt<N> const ce = L::rd(fcppt::math::box::center(b1));
    pt<N> want{};
    for (dim_t i = 0; i < N; ++i)
      want[i] = a.lo[i] + (a.hi[i] - a.lo[i]) / 2;
    if (ce != want)
      vf::observation("center<" + c.tag + ">: differs from pos + size/2, e.g. " + show<N>(a) + " -> " + show<N>(ce) + " (observed only)");
    // judged (consistency with the point set): the center of a non-empty box is one of its points
    if (all_lt<N>(a.lo, a.hi))
    {
      VF_COUNT("center/nonempty-box");
      if (!member<N>(a, ce))
        c.bad("center", "outside-the-box", "box " + show<N>(a) + " center " + show<N>(ce));
    }
  }
  {
    auto const iv = fcppt::math::box::interval<0>(b1);
    if (static_cast<ll>(fcppt::tuple::get<0>(iv)) != a.lo[0] || static_cast<ll>(fcppt::tuple::get<1>(iv)) != a.hi[0])
      vf::observation("interval<0><" + c.tag + ">: differs from (pos,max) (observed only)");
    bool ok = static_cast<ll>(b1.left()) == a.lo[0] && static_cast<ll>(b1.right()) == a.hi[0];
    if constexpr (N >= 2)
      ok = ok && static_cast<ll>(b1.top()) == a.lo[1] && static_cast<ll>(b1.bottom()) == a.hi[1];
    if constexpr (N >= 3)
      ok = ok && static_cast<ll>(b1.front()) == a.lo[2] && static_cast<ll>(b1.back()) == a.hi[2];
    if (!ok)
      vf::observation("left/right/top/bottom/front/back<" + c.tag + ">: differ from pos/max coordinates (observed only)");
  }
  {
    box const im = fcppt::math::box::init_max<box>([&a]<dim_t I>(fcppt::math::size_constant<I>)
                                                   { return fcppt::tuple::make(static_cast<T>(a.lo[I]), static_cast<T>(a.hi[I])); });
    box const id = fcppt::math::box::init_dim<box>(
        [&a]<dim_t I>(fcppt::math::size_constant<I>)
        { return fcppt::tuple::make(static_cast<T>(a.lo[I]), static_cast<T>(a.hi[I] - a.lo[I])); });
    obox<N> const om = L::ob(im), od = L::ob(id);
    if (om.lo != a.lo || om.hi != a.hi)
      vf::observation("init_max<" + c.tag + ">: result differs from the (min,max) pairs (observed only)");
    if (od.lo != a.lo || od.hi != a.hi)
      vf::observation("init_dim<" + c.tag + ">: result differs from the (pos,size) pairs (observed only)");
  }
  {
    using other = std::conditional_t<std::is_same_v<T, long>, int, long>;
    using obox_t = fcppt::math::box::object<other, N>;
    obox_t const sc = fcppt::math::box::structure_cast<obox_t, fcppt::cast::static_cast_fun>(b1);
    obox<N> const o = lib<other, N>::ob(sc);
    if (o.lo != a.lo || o.hi != a.hi)
      vf::observation("structure_cast<" + c.tag + ">: result differs from the source corners (observed only)");
  }
}

// ---- a pair of boxes, judged with explicit point sets on the lattice
template <class T, dim_t N>
std::uint64_t judge_pair(ctx<T, N> &c, obox<N> const &a, typename lib<T, N>::box const &la, bits<N> const &A, obox<N> const &b)
{
  using L = lib<T, N>;
  using box = typename L::box;
  std::uint64_t calls = 0;
  box const lb = L::mk(b);
  bits<N> const B = c.ps.of(b);
  bits<N> const common = A & B;
  bool const ne = A.any() && B.any();
  bool touching = false;
  if (ne && common.none())
  {
    touching = true;
    for (dim_t i = 0; i < N; ++i)
      touching = touching && a.lo[i] <= b.hi[i] && b.lo[i] <= a.hi[i];
  }
  auto what = [&]() { return "a=" + show<N>(a) + " b=" + show<N>(b); };

  // intersection: exactly the common points; the null box when non-empty boxes have no common point
  {
    box const r = fcppt::math::box::intersection(la, lb);
    ++calls;
    obox<N> const ro = L::ob(r);
    bits<N> const R = c.ps.of(ro);
    if (R != common)
      c.bad("intersection", (R & ~common).any() ? "extra-points" : "missing-points", what() + " result=" + show<N>(ro));
    bool const null_components = is_zero<N>(ro.lo) && is_zero<N>(ro.hi);
    bool const null_equal = r == fcppt::math::box::null<box>();
    if (!ne)
      VF_COUNT("intersection/empty-operand");
    else if (common.any())
      VF_COUNT("intersection/common-points");
    else
    {
      if (touching)
        VF_COUNT("intersection/disjoint-touching");
      else
        VF_COUNT("intersection/disjoint-separated");
      if (!null_components || !null_equal)
        c.bad("intersection", touching ? "touching-not-null" : "disjoint-not-null", what() + " result=" + show<N>(ro) + (null_equal ? "" : " (result != null box)"));
    }
    if (null_components != null_equal)
      c.bad("intersection", "null-equality", what() + " result=" + show<N>(ro) + " result==null() is " + (null_equal ? "true" : "false"));
  }
  // intersects: for non-empty boxes exactly when a common point exists
  {
    bool const got = fcppt::math::box::intersects(la, lb);
    if (ne)
    {
      ++calls;
      bool const want = common.any();
      if (want)
        VF_COUNT("intersects/true");
      else if (touching)
        VF_COUNT("intersects/false-touching");
      else
        VF_COUNT("intersects/false-separated");
      if (got != want)
        c.bad("intersects", want ? "missed" : (touching ? "touching-reported" : "spurious"), what() + " got=" + (got ? "true" : "false"));
    }
    else if (got)
      VF_COUNT("intersects/skipped-empty-operand-true");
    else
      VF_COUNT("intersects/skipped-empty-operand-false");
  }
  // contains(outer = a, inner = b): for non-empty inner exactly when inner is a subset
  {
    bool const got = fcppt::math::box::contains(la, lb);
    if (B.any())
    {
      ++calls;
      bool const want = (B & ~A).none();
      bool shared = false;
      for (dim_t i = 0; i < N; ++i)
        shared = shared || a.lo[i] == b.lo[i] || a.hi[i] == b.hi[i];
      if (want && shared)
        VF_COUNT("contains/true-shared-face");
      else if (want)
        VF_COUNT("contains/true-strictly-inside");
      else
        VF_COUNT("contains/false");
      if (got != want)
        c.bad("contains", want ? (shared ? "missed-shared-face" : "missed") : "spurious", "outer=" + show<N>(a) + " inner=" + show<N>(b) + " got=" + (got ? "true" : "false"));
    }
    else if (got)
      VF_COUNT("contains/skipped-empty-inner-true");
    else
      VF_COUNT("contains/skipped-empty-inner-false");
  }
  // extend_bounding_box of two non-empty boxes: contains both; shrinking any face loses a point
  {
    box const r = fcppt::math::box::extend_bounding_box(la, lb);
    if (ne)
    {
      ++calls;
      VF_COUNT("extend_bounding_box/judged");
      obox<N> const ro = L::ob(r);
      bits<N> const U = A | B;
      if ((U & ~c.ps.of(ro)).any())
        c.bad("extend_bounding_box", "loses-point", what() + " result=" + show<N>(ro));
      else
        for (dim_t i = 0; i < N; ++i)
          for (int side = 0; side < 2; ++side)
          {
            obox<N> s = ro;
            if (side == 0)
              ++s.lo[i];
            else
              --s.hi[i];
            if ((U & ~c.ps.of(s)).none())
            {
              c.bad("extend_bounding_box", "not-smallest", what() + " result=" + show<N>(ro) + " can shrink to " + show<N>(s));
              break;
            }
          }
    }
    else
      VF_COUNT("extend_bounding_box/skipped-empty-operand");
  }
  // observed: distance (interval_distance per axis)
  {
    auto const d1 = L::rd(fcppt::math::box::distance(la, lb));
    auto const d2 = L::rd(fcppt::math::box::distance(lb, la));
    VF_COUNT("observed/distance-pairs");
    if (d1 != d2)
    {
      VF_COUNT("observed/distance-asymmetric-pairs");
      vf::observation(std::string("distance/interval_distance") + " is not symmetric for some pairs (count in bucket observed/distance-asymmetric-pairs; observed only)");
    }
  }
  return calls;
}

// ---- shrink / stretch_absolute (judged), stretch_relative and extend(box,point) (observed)
template <class T, dim_t N>
std::uint64_t judge_resize(ctx<T, N> &c, obox<N> const &a, typename lib<T, N>::box const &la, pt<N> const &v)
{
  using L = lib<T, N>;
  std::uint64_t calls = 0;
  bool neg = false, shrink_wraps = false, stretch_wraps = false;
  for (dim_t i = 0; i < N; ++i)
  {
    neg = neg || v[i] < 0;
    shrink_wraps = shrink_wraps || (c.uns && v[i] > a.hi[i]);
    stretch_wraps = stretch_wraps || (c.uns && v[i] > a.lo[i]);
  }
  if (neg && c.uns)
    return 0;
  auto const lv = L::mkvec(v);
  if (shrink_wraps)
    VF_COUNT("shrink/skipped-unsigned-wrap");
  else
  {
    obox<N> const want{add<N>(a.lo, v), add<N>(a.hi, v, -1)};
    obox<N> const got = L::ob(fcppt::math::box::shrink(la, lv));
    ++calls;
    if (all_lt<N>(want.lo, want.hi))
      VF_COUNT("shrink/nonempty-result");
    else
      VF_COUNT("shrink/empty-result");
    judge_same_points<T, N>(c, "shrink", want, got, "box " + show<N>(a) + " by " + show<N>(v));
  }
  if (stretch_wraps)
    VF_COUNT("stretch_absolute/skipped-unsigned-wrap");
  else
  {
    obox<N> const want{add<N>(a.lo, v, -1), add<N>(a.hi, v)};
    obox<N> const got = L::ob(fcppt::math::box::stretch_absolute(la, lv));
    ++calls;
    if (all_lt<N>(want.lo, want.hi))
      VF_COUNT("stretch_absolute/nonempty-result");
    else
      VF_COUNT("stretch_absolute/empty-result");
    judge_same_points<T, N>(c, "stretch_absolute", want, got, "box " + show<N>(a) + " by " + show<N>(v));
  }
  // round trips through a possibly empty (inverted) intermediate box, signed coordinates: what the intermediate box is
  // as a point set may be "empty", but it is a box with corners, and undoing the resize gives the points of the
  // original box back (shrink and stretch_absolute move each face by exactly v)
  if (!c.uns)
  {
    pt<N> mv{};
    for (dim_t i = 0; i < N; ++i)
      mv[i] = -v[i];
    auto const lmv = L::mkvec(mv);
    obox<N> const back1 = L::ob(fcppt::math::box::stretch_absolute(fcppt::math::box::stretch_absolute(la, lv), lmv));
    obox<N> const back2 = L::ob(fcppt::math::box::shrink(fcppt::math::box::shrink(la, lv), lmv));
    obox<N> const back3 = L::ob(fcppt::math::box::shrink(fcppt::math::box::stretch_absolute(la, lv), lv));
    calls += 3;
    judge_same_points<T, N>(c, "stretch_absolute", a, back1, "round trip: box " + show<N>(a) + " stretched by " + show<N>(v) + " and by its negation");
    judge_same_points<T, N>(c, "shrink", a, back2, "round trip: box " + show<N>(a) + " shrunk by " + show<N>(v) + " and by its negation");
    judge_same_points<T, N>(c, "stretch_absolute", a, back3, "round trip: box " + show<N>(a) + " stretched and shrunk by " + show<N>(v));
    VF_COUNT("resize/round-trips-through-possibly-inverted-boxes");
  }
  bool relative_in_range = !neg;
  for (dim_t i = 0; i < N; ++i) // observed only: keep size*factor far away from overflow
    relative_in_range = relative_in_range && (a.hi[i] - a.lo[i]) * v[i] < (1LL << 30);
  if (relative_in_range)
  {
    // observed: stretch_relative with the same vector as factors
    obox<N> const got = L::ob(fcppt::math::box::stretch_relative(la, lv));
    VF_COUNT("observed/stretch_relative-calls");
    pt<N> gs = add<N>(got.hi, got.lo, -1);
    bool ok = true;
    for (dim_t i = 0; i < N; ++i)
      ok = ok && (c.uns || gs[i] == (a.hi[i] - a.lo[i]) * v[i]);
    if (!ok)
      vf::observation("stretch_relative<" + c.tag + ">: size of the result is not size*factor (observed only)");
  }
  {
    // observed: extend_bounding_box(box, point) with the point pos+v.  The statement names only the
    // two-box form.  Documented: "the same box (if the point is contained in the box) or a box
    // that's just big enough to hold the given point".
    pt<N> p = add<N>(a.lo, v);
    bool ok = true;
    for (dim_t i = 0; i < N; ++i)
      ok = ok && (!c.uns || p[i] >= 0);
    if (ok)
    {
      obox<N> const got = L::ob(fcppt::math::box::extend_bounding_box(la, L::mkvec(p)));
      VF_COUNT("observed/extend-point-calls");
      if (member<N>(a, p))
      {
        if (got.lo != a.lo || got.hi != a.hi)
          vf::observation("extend_bounding_box(box,point)<" + c.tag + ">: a contained point changes the box (observed only)");
      }
      else if (!member<N>(got, p))
      {
        VF_COUNT("observed/extend-point-result-excludes-point");
        vf::observation(std::string("extend_bounding_box(box,point)") +
                        ": for a point at or beyond the max face the result's max equals the point, so under the half-open reading the "
                        "result does not contain the point (count in bucket observed/extend-point-result-excludes-point; the statement names only the two-box form; observed only)");
      }
    }
  }
  return calls;
}

// ------------------------------------------------------------------ entries, N = 1 and 2 (exhaustive)
template <class T, dim_t N>
void exhaustive()
{
  ctx<T, N> c;
  using L = lib<T, N>;
  std::vector<obox<N>> const boxes = all_boxes<N>(c.off - 3, c.off + 3);

  std::string e = "points<" + c.tag + ">";
  if (vf::entry_enabled(e))
  {
    vf::set_entry(e);
    for (std::size_t i = 0; i < boxes.size(); ++i)
    {
      if (!vf::mine(i))
        continue;
      obox<N> const &a = boxes[i];
      if (!vf::begin_case("box=%s all %zu lattice points in [%lld,%lld]^%u", show<N>(a).c_str(), c.lat.total, c.lat.l0, c.lat.l1, N))
        continue;
      vf::sample_case(1);
      vf::note_distinct(hash_box<N>(a, vf::hash_str(e)));
      std::uint64_t n = judge_box<T, N>(c, a, c.lat.pts, true);
      observe_box<T, N>(c, a);
      vf::add_evals(n - 1);
    }
  }

  e = "pairs<" + c.tag + ">";
  if (vf::entry_enabled(e))
  {
    vf::set_entry(e);
    // every row in both tiers (stride is kept as the knob should the quick tier ever need sampling)
    std::size_t const stride = N == 2 ? vf::tier<std::size_t>(1, 1) : 1;
    std::size_t const start = static_cast<std::size_t>(vf::hash_mix(vf::opts().seed, vf::hash_str(e)) % stride);
    std::size_t row = 0;
    for (std::size_t i = start; i < boxes.size(); i += stride, ++row)
    {
      if (!vf::mine(row))
        continue;
      obox<N> const &a = boxes[i];
      if (!vf::begin_case("a=%s b=all %zu boxes with corners in [%lld,%lld] (ops: index of b)", show<N>(a).c_str(), boxes.size(), c.off - 3, c.off + 3))
        continue;
      vf::sample_case(1);
      auto const la = L::mk(a);
      bits<N> const A = c.ps.of(a);
      std::uint64_t n = 0;
      std::uint64_t const ha = hash_box<N>(a, vf::hash_str(e));
      for (std::size_t j = 0; j < boxes.size(); ++j)
      {
        vf::operands(static_cast<ll>(i), static_cast<ll>(j));
        n += judge_pair<T, N>(c, a, la, A, boxes[j]);
        if (A.any() && all_lt<N>(boxes[j].lo, boxes[j].hi))
          vf::note_distinct(hash_box<N>(boxes[j], ha));
      }
      vf::add_evals(n - 1);
    }
  }

  // inverted boxes (max < pos in at least one coordinate, e.g. what shrink returns for a large amount): under the
  // point-set reading they are empty. Judged: contains_point is false everywhere, the intersection with any box has no
  // point, an inverted outer box contains no non-empty inner box. (Whether the intersection is *the null box* is not
  // judged for inverted operands: the statement ties that clause to boxes that "do not intersect".)
  e = "inverted<" + c.tag + ">";
  if (vf::entry_enabled(e))
  {
    vf::set_entry(e);
    std::vector<obox<N>> inv;
    {
      std::vector<std::pair<ll, ll>> iv;
      for (ll lo = c.off - 3; lo <= c.off + 3; ++lo)
        for (ll hi = c.off - 3; hi <= c.off + 3; ++hi)
          iv.emplace_back(lo, hi);
      std::size_t total = 1;
      for (dim_t i = 0; i < N; ++i)
        total *= iv.size();
      for (std::size_t k = 0; k < total; ++k)
      {
        obox<N> b;
        std::size_t q = k;
        bool any_inverted = false;
        for (dim_t i = 0; i < N; ++i)
        {
          b.lo[i] = iv[q % iv.size()].first;
          b.hi[i] = iv[q % iv.size()].second;
          any_inverted = any_inverted || b.hi[i] < b.lo[i];
          q /= iv.size();
        }
        if (any_inverted)
          inv.push_back(b);
      }
    }
    for (std::size_t i = 0; i < inv.size(); ++i)
    {
      if (!vf::mine(i))
        continue;
      obox<N> const &a = inv[i];
      if (!vf::begin_case("inverted box=%s all lattice points, every 5th regular box", show<N>(a).c_str()))
        continue;
      vf::sample_case(1);
      vf::note_distinct(hash_box<N>(a, vf::hash_str(e)));
      auto const la = L::mk(a);
      std::uint64_t n = 0;
      // size / pos / max stay consistent for an inverted box too: pos + size is max (in the arithmetic of T), and the
      // box made from (pos, size) is the same box - nothing that is empty becomes non-empty on the way
      // (not for vf::natural: the size of an inverted box is negative, which that scalar cannot represent - a built-in
      // unsigned type wraps, and wraps back)
      if constexpr (!std::is_same_v<T, vf::natural>)
      {
        using box_t = typename L::box;
        auto const back = la.pos() + la.size();
        box_t const again(la.pos(), la.size());
        bool same = true;
        for (dim_t k = 0; k < N; ++k)
          same = same && back.get_unsafe(k) == la.max().get_unsafe(k) && again.max().get_unsafe(k) == la.max().get_unsafe(k) && again.pos().get_unsafe(k) == la.pos().get_unsafe(k);
        VF_COUNT("size/inverted-box-consistency");
        if (!same)
          c.bad("size", "inverted-box/pos-plus-size-is-not-max", "box " + show<N>(a));
      }
      for (auto const &p : c.lat.pts)
      {
        ++n;
        if (fcppt::math::box::contains_point(la, L::mkvec(p)))
        {
          c.bad("contains_point", "point-in-inverted-box", "box " + show<N>(a) + " point " + show<N>(p));
          break;
        }
      }
      VF_COUNT("contains_point/inverted-box");
      for (std::size_t j = i % 5; j < boxes.size(); j += 5)
      {
        obox<N> const &b = boxes[j];
        auto const lb = L::mk(b);
        for (int order = 0; order < 2; ++order)
        {
          ++n;
          obox<N> const r = L::ob(order == 0 ? fcppt::math::box::intersection(la, lb) : fcppt::math::box::intersection(lb, la));
          if (c.ps.of(r).any())
            c.bad("intersection", "inverted-operand/extra-points", "a=" + show<N>(a) + " b=" + show<N>(b) + " got=" + show<N>(r));
        }
        VF_COUNT("intersection/inverted-operand");
        if (all_lt<N>(b.lo, b.hi))
        {
          ++n;
          if (fcppt::math::box::contains(la, lb))
            c.bad("contains", "inverted-outer-contains-nonempty-inner", "outer=" + show<N>(a) + " inner=" + show<N>(b));
          VF_COUNT("contains/inverted-outer");
        }
      }
      vf::add_evals(n - 1);
    }
  }

  e = "resize<" + c.tag + ">";
  if (vf::entry_enabled(e))
  {
    vf::set_entry(e);
    std::vector<pt<N>> const vs = all_vectors<N>(c.uns ? 0 : -3, 3);
    for (std::size_t i = 0; i < boxes.size(); ++i)
    {
      if (!vf::mine(i))
        continue;
      obox<N> const &a = boxes[i];
      if (!vf::begin_case("box=%s by all %zu vectors in [%d,3]^%u (ops: index of the vector)", show<N>(a).c_str(), vs.size(), c.uns ? 0 : -3, N))
        continue;
      vf::sample_case(1);
      vf::note_distinct(hash_box<N>(a, vf::hash_str(e)));
      auto const la = L::mk(a);
      std::uint64_t n = 0;
      for (std::size_t j = 0; j < vs.size(); ++j)
      {
        vf::operands(static_cast<ll>(i), static_cast<ll>(j));
        n += judge_resize<T, N>(c, a, la, vs[j]);
      }
      vf::add_evals(n ? n - 1 : 0);
    }
  }
}

// ------------------------------------------------------------------ entries, N = 3 (random)
template <class T>
obox<3> random_small_box(vf::rng &g, ll off)
{
  obox<3> b{};
  bool const force_nonempty = g.chance(1, 2);
  for (dim_t i = 0; i < 3; ++i)
  {
    ll x, y;
    do
    {
      x = g.range(off - 3, off + 3);
      y = g.range(off - 3, off + 3);
    } while (force_nonempty && x == y);
    b.lo[i] = std::min(x, y);
    b.hi[i] = std::max(x, y);
  }
  return b;
}

template <class T>
void random3_small()
{
  constexpr dim_t N = 3;
  ctx<T, N> c;
  using L = lib<T, N>;
  std::string const e = "random3<" + c.tag + ">";
  if (!vf::entry_enabled(e))
    return;
  vf::set_entry(e);
  std::size_t const total = vf::tier<std::size_t>(12000, 800000);
  for (std::size_t i = 0; i < total; ++i)
  {
    if (!vf::mine(i))
      continue;
    vf::rng g(vf::hash_mix(vf::hash_mix(vf::opts().seed, vf::hash_str(e)), i));
    obox<N> const a = random_small_box<T>(g, c.off), b = random_small_box<T>(g, c.off);
    pt<N> v{};
    for (dim_t k = 0; k < N; ++k)
      v[k] = g.range(c.uns ? 0 : -2, 2);
    // points: every combination of coordinates next to a's faces, plus random lattice points
    std::vector<pt<N>> points;
    for (unsigned m = 0; m < 64; ++m)
    {
      pt<N> p{};
      bool ok = true;
      for (dim_t k = 0; k < N; ++k)
      {
        unsigned const s = (m >> (2 * k)) & 3U;
        p[k] = s == 0 ? a.lo[k] - 1 : s == 1 ? a.lo[k] : s == 2 ? a.hi[k] - 1 : a.hi[k];
        ok = ok && p[k] >= c.lat.l0;
      }
      if (ok)
        points.push_back(p);
    }
    for (int k = 0; k < 16; ++k)
      points.push_back(c.lat.pts[g.below(c.lat.total)]);
    if (!vf::begin_case("i=%zu a=%s b=%s v=%s points=%zu", i, show<N>(a).c_str(), show<N>(b).c_str(), show<N>(v).c_str(), points.size()))
      continue;
    vf::sample_case(2);
    vf::note_distinct(hash_pt<N>(v, hash_box<N>(b, hash_box<N>(a, vf::hash_str(e)))));
    auto const la = L::mk(a);
    std::uint64_t n = judge_box<T, N>(c, a, points, true);
    n += judge_pair<T, N>(c, a, la, c.ps.of(a), b);
    n += judge_resize<T, N>(c, a, la, v);
    if (i % 8 == 0)
      observe_box<T, N>(c, a);
    vf::add_evals(n - 1);
    VF_COUNT("random3/small-cases");
  }
}

// 3-D boxes with large coordinates: no lattice can cover them, so point sets are compared on the
// points that can tell two boxes apart (every combination of coordinates next to a face of an
// operand) and on the extreme points of the operands.
template <class T>
void random3_wide()
{
  constexpr dim_t N = 3;
  ctx<T, N> c;
  using L = lib<T, N>;
  using box = typename L::box;
  std::string const e = "random3-wide<" + c.tag + ">";
  if (!vf::entry_enabled(e))
    return;
  vf::set_entry(e);
  std::size_t const total = vf::tier<std::size_t>(4000, 200000);
  ll const range = 1000000, base = c.uns ? range + 10 : 0;
  for (std::size_t i = 0; i < total; ++i)
  {
    if (!vf::mine(i))
      continue;
    vf::rng g(vf::hash_mix(vf::hash_mix(vf::opts().seed, vf::hash_str(e)), i));
    obox<N> a{}, b{};
    pt<N> v{};
    std::array<std::vector<ll>, N> cand;
    bool const nested = g.chance(1, 4);
    for (dim_t k = 0; k < N; ++k)
    {
      // a small pool of coordinates per axis makes coinciding and touching faces frequent
      std::array<ll, 4> pool{};
      for (auto &x : pool)
        x = base + g.range(-range, range);
      auto draw = [&]() { return g.pick(pool) + g.range(-1, 1) * static_cast<ll>(g.chance(1, 3)); };
      ll x = draw(), y = draw();
      a.lo[k] = std::min(x, y);
      a.hi[k] = std::max(x, y);
      x = draw();
      y = draw();
      b.lo[k] = std::min(x, y);
      b.hi[k] = std::max(x, y);
      if (nested && a.hi[k] - a.lo[k] >= 4)
      {
        // b inside a or sharing faces with a (so that contains() is true reasonably often)
        b.lo[k] = a.lo[k] + g.range(0, 2) * static_cast<ll>(g.chance(1, 2));
        b.hi[k] = a.hi[k] - g.range(0, 2) * static_cast<ll>(g.chance(1, 2));
      }
      v[k] = g.chance(1, 2) ? g.range(c.uns ? 0 : -3, 3) : g.range(c.uns ? 0 : -5000, 5000);
      for (ll f : {a.lo[k], a.hi[k], b.lo[k], b.hi[k]})
      {
        cand[k].push_back(f - 1);
        cand[k].push_back(f);
      }
    }
    if (!vf::begin_case("i=%zu a=%s b=%s v=%s", i, show<N>(a).c_str(), show<N>(b).c_str(), show<N>(v).c_str()))
      continue;
    vf::sample_case(2);
    vf::note_distinct(hash_pt<N>(v, hash_box<N>(b, hash_box<N>(a, vf::hash_str(e)))));
    VF_COUNT("random3/wide-cases");
    std::vector<pt<N>> points;
    for (unsigned m = 0; m < 512; ++m)
      points.push_back(pt<N>{cand[0][m & 7U], cand[1][(m >> 3) & 7U], cand[2][(m >> 6) & 7U]});
    box const la = L::mk(a), lb = L::mk(b);
    std::uint64_t n = judge_box<T, N>(c, a, points, false);
    bool const ane = all_lt<N>(a.lo, a.hi), bne = all_lt<N>(b.lo, b.hi), ne = ane && bne;
    auto what = [&]() { return "a=" + show<N>(a) + " b=" + show<N>(b); };
    // a common point exists iff one of the candidate points is in both (the smallest common point
    // has, per axis, the minimum coordinate of one of the operands)
    bool common = false;
    for (auto const &p : points)
      common = common || (member<N>(a, p) && member<N>(b, p));
    {
      box const r = fcppt::math::box::intersection(la, lb);
      obox<N> const ro = L::ob(r);
      ++n;
      // candidates next to the result's faces as well, so that a wrong face is seen
      std::vector<pt<N>> pts2 = points;
      for (unsigned m = 0; m < 64; ++m)
      {
        pt<N> p{};
        for (dim_t k = 0; k < N; ++k)
        {
          unsigned const s = (m >> (2 * k)) & 3U;
          p[k] = s == 0 ? ro.lo[k] - 1 : s == 1 ? ro.lo[k] : s == 2 ? ro.hi[k] - 1 : ro.hi[k];
        }
        pts2.push_back(p);
      }
      for (auto const &p : pts2)
      {
        bool const want = member<N>(a, p) && member<N>(b, p), got = member<N>(ro, p);
        if (want != got)
        {
          c.bad("intersection", got ? "extra-points" : "missing-points", what() + " result=" + show<N>(ro) + " point " + show<N>(p));
          break;
        }
      }
      bool const nullc = is_zero<N>(ro.lo) && is_zero<N>(ro.hi), nulle = r == fcppt::math::box::null<box>();
      if (ne && !common)
      {
        VF_COUNT("random3/wide-disjoint");
        if (!nullc || !nulle)
          c.bad("intersection", "disjoint-not-null", what() + " result=" + show<N>(ro));
      }
      else if (ne)
        VF_COUNT("random3/wide-common-points");
      if (nullc != nulle)
        c.bad("intersection", "null-equality", what() + " result=" + show<N>(ro));
    }
    if (ne)
    {
      ++n;
      bool const got = fcppt::math::box::intersects(la, lb);
      if (got != common)
        c.bad("intersects", common ? "missed" : "spurious", what() + " got=" + (got ? "true" : "false"));
    }
    if (bne)
    {
      // a box is convex: b is a subset of a iff its smallest and its largest point are in a
      ++n;
      pt<N> top = b.hi;
      for (dim_t k = 0; k < N; ++k)
        --top[k];
      bool const want = member<N>(a, b.lo) && member<N>(a, top);
      bool const got = fcppt::math::box::contains(la, lb);
      if (want)
        VF_COUNT("random3/wide-contains-true");
      if (got != want)
        c.bad("contains", want ? "missed" : "spurious", "outer=" + show<N>(a) + " inner=" + show<N>(b) + " got=" + (got ? "true" : "false"));
    }
    if (ne)
    {
      ++n;
      obox<N> const ro = L::ob(fcppt::math::box::extend_bounding_box(la, lb));
      std::vector<pt<N>> ext;
      for (obox<N> const *o : {&a, &b})
      {
        pt<N> top = o->hi;
        for (dim_t k = 0; k < N; ++k)
          --top[k];
        ext.push_back(o->lo);
        ext.push_back(top);
      }
      bool ok = true;
      for (auto const &p : ext)
        ok = ok && member<N>(ro, p);
      if (!ok)
        c.bad("extend_bounding_box", "loses-point", what() + " result=" + show<N>(ro));
      else
        for (dim_t k = 0; k < N; ++k)
          for (int side = 0; side < 2; ++side)
          {
            obox<N> s = ro;
            if (side == 0)
              ++s.lo[k];
            else
              --s.hi[k];
            bool lost = false;
            for (auto const &p : ext)
              lost = lost || !member<N>(s, p);
            if (!lost)
            {
              c.bad("extend_bounding_box", "not-smallest", what() + " result=" + show<N>(ro) + " can shrink to " + show<N>(s));
              break;
            }
          }
    }
    // shrink / stretch_absolute on faces (the lattice part of judge_same_points sees nothing here)
    n += judge_resize<T, N>(c, a, la, v);
    vf::add_evals(n - 1);
  }
}


// ---- floating point coordinates.  intersection and extend_bounding_box only SELECT among the corner coordinates of
// their operands (largest of the mins, smallest of the maxes ...): under the half-open reading the result is exact for
// every coordinate value, however badly it behaves under + and -.  contains_point / contains / intersects are pure
// comparisons.  Coordinates are drawn from values for which x + (y - x) != y is common (0.1, 0.9, 1e16, 1e-9 ...).
template <class F>
void float_selection(char const *fname)
{
  constexpr dim_t N = 2;
  using box = fcppt::math::box::object<F, N>;
  using vec = typename box::vector;
  std::string const e = std::string("float-selection<") + fname + ",2>";
  if (!vf::entry_enabled(e))
    return;
  vf::set_entry(e);
  std::vector<F> const pool{F(-1e16), F(-3.3), F(-0.9), F(-0.1), F(-1e-9), F(0), F(1e-9), F(0.1), F(0.3), F(0.7), F(0.9), F(1), F(1.1), F(2.5), F(1e16), F(3e16)};
  std::size_t const total = vf::tier<std::size_t>(6000, 300000);
  for (std::size_t i = 0; i < total; ++i)
  {
    if (!vf::mine(i))
      continue;
    vf::rng g(vf::hash_mix(vf::hash_mix(vf::opts().seed, vf::hash_str(e)), i));
    std::array<F, N> alo{}, ahi{}, blo{}, bhi{};
    for (dim_t k = 0; k < N; ++k)
    {
      F x = g.pick(pool), y = g.pick(pool);
      alo[k] = std::min(x, y);
      ahi[k] = std::max(x, y);
      x = g.pick(pool);
      y = g.pick(pool);
      blo[k] = std::min(x, y);
      bhi[k] = std::max(x, y);
    }
    if (!vf::begin_case("i=%zu a=[(%.17g,%.17g),(%.17g,%.17g)) b=[(%.17g,%.17g),(%.17g,%.17g))", i, double(alo[0]), double(alo[1]), double(ahi[0]),
                        double(ahi[1]), double(blo[0]), double(blo[1]), double(bhi[0]), double(bhi[1])))
      continue;
    vf::sample_case(1);
    vf::note_distinct(vf::hash_mix(vf::hash_str(e), vf::hash_mix(vf::hash_bytes(alo.data(), sizeof alo) ^ vf::hash_bytes(ahi.data(), sizeof ahi),
                                                                  vf::hash_bytes(blo.data(), sizeof blo) ^ (vf::hash_bytes(bhi.data(), sizeof bhi) << 1))));
    box const a(vec(alo[0], alo[1]), vec(ahi[0], ahi[1])), b(vec(blo[0], blo[1]), vec(bhi[0], bhi[1]));
    auto const bad = [&](char const *fn, char const *cls, std::string const &d) {
      vf::violation(std::string(fn) + "/" + fname + ",2/" + cls, "mismatch", d + " case: " + vf::current_case());
    };
    auto const showb = [](box const &x) {
      char buf[160];
      std::snprintf(buf, sizeof buf, "[(%.17g,%.17g),(%.17g,%.17g))", double(x.pos().x()), double(x.pos().y()), double(x.max().x()), double(x.max().y()));
      return std::string(buf);
    };
    bool a_ne = true, b_ne = true, common = true;
    std::array<F, N> ilo{}, ihi{}, elo{}, ehi{};
    for (dim_t k = 0; k < N; ++k)
    {
      a_ne = a_ne && alo[k] < ahi[k];
      b_ne = b_ne && blo[k] < bhi[k];
      ilo[k] = std::max(alo[k], blo[k]);
      ihi[k] = std::min(ahi[k], bhi[k]);
      elo[k] = std::min(alo[k], blo[k]);
      ehi[k] = std::max(ahi[k], bhi[k]);
      common = common && ilo[k] < ihi[k];
    }
    VF_COUNT("float-selection/cases");
    // what was stored is what is read back
    if (a.pos().x() != alo[0] || a.pos().y() != alo[1] || a.max().x() != ahi[0] || a.max().y() != ahi[1])
      bad("box::object(pos,max)", "corners-changed", showb(a));
    if (a_ne && b_ne)
    {
      bool const is = fcppt::math::box::intersects(a, b);
      if (is != common)
        bad("intersects", common ? "false-for-common-points" : "true-without-common-point", "");
      box const r = fcppt::math::box::intersection(a, b);
      if (common)
      {
        VF_COUNT("float-selection/common-points");
        if (r.pos().x() != ilo[0] || r.pos().y() != ilo[1] || r.max().x() != ihi[0] || r.max().y() != ihi[1])
          bad("intersection", "not-the-common-points", "got " + showb(r));
      }
      else if (r.pos().x() < r.max().x() && r.pos().y() < r.max().y())
        bad("intersection", "disjoint-not-empty", "got " + showb(r));
      box const x = fcppt::math::box::extend_bounding_box(a, b);
      VF_COUNT("float-selection/extend");
      if (x.pos().x() != elo[0] || x.pos().y() != elo[1] || x.max().x() != ehi[0] || x.max().y() != ehi[1])
        bad("extend_bounding_box", "not-the-smallest-box", "got " + showb(x));
      if (!fcppt::math::box::contains(x, a) || !fcppt::math::box::contains(x, b))
        bad("extend_bounding_box", "does-not-contain-an-operand", "got " + showb(x));
      bool sub = true;
      for (dim_t k = 0; k < N; ++k)
        sub = sub && alo[k] <= blo[k] && bhi[k] <= ahi[k];
      if (fcppt::math::box::contains(a, b) != sub)
        bad("contains", sub ? "false-for-subset" : "true-for-non-subset", "");
    }
    // membership of the operands' corner coordinates (all combinations)
    for (F px : {alo[0], ahi[0], blo[0], bhi[0]})
      for (F py : {alo[1], ahi[1], blo[1], bhi[1]})
      {
        bool const in = alo[0] <= px && px < ahi[0] && alo[1] <= py && py < ahi[1];
        if (fcppt::math::box::contains_point(a, vec(px, py)) != in)
          bad("contains_point", in ? "member-rejected" : "non-member-accepted", "");
      }
  }
}


// A box one of whose bounds is NaN contains no point at all (pos <= p < max is false in that coordinate for every p): it is
// an empty box.  contains_point is false everywhere, and an intersection with it contains no point, in either order.
template <class F>
void nan_boxes(char const *fname)
{
  constexpr dim_t N = 2;
  using box = fcppt::math::box::object<F, N>;
  using vec = typename box::vector;
  std::string const e = std::string("nan-bounds<") + fname + ",2>";
  if (!vf::entry_enabled(e) || !vf::mine(vf::hash_str(e)))
    return;
  vf::set_entry(e);
  if (!vf::begin_case("boxes with one NaN bound against all boxes with corners in {0,5,10}^2"))
    return;
  vf::sample_case(1);
  F const nan = std::numeric_limits<F>::quiet_NaN();
  std::vector<F> const g{F(0), F(5), F(10)};
  std::vector<box> plain, broken;
  for (F x0 : g)
    for (F x1 : g)
      for (F y0 : g)
        for (F y1 : g)
          if (x0 < x1 && y0 < y1)
            plain.push_back(box(vec(x0, y0), vec(x1, y1)));
  for (unsigned which = 0; which < 4; ++which)
  {
    std::array<F, 4> c{F(0), F(0), F(5), F(5)};
    c[which] = nan;
    broken.push_back(box(vec(c[0], c[1]), vec(c[2], c[3])));
  }
  std::vector<F> const probes{F(-1), F(0), F(1), F(2.5), F(4.9), F(5), F(7), F(10)};
  unsigned k = 0;
  for (box const &nb : broken)
  {
    vf::note_distinct(vf::hash_mix(vf::hash_str(e), k++));
    for (F px : probes)
      for (F py : probes)
        if (fcppt::math::box::contains_point(nb, vec(px, py)))
          vf::violation(std::string("contains_point/") + fname + ",2/member-of-a-box-with-a-NaN-bound", "mismatch", "bound #" + std::to_string(k - 1));
    for (box const &pb : plain)
      for (int order = 0; order < 2; ++order)
      {
        box const r = order == 0 ? fcppt::math::box::intersection(pb, nb) : fcppt::math::box::intersection(nb, pb);
        VF_COUNT("nan-bounds/intersections");
        for (F px : probes)
          for (F py : probes)
            if (fcppt::math::box::contains_point(r, vec(px, py)))
            {
              vf::violation(std::string("intersection/") + fname + ",2/points-although-one-operand-has-a-NaN-bound", "mismatch",
                            "NaN in bound #" + std::to_string(k - 1) + (order == 0 ? " (second operand)" : " (first operand)"));
              px = py = F(1e9); // one report per pair
              break;
            }
      }
  }
  vf::add_evals(broken.size() * plain.size() * 2);
}


// contains(outer, inner) for NON-EMPTY inner boxes whose volume (the product of their edge lengths) is not representable:
// 65536 x 65536 wraps to 0 in 32-bit unsigned, 1e-30 x 1e-30 underflows to 0 in float.  Such a box has points; whether it
// lies inside outer is decided by its faces.
template <class T>
void zero_volume_inner(char const *tname, T edge)
{
  constexpr dim_t N = 2;
  using box = fcppt::math::box::object<T, N>;
  using vec = typename box::vector;
  std::string const e = std::string("contains/non-empty-inner-with-unrepresentable-volume<") + tname + ",2>";
  if (!vf::entry_enabled(e) || !vf::mine(vf::hash_str(e)))
    return;
  vf::set_entry(e);
  if (!vf::begin_case("inner boxes with edge %s x %s against outer boxes that do / do not contain them", tname, tname))
    return;
  T const zero = T(0);
  struct sample
  {
    box outer, inner;
    bool want;
  };
  T const e2 = edge + edge;
  std::vector<sample> const samples{
      {box(vec(zero, zero), vec(e2, e2)), box(vec(zero, zero), vec(edge, edge)), true},
      {box(vec(zero, zero), vec(edge, edge)), box(vec(zero, zero), vec(edge, edge)), true},
      {box(vec(zero, zero), vec(edge, edge)), box(vec(edge, edge), vec(e2, e2)), false},
      {box(vec(edge, edge), vec(e2, e2)), box(vec(zero, zero), vec(edge, edge)), false},
  };
  unsigned k = 0;
  for (sample const &sm : samples)
  {
    vf::note_distinct(vf::hash_mix(vf::hash_str(e), k));
    VF_COUNT("contains/unrepresentable-volume-cases");
    if (fcppt::math::box::contains(sm.outer, sm.inner) != sm.want)
      vf::violation(std::string("contains/") + tname + ",2/" + (sm.want ? "false-for-subset" : "true-for-non-subset") + "(volume-of-inner-not-representable)", "mismatch", "sample #" + std::to_string(k));
    ++k;
  }
  vf::add_evals(samples.size());
}

#ifndef VF_SLICE
#define VF_SLICE -2 // single translation unit build: everything
#endif
#define VF_IN_SLICE(i) (VF_SLICE == (i) || VF_SLICE == -2)

template <class T>
void all_for_type()
{
  exhaustive<T, 1>();
  exhaustive<T, 2>();
  random3_small<T>();
  random3_wide<T>();
}
}

#if VF_IN_SLICE(0)
void vf_slice_0() { all_for_type<int>(); }
#endif
#if VF_IN_SLICE(1)
void vf_slice_1() { all_for_type<long>(); }
#endif
#if VF_IN_SLICE(2)
void vf_slice_2() { all_for_type<unsigned>(); }
#endif
#if VF_IN_SLICE(3)
// a scalar whose move is not a copy (common/heavy.hpp): a moved-from operand reads as 7777
void vf_slice_3()
{
  all_for_type<vf::heavy>();
  // natural numbers: negation is not the additive inverse; every judged call has a representable (natural) result
  all_for_type<vf::natural>();
  // (intermediate results below zero are counted, not judged: the observed-only neighbours - center, distance,
  // stretch_relative ... - run on the same operands and legitimately leave the naturals; a judged function that does
  // so shows as a wrong value, because the subtraction saturates)
  vf::count("natural/observed/intermediate-results-below-zero(all functions)", vf::natural_domain_errors());
  vf::count("natural/judged-with-a-scalar-without-negatives");
  float_selection<double>("double");
  float_selection<float>("float");
  nan_boxes<double>("double");
  nan_boxes<float>("float");
  zero_volume_inner<unsigned>("unsigned", 65536U);
  zero_volume_inner<float>("float", 1e-30F);
  vf::count("heavy/constructed", vf::heavy_stats().constructed);
  vf::count("heavy/moved", vf::heavy_stats().moved);
  vf::count("heavy/moved-from-reads(observed)", vf::heavy_stats().moved_from_reads);
}
#endif

#if VF_SLICE < 0
void vf_slice_0();
void vf_slice_1();
void vf_slice_2();
void vf_slice_3();
namespace
{
void body()
{
  for (char const *b :
       {"size-pos-max/boxes", "size/nonempty-box", "size/empty-box", "corner_points/boxes", "contains_point/inside-on-min-face",
        "contains_point/inside-interior", "contains_point/outside-on-max-face", "contains_point/outside-on-empty-box", "contains_point/inverted-box", "intersection/inverted-operand", "contains/inverted-outer",
        "contains_point/outside-exterior", "intersection/empty-operand", "intersection/common-points",
        "intersection/disjoint-touching", "intersection/disjoint-separated", "intersects/true", "intersects/false-touching",
        "intersects/false-separated", "contains/true-shared-face", "contains/true-strictly-inside", "contains/false",
        "extend_bounding_box/judged", "shrink/nonempty-result", "shrink/empty-result", "stretch_absolute/nonempty-result",
        "stretch_absolute/empty-result", "random3/small-cases", "random3/wide-cases", "random3/wide-disjoint",
        "random3/wide-common-points", "random3/wide-contains-true", "float-selection/common-points", "float-selection/extend"})
    vf::require_bucket(b);
  vf_slice_0();
  vf_slice_1();
  vf_slice_2();
  vf_slice_3();
}
}
VF_MAIN(body)
#endif
