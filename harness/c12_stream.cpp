// C12: parse stream positions (offset, line, column), exact rewinds, error locations, failing streams.
// Oracle computed FROM THE DEFINITION for an offset i in text t, never incrementally:
//   line = 1 + count('\n', t[0,i));  column = i - (index of last '\n' before i, or -1);  next char = t[i] or nothing.
#include <vf.hpp>

#include <fcppt/make_ref.hpp>
#include <fcppt/reference_to_base.hpp>
#include <fcppt/parse/basic_char_set.hpp>
#include <fcppt/parse/basic_literal.hpp>
#include <fcppt/parse/basic_stream_impl.hpp>
#include <fcppt/parse/basic_string.hpp>
#include <fcppt/parse/operators/alternative.hpp>
#include <fcppt/parse/error_impl.hpp>
#include <fcppt/parse/location.hpp>
#include <fcppt/parse/phrase_parse.hpp>
#include <fcppt/parse/phrase_parse_stream.hpp>
#include <fcppt/parse/position.hpp>
#include <fcppt/parse/detail/stream_impl.hpp>
#include <fcppt/parse/skipper/basic_char_set.hpp>
#include <fcppt/parse/skipper/operators/repetition.hpp>
#include <fcppt/parse/operators/sequence.hpp>
#include <fcppt/parse/basic_char_set_container.hpp>
#include <fcppt/parse/skipper/basic_literal.hpp>
#include <fcppt/parse/skipper/epsilon.hpp>

#include <cinttypes>
#include <codecvt>
#include <cstdio>
#include <cstdlib>
#include <fstream>
#include <locale>
#include <map>
#include <sstream>
#include <streambuf>
#include <typeinfo>
#include <string>
#include <vector>

namespace
{
template <class Ch>
char const *cn()
{
  return sizeof(Ch) == 1 ? "char" : "wchar_t";
}
template <class Ch>
std::string narrow_show(std::basic_string<Ch> const &t)
{
  std::string r;
  for (Ch c : t)
  {
    if (c == Ch('\n'))
      r += "\\n";
    else if (c == Ch('\t'))
      r += "\\t";
    else if (c == Ch('\r'))
      r += "\\r";
    else if (c == Ch(' '))
      r += "_";
    else if (static_cast<unsigned long>(c) < 0x20 || static_cast<unsigned long>(c) >= 0x7f)
    {
      char b[16];
      std::snprintf(b, sizeof b, "\\x%lX", static_cast<unsigned long>(c) & (sizeof(Ch) == 1 ? 0xFFUL : 0xFFFFFFFFUL));
      r += b;
    }
    else
      r += static_cast<char>(c);
  }
  return r;
}

template <class Ch>
struct oracle
{
  std::basic_string<Ch> const &t;
  unsigned line(std::size_t i) const
  {
    unsigned l = 1;
    for (std::size_t k = 0; k < i; ++k)
      if (t[k] == Ch('\n'))
        ++l;
    return l;
  }
  unsigned column(std::size_t i) const
  {
    long last = -1;
    for (std::size_t k = 0; k < i; ++k)
      if (t[k] == Ch('\n'))
        last = static_cast<long>(k);
    return static_cast<unsigned>(static_cast<long>(i) - last);
  }
};

template <class Ch>
struct checker
{
  using Str = std::basic_string<Ch>;
  using stream_t = fcppt::parse::detail::stream<Ch>;
  using pos_t = fcppt::parse::position<Ch>;
  Str const &t;
  stream_t &st;
  oracle<Ch> o;
  std::string e;
  bool ok = true;
  // offsets of a wide file stream with a variable-width external encoding are positions in the FILE (opaque to the
  // reader): there only their consistency is judged - the same character index always has the same offset, different
  // indexes have different offsets - next to line, column, the characters read and the exactness of every restore
  bool opaque_offsets = false;
  std::map<std::size_t, std::streamoff> seen_offsets;

  checker(Str const &text, stream_t &s, std::string const &entry) : t(text), st(s), o{text}, e(entry) {}

  void fail(std::string const &cls, std::string const &d)
  {
    vf::violation(e + "/" + cls, "mismatch", d + " text=\"" + narrow_show(t) + "\"");
    ok = false;
  }
  pos_t check_position(std::size_t i, char const *ctx)
  {
    pos_t p = st.get_position();
    VF_COUNT("stream/positions-checked");
    if (opaque_offsets)
    {
      std::streamoff const off = std::streamoff(p.pos());
      auto const ins = seen_offsets.emplace(i, off);
      if (!ins.second && ins.first->second != off)
        fail(std::string(ctx) + "/offset-not-stable", "character index " + std::to_string(i) + " had offset " + std::to_string(ins.first->second) + ", now " + std::to_string(off));
      for (auto const &kv : seen_offsets)
        if (kv.first != i && kv.second == off)
          fail(std::string(ctx) + "/offset-not-injective", "character indexes " + std::to_string(kv.first) + " and " + std::to_string(i) + " share offset " + std::to_string(off));
    }
    else if (static_cast<std::size_t>(std::streamoff(p.pos())) != i)
      fail(std::string(ctx) + "/offset", "offset got=" + std::to_string(std::streamoff(p.pos())) + " want=" + std::to_string(i));
    if (!p.location().has_value())
      fail(std::string(ctx) + "/location-missing", "no location");
    else
    {
      auto loc = p.location().get_unsafe();
      if (loc.line().get() != o.line(i) || loc.column().get() != o.column(i))
        fail(std::string(ctx) + "/location",
             "at offset " + std::to_string(i) + " got " + std::to_string(loc.line().get()) + ":" + std::to_string(loc.column().get()) +
                 " want " + std::to_string(o.line(i)) + ":" + std::to_string(o.column(i)));
    }
    return p;
  }
  // reads one char at model offset i; returns the new offset
  std::size_t read(std::size_t i, char const *ctx)
  {
    auto c = st.get_char();
    VF_COUNT("stream/reads");
    if (i < t.size())
    {
      if (!c.has_value() || c.get_unsafe() != t[i])
        fail(std::string(ctx) + "/char", "at offset " + std::to_string(i) + (c.has_value() ? " wrong character" : " nothing"));
      return i + 1;
    }
    VF_COUNT("stream/reads-at-eof");
    if (c.has_value())
      fail(std::string(ctx) + "/char-at-end-of-input", "a character was produced at end of input");
    return i;
  }
};

template <class Ch>
std::basic_string<Ch> location_prefix(unsigned line, unsigned col)
{
  std::basic_ostringstream<Ch> w;
  w << "Line " << line << ":" << col << ": ";
  return w.str();
}

// the systematic pass for one text
template <class Ch>
void systematic(std::basic_string<Ch> const &t, std::string const &e, vf::rng *g, unsigned interleavings)
{
  using Str = std::basic_string<Ch>;
  std::basic_istringstream<Ch> iss(t);
  fcppt::parse::detail::stream<Ch> st{fcppt::reference_to_base<std::basic_istream<Ch>>(fcppt::make_ref(iss))};
  checker<Ch> c(t, st, e);
  std::size_t const len = t.size();
  std::vector<fcppt::parse::position<Ch>> saved;
  // forward pass, reading past the end twice
  std::size_t i = 0;
  for (;;)
  {
    saved.push_back(c.check_position(i, "forward"));
    if (i == len)
      break;
    i = c.read(i, "forward");
    if (!c.ok)
      return;
  }
  c.read(len, "forward-eof");
  c.read(len, "forward-eof-again");
  c.check_position(len, "after-eof");
  if (!c.ok)
    return;
  // every saved position: restore, compare, read to the end (the next restore then follows a failed read directly)
  for (std::size_t s = 0; s <= len && c.ok; ++s)
  {
    st.set_position(saved[s]);
    VF_COUNT("stream/restores");
    if (s > 0 && s < len)
    {
      bool crosses = false;
      for (std::size_t k = s; k < len; ++k)
        if (t[k] == Ch('\n'))
          crosses = true;
      if (crosses)
        VF_COUNT("stream/rewind-across-newline");
    }
    VF_COUNT("stream/restore-directly-after-eof-read");
    // alternate: half of the restores are followed by a read first, half by a position query first
    std::size_t k = s;
    if (s % 2 == 0)
      c.check_position(k, "restored");
    while (c.ok)
    {
      std::size_t n = c.read(k, "restored-read");
      if (n == k)
        break;
      k = n;
      if ((k + s) % 3 == 0)
        c.check_position(k, "restored-read");
    }
  }
  // restore, then query the position immediately after the failed read, then restore again (second restore)
  if (c.ok && len > 0)
  {
    st.set_position(saved[len / 2]);
    st.set_position(saved[0]);
    VF_COUNT("stream/double-restore");
    c.check_position(0, "double-restore");
    std::size_t k = c.read(0, "double-restore");
    c.check_position(k, "double-restore");
  }
  // random interleavings of get_char / get_position(save) / set_position(saved)
  if (g != nullptr)
    for (unsigned r = 0; r < interleavings && c.ok; ++r)
    {
      st.set_position(saved[0]);
      std::size_t k = 0;
      std::vector<std::pair<std::size_t, fcppt::parse::position<Ch>>> mine;
      unsigned steps = static_cast<unsigned>(g->below(3 * len + 6)) + 1;
      for (unsigned q = 0; q < steps && c.ok; ++q)
      {
        switch (g->below(4))
        {
        case 0:
        case 1:
          k = c.read(k, "interleaved");
          break;
        case 2:
          mine.emplace_back(k, c.check_position(k, "interleaved"));
          break;
        case 3:
          if (!mine.empty())
          {
            auto const &m = mine[g->below(mine.size())];
            st.set_position(m.second);
            k = m.first;
            VF_COUNT("stream/restores");
            if (g->chance(1, 2))
              c.check_position(k, "interleaved-restore");
          }
          break;
        }
      }
      VF_COUNT("stream/interleavings");
    }
  // error messages of the character level parsers: location right after the offending character
  if (c.ok)
  {
    auto sref = fcppt::reference_to_base<fcppt::parse::basic_stream<Ch>>(fcppt::make_ref(st));
    oracle<Ch> o{t};
    for (std::size_t s = 0; s <= len && c.ok; ++s)
    {
      auto run = [&](char const *which, auto &&parse) {
        st.set_position(saved[s]);
        auto r = parse();
        VF_COUNT("stream/messages-checked");
        if (r.has_success())
        {
          c.fail(std::string("message/") + which + "/unexpected-success", "offset " + std::to_string(s));
          return;
        }
        Str m = r.get_failure_unsafe().get();
        if (s == len)
        {
          VF_COUNT("stream/messages-at-eof");
          if (m != Str{Ch('E'), Ch('O'), Ch('F')})
            c.fail(std::string("message/") + which + "/eof", "message at end of input is not EOF: " + narrow_show(m));
          return;
        }
        Str w = location_prefix<Ch>(o.line(s + 1), o.column(s + 1));
        if (m.compare(0, w.size(), w) != 0)
          c.fail(std::string("message/") + which + "/location",
                 "offending char at offset " + std::to_string(s) + ": message \"" + narrow_show(m) + "\" want prefix \"" + narrow_show(w) + "\"");
      };
      fcppt::parse::skipper::epsilon eps{};
      run("literal", [&] { return fcppt::parse::basic_literal<Ch>{Ch('#')}.parse(sref, eps); });
      run("char_set", [&] { return fcppt::parse::basic_char_set<Ch>{Ch('#'), Ch('%')}.parse(sref, eps); });
      run("skipper-literal", [&] { return fcppt::parse::skipper::basic_literal<Ch>{Ch('#')}.skip(sref); });
      run("skipper-char_set", [&] { return fcppt::parse::skipper::basic_char_set<Ch>{Ch('#'), Ch('%')}.skip(sref); });
    }
  }
}

// bytes: false = the alphabet the property names; true = characters whose value is special somewhere else (NUL, the
// top bit, 0xFF - the byte whose char value equals traits::to_char_type(eof()) - and for wchar_t U+00FF / U+FFFF)
// The underlying std::istream is shared with the caller, who may have looked at it between two operations of the parse
// stream: (a) a peek / getline / ws at the end leaves eofbit WITHOUT failbit - the input is healthy and exhausted, and
// get_position still reports the offset; (b) a stream that is failed (failbit without eofbit) stays failed: after a
// get_position (which may report the failure by the internal exception) get_char yields nothing.
template <class Ch>
void external_state(std::basic_string<Ch> const &t, std::string const &e)
{
  for (std::size_t k = 0; k <= t.size(); ++k)
    for (int scenario = 0; scenario < 2; ++scenario)
    {
      if (scenario == 0 && k != t.size())
        continue;
      std::basic_istringstream<Ch> iss(t);
      fcppt::parse::detail::stream<Ch> st{fcppt::reference_to_base<std::basic_istream<Ch>>(fcppt::make_ref(iss))};
      checker<Ch> c(t, st, e + (scenario == 0 ? "/eofbit-only" : "/failbit-only"));
      std::size_t i = 0;
      while (i < k && c.ok)
        i = c.read(i, "prefix");
      if (!c.ok)
        return;
      if (scenario == 0)
      {
        (void)iss.peek(); // sets eofbit, not failbit
        if (!iss.eof() || iss.fail())
          continue;
        try
        {
          c.check_position(t.size(), "after-external-peek-at-end");
        }
        catch (fcppt::parse::detail::exception<Ch> const &)
        {
          vf::violation(e + "/eofbit-only/position-not-reported", "mismatch", "get_position failed on a healthy, exhausted stream (eofbit without failbit) text=\"" + narrow_show(t) + "\"");
        }
        VF_COUNT("stream/external/eofbit-only");
      }
      else
      {
        iss.setstate(std::ios_base::failbit);
        try
        {
          (void)st.get_position();
        }
        catch (fcppt::parse::detail::exception<Ch> const &)
        {
        }
        bool yielded = false;
        try
        {
          yielded = st.get_char().has_value();
        }
        catch (fcppt::parse::detail::exception<Ch> const &)
        {
        }
        if (yielded)
          vf::violation(e + "/failbit-only/character-from-failed-stream", "mismatch", "a stream with failbit set yielded a character after get_position text=\"" + narrow_show(t) + "\" k=" + std::to_string(k));
        VF_COUNT("stream/external/failbit-only");
      }
    }
}

template <class Ch>
void exhaustive(unsigned maxlen, bool bytes = false)
{
  using Str = std::basic_string<Ch>;
  std::string e = std::string("stream<") + cn<Ch>() + ">/exhaustive" + (bytes ? "-byte-values" : "");
  if (!vf::entry_enabled(e))
    return;
  vf::set_entry(e);
  Ch const alpha_text[4] = {Ch('a'), Ch('\n'), Ch(' '), Ch('\t')};
  Ch const alpha_bytes[4] = {static_cast<Ch>(sizeof(Ch) == 1 ? 0xFF : 0xFFFF), Ch('\n'), Ch(0), static_cast<Ch>(sizeof(Ch) == 1 ? 0x80 : 0x010A)}; // U+010A: low byte is '\n'
  Ch const *const alpha = bytes ? alpha_bytes : alpha_text;
  std::uint64_t idx = 0;
  for (unsigned len = 0; len <= maxlen; ++len)
  {
    std::uint64_t total = 1;
    for (unsigned k = 0; k < len; ++k)
      total *= 4;
    for (std::uint64_t code = 0; code < total; ++code, ++idx)
    {
      if (!vf::mine(idx))
        continue;
      Str t;
      std::uint64_t c = code;
      for (unsigned k = 0; k < len; ++k, c /= 4)
        t += alpha[c % 4];
      if (!vf::begin_case("text=\"%s\"", narrow_show(t).c_str()))
        continue;
      if (idx < 64)
        vf::sample_case(2);
      vf::note_distinct(vf::hash_mix(vf::hash_str(e), vf::hash_bytes(t.data(), t.size() * sizeof(Ch))));
      systematic<Ch>(t, std::string("stream<") + cn<Ch>() + ">", nullptr, 0);
      if (len <= 4)
        external_state<Ch>(t, std::string("stream<") + cn<Ch>() + ">/external-state");
    }
  }
}

template <class Ch>
void random_texts(std::uint64_t total, bool via_file)
{
  using Str = std::basic_string<Ch>;
  std::string e = std::string("stream<") + cn<Ch>() + ">/random" + (via_file ? "-file" : "");
  if (!vf::entry_enabled(e))
    return;
  vf::set_entry(e);
  std::uint64_t per = total / vf::opts().nparts + 1;
  // (0x8A / U+010A / U+200A: characters that are not newlines but share the newline's low bits)
  Ch const alpha[13] = {Ch('a'), Ch('\n'), Ch(' '), Ch('\t'), Ch('\r'), Ch('b'), Ch('\n'), static_cast<Ch>(sizeof(Ch) == 1 ? 0xFF : 0xFFFF), Ch(0),
                        static_cast<Ch>(0x80), static_cast<Ch>(0xFE), static_cast<Ch>(sizeof(Ch) == 1 ? 0x8A : 0x010A), static_cast<Ch>(sizeof(Ch) == 1 ? 0x1A : 0x200A)};
  for (std::uint64_t h = 0; h < per; ++h)
  {
    vf::rng g(vf::seed_for(e, h));
    std::size_t len = g.below(via_file ? 200 : 60) + 1;
    Str t;
    for (std::size_t k = 0; k < len; ++k)
      t += alpha[g.below(13)];
    if (!vf::begin_case("seed=%" PRIu64 " part=%u h=%" PRIu64 " text=\"%s\"", vf::opts().seed, vf::opts().part, h, narrow_show(t).c_str()))
      continue;
    vf::sample_case(1);
    vf::note_distinct(vf::hash_mix(vf::hash_str(e), vf::hash_bytes(t.data(), t.size() * sizeof(Ch))));
    if (!via_file)
      systematic<Ch>(t, std::string("stream<") + cn<Ch>() + ">", &g, vf::tier<unsigned>(6, 20));
    else if constexpr (sizeof(Ch) == 1)
    {
      // the same definition must hold over a file stream (binary mode: offsets are byte offsets)
      char const *scratch = std::getenv("VERIF_SCRATCH");
      std::string dir = scratch ? scratch : "/tmp";
      std::string cmd = "mkdir -p '" + dir + "'";
      if (std::system(cmd.c_str()) != 0)
        return;
      std::string path = dir + "/c12_text.bin";
      {
        std::ofstream out(path, std::ios::binary | std::ios::trunc);
        out.write(t.data(), static_cast<std::streamsize>(t.size()));
      }
      std::ifstream in(path, std::ios::binary);
      fcppt::parse::detail::stream<char> st{fcppt::reference_to_base<std::istream>(fcppt::make_ref(in))};
      checker<char> c(t, st, "stream<char>/file");
      std::vector<std::pair<std::size_t, fcppt::parse::position<char>>> mine;
      std::size_t k = 0;
      unsigned steps = static_cast<unsigned>(3 * len + 10);
      for (unsigned q = 0; q < steps && c.ok; ++q)
      {
        switch (g.below(4))
        {
        case 0:
        case 1:
          k = c.read(k, "interleaved");
          break;
        case 2:
          mine.emplace_back(k, c.check_position(k, "interleaved"));
          break;
        case 3:
          if (!mine.empty())
          {
            auto const &m = mine[g.below(mine.size())];
            st.set_position(m.second);
            k = m.first;
            VF_COUNT("stream/restores");
          }
          break;
        }
      }
      VF_COUNT("stream/file-interleavings");
    }
  }
}

// ------------------------------------------------------------------ failing underlying streams
// A stringbuf that fails after k characters: mode 0 = plain end of data (EOF), 1 = throws from underflow
// (the istream turns that into badbit when exceptions() is off), 2 = refuses to seek.
template <class Ch>
struct fault_buf : std::basic_streambuf<Ch>
{
  using traits = std::char_traits<Ch>;
  using int_type = typename traits::int_type;
  using pos_type = typename traits::pos_type;
  using off_type = typename traits::off_type;
  std::basic_string<Ch> data;
  std::size_t limit;
  int mode;
  std::size_t pos = 0;
  fault_buf(std::basic_string<Ch> d, std::size_t l, int m) : data(std::move(d)), limit(l), mode(m) {}
  int_type underflow() override
  {
    if (pos >= limit || pos >= data.size())
    {
      if (mode == 1 && pos >= limit)
        throw std::runtime_error("injected stream fault");
      return traits::eof();
    }
    return traits::to_int_type(data[pos]);
  }
  int_type uflow() override
  {
    int_type r = underflow();
    if (!traits::eq_int_type(r, traits::eof()))
      ++pos;
    return r;
  }
  pos_type seekoff(off_type off, std::ios_base::seekdir dir, std::ios_base::openmode) override
  {
    if (mode == 2 && !(off == 0 && dir == std::ios_base::cur))
      return pos_type(off_type(-1));
    off_type base = dir == std::ios_base::beg ? 0 : (dir == std::ios_base::cur ? static_cast<off_type>(pos) : static_cast<off_type>(data.size()));
    off_type np = base + off;
    if (np < 0 || np > static_cast<off_type>(data.size()))
      return pos_type(off_type(-1));
    pos = static_cast<std::size_t>(np);
    return pos_type(np);
  }
  pos_type seekpos(pos_type p, std::ios_base::openmode m) override
  {
    if (mode == 2)
      return pos_type(off_type(-1));
    return seekoff(off_type(p), std::ios_base::beg, m);
  }
};

template <class Ch>
void failing_streams()
{
  using Str = std::basic_string<Ch>;
  std::string e = std::string("stream<") + cn<Ch>() + ">/failing";
  if (!vf::entry_enabled(e))
    return;
  vf::set_entry(e);
  Str const text{Ch('a'), Ch('b'), Ch('\n'), Ch('c'), Ch('d'), Ch('e')};
  unsigned idx = 0;
  for (int mode = 0; mode <= 2; ++mode)
    for (std::size_t limit = 0; limit <= text.size(); ++limit, ++idx)
    {
      if (!vf::mine(idx))
        continue;
      if (!vf::begin_case("mode=%d limit=%zu", mode, limit))
        continue;
      vf::note_distinct(vf::hash_mix(vf::hash_str(e), vf::hash_mix(static_cast<std::uint64_t>(mode), limit)));
      // self-test of the test double on the fault-free path is implied by limit == size, mode 0
      {
        fault_buf<Ch> buf(text, limit, mode);
        std::basic_istream<Ch> is(&buf);
        fcppt::parse::detail::stream<Ch> st{fcppt::reference_to_base<std::basic_istream<Ch>>(fcppt::make_ref(is))};
        // raw reads: every produced character must be the right one; after the fault nothing is produced
        std::size_t produced = 0;
        bool threw = false;
        try
        {
          for (std::size_t k = 0; k < text.size() + 3; ++k)
          {
            auto c = st.get_char();
            if (c.has_value())
            {
              if (produced >= std::min(limit, text.size()) || c.get_unsafe() != text[produced])
                vf::violation(e + "/character-after-failure", "mismatch",
                              "mode=" + std::to_string(mode) + " limit=" + std::to_string(limit) + " produced a character at index " + std::to_string(produced));
              ++produced;
            }
          }
        }
        catch (fcppt::parse::detail::exception<Ch> const &)
        {
          threw = true; // documented internal signal, converted by phrase_parse
        }
        if (produced != std::min(limit, text.size()))
          vf::violation(e + "/characters-lost", "mismatch", "mode=" + std::to_string(mode) + " limit=" + std::to_string(limit));
        if (mode == 1 && limit < text.size())
        {
          if (threw)
            VF_COUNT("stream/failing/bad-stream-reported");
        }
        else
          VF_COUNT("stream/failing/plain-eof");
      }
      // a stream that refuses to seek: set_position must report it (the documented internal exception, turned into a
      // parse failure by the entry points), never continue silently at a wrong offset
      if (mode == 2 && limit == text.size())
      {
        fault_buf<Ch> buf(text, limit, mode);
        std::basic_istream<Ch> is(&buf);
        fcppt::parse::detail::stream<Ch> st{fcppt::reference_to_base<std::basic_istream<Ch>>(fcppt::make_ref(is))};
        bool reported = false;
        std::size_t after = 0;
        try
        {
          auto saved = st.get_position();
          (void)st.get_char();
          (void)st.get_char();
          st.set_position(saved);
          auto c = st.get_char();
          after = c.has_value() ? (c.get_unsafe() == text[0] ? 1 : 2) : 0;
        }
        catch (fcppt::parse::detail::exception<Ch> const &)
        {
          reported = true;
        }
        VF_COUNT("stream/failing/unseekable-rewind");
        if (!reported && after != 1)
          vf::violation(e + "/unseekable-rewind-continued-at-wrong-offset", "mismatch",
                        "set_position on a stream that cannot seek neither failed nor restored the position");
      }
      // once the stream went bad, a rewind must not revive it: no character may be produced after set_position(saved)
      if (mode == 1 && limit < text.size())
      {
        fault_buf<Ch> buf(text, limit, mode);
        std::basic_istream<Ch> is(&buf);
        fcppt::parse::detail::stream<Ch> st{fcppt::reference_to_base<std::basic_istream<Ch>>(fcppt::make_ref(is))};
        bool revived = false;
        try
        {
          auto saved = st.get_position();
          for (std::size_t k = 0; k <= limit; ++k)
            (void)st.get_char(); // the last read hits the fault
        if (is.bad())
          {
            VF_COUNT("stream/failing/rewind-after-bad");
            st.set_position(saved);
            auto c = st.get_char();
            revived = c.has_value();
          }
        }
        catch (fcppt::parse::detail::exception<Ch> const &)
        {
        }
        if (revived)
          vf::violation(e + "/character-after-rewind-of-bad-stream", "mismatch",
                        "limit=" + std::to_string(limit) + ": after the device failed, set_position(saved) + get_char produced a character");
        // the same through a backtracking grammar: ("abc" | "ab") needs to rewind after the fault
        fault_buf<Ch> buf2(text, limit, mode);
        std::basic_istream<Ch> is2(&buf2);
        auto grammar = fcppt::parse::basic_string<Ch>{Str{Ch('a'), Ch('b'), Ch('\n')}} | fcppt::parse::basic_string<Ch>{Str{Ch('a')}};
        auto r = fcppt::parse::phrase_parse_stream(grammar, is2, fcppt::parse::skipper::epsilon{});
        if (limit >= 1 && limit < 3 && r.has_success())
          vf::violation(e + "/backtracking-over-bad-stream-succeeded", "mismatch",
                        "limit=" + std::to_string(limit) + ": (\"ab\\n\" | \"a\") succeeded although the device failed inside the first alternative");
      }
      // through the public entry point: a parser needing all characters must FAIL (never succeed on a failing stream)
      {
        fault_buf<Ch> buf(text, limit, mode);
        std::basic_istream<Ch> is(&buf);
        auto parser = fcppt::parse::basic_literal<Ch>{Ch('a')};
        auto r = fcppt::parse::phrase_parse_stream(parser, is, fcppt::parse::skipper::epsilon{});
        bool want = limit >= 1;
        if (r.has_success() != want)
          vf::violation(e + "/entry-point", "mismatch",
                        "phrase_parse_stream(literal a) mode=" + std::to_string(mode) + " limit=" + std::to_string(limit) +
                            (r.has_success() ? " succeeded" : " failed"));
        VF_COUNT("stream/failing/entry-point-runs");
      }
      // the same with a skipper that READS the stream (phrase_parse runs the skipper once before the parser): a device
      // that fails at its very first read, or inside the leading white space, still "yields a failure" - the result of
      // the entry point - never an exception of the stream layer
      {
        Str const padded{Ch(' '), Ch(' '), Ch('a'), Ch('b')};
        for (std::size_t lim2 = 0; lim2 <= padded.size(); ++lim2)
        {
          fault_buf<Ch> buf(padded, lim2, mode);
          std::basic_istream<Ch> is(&buf);
          auto parser = fcppt::parse::basic_literal<Ch>{Ch('a')} >> fcppt::parse::basic_literal<Ch>{Ch('b')};
          bool threw = false, success = false;
          try
          {
            auto r = fcppt::parse::phrase_parse_stream(
                parser, is, *fcppt::parse::skipper::basic_char_set<Ch>{fcppt::parse::basic_char_set_container<Ch>{Ch(' ')}});
            success = r.has_success();
          }
          catch (fcppt::parse::detail::exception<Ch> const &)
          {
            threw = true;
          }
          if (threw)
            vf::violation(e + "/entry-point/stream-layer-exception-escapes", "mismatch",
                          "phrase_parse_stream with a white space skipper: mode=" + std::to_string(mode) + " the device fails after " + std::to_string(lim2) + " of 4 characters");
          else if (success != (lim2 >= padded.size() && mode != 2)) // (a device that cannot seek fails the rewind of the skipper repetition)
            vf::violation(e + "/entry-point/with-reading-skipper", "mismatch",
                          "mode=" + std::to_string(mode) + " limit=" + std::to_string(lim2) + (success ? " succeeded" : " failed"));
          VF_COUNT("stream/failing/entry-point-runs-with-reading-skipper");
        }
      }
    }
}


// ------------------------------------------------------------------ devices that can only be positioned absolutely
// The random interleaving of reads, position queries and restores (the loop of the file world) over any stream.
template <class Ch>
void interleave(checker<Ch> &c, fcppt::parse::detail::stream<Ch> &st, vf::rng &g, unsigned steps)
{
  std::vector<std::pair<std::size_t, fcppt::parse::position<Ch>>> mine;
  std::size_t k = 0;
  for (unsigned q = 0; q < steps && c.ok; ++q)
  {
    switch (g.below(4))
    {
    case 0:
    case 1:
      k = c.read(k, "interleaved");
      break;
    case 2:
      mine.emplace_back(k, c.check_position(k, "interleaved"));
      break;
    case 3:
      if (!mine.empty())
      {
        auto const &m = mine[g.below(mine.size())];
        st.set_position(m.second);
        k = m.first;
        VF_COUNT("stream/restores");
        // directly after a restore the position is the saved one again
        c.check_position(k, "after-restore");
      }
      break;
    }
  }
}

// A device whose seekoff only answers "where am I" (offset 0 from the current position) and refuses every relative
// seek, while seekpos (absolute positioning with a position obtained earlier) works: the behaviour of a wide
// std::filebuf with a variable-width encoding, as a test double for both character types.
template <class Ch>
struct posonly_buf : fault_buf<Ch>
{
  using base = fault_buf<Ch>;
  using typename base::off_type;
  using typename base::pos_type;
  explicit posonly_buf(std::basic_string<Ch> d) : base(d, d.size(), 0) {}
  pos_type seekoff(off_type off, std::ios_base::seekdir dir, std::ios_base::openmode m) override
  {
    if (off == 0 && dir == std::ios_base::cur)
      return base::seekoff(off, dir, m);
    ++relative_seeks_refused;
    return pos_type(off_type(-1));
  }
  pos_type seekpos(pos_type p, std::ios_base::openmode m) override { return base::seekoff(off_type(p), std::ios_base::beg, m); }
  unsigned relative_seeks_refused = 0;
};

template <class Ch>
void absolute_only_devices(std::uint64_t total)
{
  using Str = std::basic_string<Ch>;
  std::string e = std::string("stream<") + cn<Ch>() + ">/seekpos-only-device";
  if (!vf::entry_enabled(e))
    return;
  vf::set_entry(e);
  std::uint64_t per = total / vf::opts().nparts + 1;
  Ch const alpha[6] = {Ch('a'), Ch('\n'), Ch(' '), Ch('b'), Ch('\n'), Ch('c')};
  for (std::uint64_t h = 0; h < per; ++h)
  {
    vf::rng g(vf::seed_for(e, h));
    std::size_t len = g.below(24) + 1;
    Str t;
    for (std::size_t k = 0; k < len; ++k)
      t += alpha[g.below(6)];
    if (!vf::begin_case("seed=%" PRIu64 " part=%u h=%" PRIu64 " text=\"%s\"", vf::opts().seed, vf::opts().part, h, narrow_show(t).c_str()))
      continue;
    vf::sample_case(1);
    vf::note_distinct(vf::hash_mix(vf::hash_str(e), vf::hash_bytes(t.data(), t.size() * sizeof(Ch))));
    posonly_buf<Ch> buf(t);
    std::basic_istream<Ch> is(&buf);
    fcppt::parse::detail::stream<Ch> st{fcppt::reference_to_base<std::basic_istream<Ch>>(fcppt::make_ref(is))};
    checker<Ch> c(t, st, e);
    try
    {
      interleave<Ch>(c, st, g, static_cast<unsigned>(3 * len + 10));
    }
    catch (fcppt::parse::detail::exception<Ch> const &)
    {
      c.fail("restore-refused", "set_position / get_position gave up on a device that supports absolute positioning");
    }
    VF_COUNT("stream/seekpos-only-interleavings");
  }
}

// Wide file streams reading UTF-8 (std::wifstream with the C.utf8 locale's codecvt, or std::codecvt_utf8): the external
// encoding has a variable width, the texts contain 1-, 2-, 3- and 4-byte characters.
inline void utf8_append(std::string &out, char32_t c)
{
  if (c < 0x80)
    out += static_cast<char>(c);
  else if (c < 0x800)
  {
    out += static_cast<char>(0xC0 | (c >> 6));
    out += static_cast<char>(0x80 | (c & 0x3F));
  }
  else if (c < 0x10000)
  {
    out += static_cast<char>(0xE0 | (c >> 12));
    out += static_cast<char>(0x80 | ((c >> 6) & 0x3F));
    out += static_cast<char>(0x80 | (c & 0x3F));
  }
  else
  {
    out += static_cast<char>(0xF0 | (c >> 18));
    out += static_cast<char>(0x80 | ((c >> 12) & 0x3F));
    out += static_cast<char>(0x80 | ((c >> 6) & 0x3F));
    out += static_cast<char>(0x80 | (c & 0x3F));
  }
}

void wide_utf8_files(std::uint64_t total)
{
  std::string e = "stream<wchar_t>/utf8-file";
  if (!vf::entry_enabled(e))
    return;
  vf::set_entry(e);
  std::uint64_t per = total / vf::opts().nparts + 1;
  wchar_t const alpha[10] = {L'a', L'\n', L' ', static_cast<wchar_t>(0xE9), static_cast<wchar_t>(0x20AC), static_cast<wchar_t>(0x1F600),
                             L'\n', static_cast<wchar_t>(0x010A), static_cast<wchar_t>(0x200A), L'b'};
  char const *scratch = std::getenv("VERIF_SCRATCH");
  std::string dir = scratch ? scratch : "/tmp";
  if (std::system(("mkdir -p '" + dir + "'").c_str()) != 0)
    return;
  std::string const path = dir + "/c12_text_utf8." + std::to_string(vf::opts().part) + ".txt";
  for (std::uint64_t h = 0; h < per; ++h)
  {
    vf::rng g(vf::seed_for(e, h));
    std::size_t len = g.below(40) + 1;
    std::wstring t;
    std::string bytes;
    bool multibyte = false;
    for (std::size_t k = 0; k < len; ++k)
    {
      wchar_t const ch = alpha[g.below(10)];
      t += ch;
      utf8_append(bytes, static_cast<char32_t>(ch));
      multibyte = multibyte || static_cast<unsigned long>(ch) >= 0x80;
    }
    bool const facet_std = (h & 1U) != 0; // alternate between the locale's own facet and std::codecvt_utf8
    if (!vf::begin_case("seed=%" PRIu64 " part=%u h=%" PRIu64 " facet=%s text=\"%s\"", vf::opts().seed, vf::opts().part, h,
                        facet_std ? "codecvt_utf8" : "C.utf8", narrow_show(t).c_str()))
      continue;
    vf::sample_case(1);
    vf::note_distinct(vf::hash_mix(vf::hash_str(e), vf::hash_bytes(t.data(), t.size() * sizeof(wchar_t))));
    {
      std::ofstream out(path, std::ios::binary | std::ios::trunc);
      out.write(bytes.data(), static_cast<std::streamsize>(bytes.size()));
    }
    std::wifstream in;
#pragma GCC diagnostic push
#pragma GCC diagnostic ignored "-Wdeprecated-declarations"
    in.imbue(facet_std ? std::locale(std::locale::classic(), new std::codecvt_utf8<wchar_t>) : std::locale("C.utf8"));
#pragma GCC diagnostic pop
    in.open(path, std::ios::binary);
    if (!in.is_open())
    {
      vf::count("stream/utf8-file/could-not-open");
      continue;
    }
    fcppt::parse::detail::stream<wchar_t> st{fcppt::reference_to_base<std::wistream>(fcppt::make_ref(in))};
    checker<wchar_t> c(t, st, e);
    c.opaque_offsets = true;
    try
    {
      interleave<wchar_t>(c, st, g, static_cast<unsigned>(3 * len + 10));
    }
    catch (fcppt::parse::detail::exception<wchar_t> const &)
    {
      c.fail("restore-refused", "set_position / get_position gave up on a wide UTF-8 file stream");
    }
    VF_COUNT("stream/utf8-file-interleavings");
    if (multibyte)
      VF_COUNT("stream/utf8-file-with-multibyte-characters");
  }
  std::remove(path.c_str());
}

// ---- the locale of the caller's stream.  Line = 1 + number of NEWLINE CHARACTERS before the offset: the text decides,
// not what the imbued locale's ctype facet widens '\n' to.  (a) char / wchar_t streams imbued with a ctype facet that
// widens '\n' to another character which also occurs in the text; (b) char16_t / char32_t streams, for which no ctype
// facet exists at all (widen throws bad_cast) - reading, positions and rewinds do not need one.
template <class Ch>
struct odd_ctype : std::ctype<Ch>
{
  Ch target;
  explicit odd_ctype(Ch t) : std::ctype<Ch>(), target(t) {}
  using base = std::ctype<Ch>;
  Ch do_widen(char c) const override { return c == '\n' ? target : base::do_widen(c); }
  char const *do_widen(char const *lo, char const *hi, Ch *to) const override
  {
    for (; lo != hi; ++lo, ++to)
      *to = do_widen(*lo);
    return hi;
  }
};
template <class Ch>
void odd_locale_streams(std::uint64_t total)
{
  using Str = std::basic_string<Ch>;
  std::string e = std::string("stream<") + cn<Ch>() + ">/ctype-facet-widens-newline-differently";
  if (!vf::entry_enabled(e))
    return;
  vf::set_entry(e);
  std::uint64_t per = total / vf::opts().nparts + 1;
  Ch const other = static_cast<Ch>(sizeof(Ch) == 1 ? 0x1E : 0x85);
  Ch const alpha[6] = {Ch('a'), Ch('\n'), other, Ch(' '), Ch('\n'), Ch('b')};
  for (std::uint64_t h = 0; h < per; ++h)
  {
    vf::rng g(vf::seed_for(e, h));
    std::size_t len = g.below(24) + 1;
    Str t;
    for (std::size_t k = 0; k < len; ++k)
      t += alpha[g.below(6)];
    if (!vf::begin_case("seed=%" PRIu64 " part=%u h=%" PRIu64 " text=\"%s\"", vf::opts().seed, vf::opts().part, h, narrow_show(t).c_str()))
      continue;
    vf::sample_case(1);
    vf::note_distinct(vf::hash_mix(vf::hash_str(e), vf::hash_bytes(t.data(), t.size() * sizeof(Ch))));
    std::basic_istringstream<Ch> is(t);
    is.imbue(std::locale(std::locale::classic(), new odd_ctype<Ch>(other)));
    fcppt::parse::detail::stream<Ch> st{fcppt::reference_to_base<std::basic_istream<Ch>>(fcppt::make_ref(is))};
    checker<Ch> c(t, st, e);
    interleave<Ch>(c, st, g, static_cast<unsigned>(3 * len + 10));
    VF_COUNT("stream/odd-ctype-interleavings");
  }
}
template <class Ch>
void facetless_character_types(char const *name, std::uint64_t total)
{
  using Str = std::basic_string<Ch>;
  std::string e = std::string("stream<") + name + ">";
  if (!vf::entry_enabled(e))
    return;
  vf::set_entry(e);
  std::uint64_t per = total / vf::opts().nparts + 1;
  Ch const alpha[6] = {Ch('a'), Ch('\n'), Ch(' '), static_cast<Ch>(0x20AC), Ch('\n'), static_cast<Ch>(0x010A)};
  for (std::uint64_t h = 0; h < per; ++h)
  {
    vf::rng g(vf::seed_for(e, h));
    std::size_t len = g.below(24) + 1;
    Str t;
    std::string shown;
    for (std::size_t k = 0; k < len; ++k)
    {
      t += alpha[g.below(6)];
      shown += t.back() == Ch('\n') ? "\\n" : t.back() < Ch(0x7f) ? std::string(1, static_cast<char>(t.back())) : "?";
    }
    if (!vf::begin_case("seed=%" PRIu64 " part=%u h=%" PRIu64 " text=\"%s\"", vf::opts().seed, vf::opts().part, h, shown.c_str()))
      continue;
    vf::sample_case(1);
    vf::note_distinct(vf::hash_mix(vf::hash_str(e), vf::hash_bytes(t.data(), t.size() * sizeof(Ch))));
    std::basic_istringstream<Ch> is(t);
    fcppt::parse::detail::stream<Ch> st{fcppt::reference_to_base<std::basic_istream<Ch>>(fcppt::make_ref(is))};
    // the same definition-based oracle, spelled out here (checker<> formats its messages through wide literals)
    auto const line_of = [&t](std::size_t i) {
      unsigned l = 1;
      for (std::size_t k = 0; k < i; ++k)
        l += t[k] == Ch('\n') ? 1U : 0U;
      return l;
    };
    auto const col_of = [&t](std::size_t i) {
      long last = -1;
      for (std::size_t k = 0; k < i; ++k)
        if (t[k] == Ch('\n'))
          last = static_cast<long>(k);
      return static_cast<unsigned>(static_cast<long>(i) - last);
    };
    bool ok = true;
    auto const fail = [&](char const *cls, std::string const &d) {
      vf::violation(e + "/" + cls, "mismatch", d + " text=\"" + shown + "\"");
      ok = false;
    };
    std::vector<std::pair<std::size_t, fcppt::parse::position<Ch>>> saved;
    std::size_t k = 0;
    try
    {
      for (unsigned q = 0; q < 3 * len + 10 && ok; ++q)
        switch (g.below(4))
        {
        case 0:
        case 1:
        {
          auto const ch = st.get_char();
          VF_COUNT("stream/reads");
          if (k < t.size())
          {
            if (!ch.has_value() || ch.get_unsafe() != t[k])
              fail("interleaved/char", "at offset " + std::to_string(k));
            ++k;
          }
          else if (ch.has_value())
            fail("interleaved/char-at-end-of-input", "a character was produced at end of input");
          break;
        }
        case 2:
        {
          auto const p = st.get_position();
          VF_COUNT("stream/positions-checked");
          if (static_cast<std::size_t>(std::streamoff(p.pos())) != k)
            fail("interleaved/offset", "offset got=" + std::to_string(std::streamoff(p.pos())) + " want=" + std::to_string(k));
          else if (!p.location().has_value() || p.location().get_unsafe().line().get() != line_of(k) || p.location().get_unsafe().column().get() != col_of(k))
            fail("interleaved/location", "at offset " + std::to_string(k));
          saved.emplace_back(k, p);
          break;
        }
        default:
          if (!saved.empty())
          {
            auto const &m = saved[g.below(saved.size())];
            st.set_position(m.second);
            k = m.first;
            VF_COUNT("stream/restores");
          }
          break;
        }
    }
    catch (std::bad_cast const &)
    {
      fail("needs-a-ctype-facet", "reading / positioning a stream of this character type asked the locale for a facet that does not exist (std::bad_cast)");
    }
    VF_COUNT("stream/facetless-character-type-interleavings");
  }
}

// ---- a device whose absolute seek fails ONCE for a perfectly good position (a transient I/O error): the restore is
// reported (the internal exception), the caller clears the stream state and carries on - and the position the stream
// then reports is where it really is: offset, line and column still belong together.
template <class Ch>
struct flaky_seek_buf : fault_buf<Ch>
{
  using base = fault_buf<Ch>;
  using typename base::off_type;
  using typename base::pos_type;
  explicit flaky_seek_buf(std::basic_string<Ch> d) : base(d, d.size(), 0) {}
  int refuse_next = 0;
  pos_type seekpos(pos_type p, std::ios_base::openmode m) override
  {
    if (refuse_next > 0)
    {
      --refuse_next;
      return pos_type(off_type(-1));
    }
    return base::seekpos(p, m);
  }
  pos_type seekoff(off_type off, std::ios_base::seekdir dir, std::ios_base::openmode m) override
  {
    if (refuse_next > 0 && !(off == 0 && dir == std::ios_base::cur))
    {
      --refuse_next;
      return pos_type(off_type(-1));
    }
    return base::seekoff(off, dir, m);
  }
};
template <class Ch>
void transient_seek_failures(std::uint64_t total)
{
  using Str = std::basic_string<Ch>;
  std::string e = std::string("stream<") + cn<Ch>() + ">/restore-fails-once";
  if (!vf::entry_enabled(e))
    return;
  vf::set_entry(e);
  std::uint64_t per = total / vf::opts().nparts + 1;
  Ch const alpha[5] = {Ch('a'), Ch('\n'), Ch('b'), Ch('\n'), Ch(' ')};
  for (std::uint64_t h = 0; h < per; ++h)
  {
    vf::rng g(vf::seed_for(e, h));
    std::size_t len = g.below(16) + 4;
    Str t;
    for (std::size_t k = 0; k < len; ++k)
      t += alpha[g.below(5)];
    std::size_t const save_at = g.below(len / 2), fail_at = save_at + 1 + g.below(len - save_at - 1);
    if (!vf::begin_case("seed=%" PRIu64 " part=%u h=%" PRIu64 " text=\"%s\" save at %zu, the restore attempted at %zu is refused by the device", vf::opts().seed, vf::opts().part, h,
                        narrow_show(t).c_str(), save_at, fail_at))
      continue;
    vf::sample_case(1);
    vf::note_distinct(vf::hash_mix(vf::hash_str(e), vf::hash_mix(vf::hash_bytes(t.data(), t.size() * sizeof(Ch)), save_at * 64 + fail_at)));
    flaky_seek_buf<Ch> buf(t);
    std::basic_istream<Ch> is(&buf);
    fcppt::parse::detail::stream<Ch> st{fcppt::reference_to_base<std::basic_istream<Ch>>(fcppt::make_ref(is))};
    checker<Ch> c(t, st, e);
    std::size_t k = 0;
    for (; k < save_at; ++k)
      c.read(k, "before-save");
    auto const saved = c.check_position(k, "save");
    for (; k < fail_at; ++k)
      c.read(k, "before-restore");
    buf.refuse_next = 1;
    bool threw = false;
    try
    {
      st.set_position(saved);
    }
    catch (fcppt::parse::detail::exception<Ch> const &)
    {
      threw = true;
    }
    VF_COUNT("stream/restore-refused-once");
    if (!threw)
      c.fail("refused-restore-not-reported", "the device refused the seek and set_position returned normally");
    is.clear();
    // the stream is where it was (the seek did not happen): offset, line and column of THAT place
    c.check_position(fail_at, "after-the-refused-restore");
    for (std::size_t q = fail_at; q < t.size() && c.ok; ++q)
      c.read(q, "after-the-refused-restore");
    // and the saved position is still good for a later, successful restore
    if (c.ok)
    {
      st.set_position(saved);
      c.check_position(save_at, "second-restore");
      c.read(save_at, "second-restore");
    }
  }
}

void body()
{
  for (char const *b : {"stream/positions-checked", "stream/reads", "stream/reads-at-eof", "stream/restores",
                        "stream/rewind-across-newline", "stream/restore-directly-after-eof-read", "stream/double-restore",
                        "stream/interleavings", "stream/messages-checked", "stream/messages-at-eof",
                        "stream/file-interleavings", "stream/failing/bad-stream-reported", "stream/failing/plain-eof",
                        "stream/failing/entry-point-runs", "stream/failing/rewind-after-bad", "stream/failing/unseekable-rewind", "stream/external/eofbit-only", "stream/external/failbit-only",
                        "stream/seekpos-only-interleavings", "stream/utf8-file-interleavings", "stream/utf8-file-with-multibyte-characters",
                        "stream/odd-ctype-interleavings", "stream/facetless-character-type-interleavings"})
    vf::require_bucket(b);
  exhaustive<char>(vf::tier<unsigned>(7, 12));
  exhaustive<wchar_t>(vf::tier<unsigned>(6, 10));
  exhaustive<char>(vf::tier<unsigned>(5, 8), true);
  exhaustive<wchar_t>(vf::tier<unsigned>(4, 7), true);
  random_texts<char>(vf::tier<std::uint64_t>(3000, 200000), false);
  random_texts<wchar_t>(vf::tier<std::uint64_t>(2000, 100000), false);
  random_texts<char>(vf::tier<std::uint64_t>(600, 20000), true);
  failing_streams<char>();
  failing_streams<wchar_t>();
  absolute_only_devices<char>(vf::tier<std::uint64_t>(800, 40000));
  absolute_only_devices<wchar_t>(vf::tier<std::uint64_t>(800, 40000));
  wide_utf8_files(vf::tier<std::uint64_t>(800, 40000));
  odd_locale_streams<char>(vf::tier<std::uint64_t>(600, 30000));
  odd_locale_streams<wchar_t>(vf::tier<std::uint64_t>(600, 30000));
  facetless_character_types<char32_t>("char32_t", vf::tier<std::uint64_t>(600, 30000));
  facetless_character_types<char16_t>("char16_t", vf::tier<std::uint64_t>(600, 30000));
  transient_seek_failures<char>(vf::tier<std::uint64_t>(600, 30000));
  transient_seek_failures<wchar_t>(vf::tier<std::uint64_t>(600, 30000));
}
}

VF_MAIN(body)
