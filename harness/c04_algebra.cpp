// C04: optional / either / variant combinators satisfy their algebraic specification.
//
// Every value of the finite types used here (val<Tag> over {0,1,2}, optionals / eithers / variants of
// them, nested) has a *code* (a small integer, see fin<T>).  The oracle is a tagged-union model that
// works on codes only and is written from the documentation of each combinator.  Continuations are
// table-driven function objects (tfn): the function with table id t maps the argument with code i to
// the value whose code is the i-th digit of t, so that enumerating t enumerates ALL functions between
// the finite domains.  Every call of a continuation is logged as (role, table, argument codes); the
// model's continuations (mfn) produce the expected call list while the model is evaluated, and the
// two lists are compared (exactly once, order, short-circuit position, never for an absent value).
//
// val<Tag> marks a moved-from object with -7, so a continuation that receives an object that was
// already consumed (e.g. a second invocation with the same rvalue) shows up as a BAD argument code.
//
// Slices: 0 optional, 1 either, 2 variant + monad, 3 optional laws, 4 either laws.
#include <vf.hpp>

#include <fcppt/const.hpp>
#include <fcppt/make_ref.hpp>
#include <fcppt/reference.hpp>
#include <fcppt/unit.hpp>
#include <fcppt/either/apply.hpp>
#include <fcppt/either/bind.hpp>
#include <fcppt/either/comparison.hpp>
#include <fcppt/either/construct.hpp>
#include <fcppt/either/error.hpp>
#include <fcppt/either/error_from_optional.hpp>
#include <fcppt/either/failure_opt.hpp>
#include <fcppt/either/first_success.hpp>
#include <fcppt/either/from_optional.hpp>
#include <fcppt/either/join.hpp>
#include <fcppt/either/loop.hpp>
#include <fcppt/either/make_failure.hpp>
#include <fcppt/either/make_success.hpp>
#include <fcppt/either/map.hpp>
#include <fcppt/either/map_failure.hpp>
#include <fcppt/either/match.hpp>
#include <fcppt/either/monad.hpp>
#include <fcppt/either/no_error.hpp>
#include <fcppt/either/object.hpp>
#include <fcppt/either/sequence.hpp>
#include <fcppt/either/sequence_error.hpp>
#include <fcppt/either/success_opt.hpp>
#include <fcppt/either/to_exception.hpp>
#include <fcppt/either/try_call.hpp>
#include <fcppt/monad/bind.hpp>
#include <fcppt/monad/chain.hpp>
#include <fcppt/monad/do.hpp>
#include <fcppt/monad/return.hpp>
#include <fcppt/optional/alternative.hpp>
#include <fcppt/optional/apply.hpp>
#include <fcppt/optional/assign.hpp>
#include <fcppt/optional/bind.hpp>
#include <fcppt/optional/cat.hpp>
#include <fcppt/optional/combine.hpp>
#include <fcppt/optional/comparison.hpp>
#include <fcppt/optional/copy_value.hpp>
#include <fcppt/optional/deref.hpp>
#include <fcppt/optional/filter.hpp>
#include <fcppt/optional/from.hpp>
#include <fcppt/optional/from_pointer.hpp>
#include <fcppt/optional/join.hpp>
#include <fcppt/optional/make.hpp>
#include <fcppt/optional/make_if.hpp>
#include <fcppt/optional/map.hpp>
#include <fcppt/optional/maybe.hpp>
#include <fcppt/optional/maybe_multi.hpp>
#include <fcppt/optional/maybe_void.hpp>
#include <fcppt/optional/maybe_void_multi.hpp>
#include <fcppt/optional/monad.hpp>
#include <fcppt/optional/object.hpp>
#include <fcppt/optional/reference.hpp>
#include <fcppt/optional/sequence.hpp>
#include <fcppt/optional/to_container.hpp>
#include <fcppt/optional/to_exception.hpp>
#include <fcppt/optional/to_pointer.hpp>
#include <fcppt/variant/apply.hpp>
#include <fcppt/variant/compare.hpp>
#include <fcppt/variant/comparison.hpp>
#include <fcppt/variant/get_unsafe.hpp>
#include <fcppt/variant/holds_type.hpp>
#include <fcppt/variant/match.hpp>
#include <fcppt/variant/dynamic_cast.hpp>
#include <fcppt/cast/dynamic_fun.hpp>
#include <fcppt/cast/dynamic_cross_fun.hpp>
#include <fcppt/mpl/list/object.hpp>
#include <fcppt/variant/object.hpp>
#include <fcppt/variant/to_optional.hpp>
#include <fcppt/variant/to_optional_ref.hpp>

#include <cstdint>
#include <sstream>
#include <string>
#include <type_traits>
#include <utility>
#include <variant>
#include <vector>

#ifndef VF_SLICE
#define VF_SLICE -2 // single translation unit build: everything
#endif
#define VF_IN_SLICE(i) (VF_SLICE == (i) || VF_SLICE == -2)
#define FWD(x) std::forward<decltype(x)>(x)

namespace
{
constexpr int BAD = -1000;  // code of a value outside its domain (moved-from, garbage)
constexpr int NOARG = -1;   // unused argument slot of a logged call

// ------------------------------------------------------------------ the value domain
template <int Tag>
struct val
{
  int v;
  explicit val(int x) : v(x) {}
  val(val const &o) : v(o.v) {}
  val(val &&o) noexcept : v(o.v) { o.v = -7; }
  val &operator=(val const &o)
  {
    v = o.v;
    return *this;
  }
  val &operator=(val &&o) noexcept
  {
    int x = o.v;
    o.v = -7;
    v = x;
    return *this;
  }
  friend bool operator==(val const &a, val const &b) { return a.v == b.v; }
  friend bool operator!=(val const &a, val const &b) { return a.v != b.v; }
  friend bool operator<(val const &a, val const &b) { return a.v < b.v; }
};
using D = val<0>; // the main domain
using E = val<1>; // failures
using A = val<2>;
using B = val<3>;
using C = val<4>;
struct xc // exception type for try_call / to_exception
{
  int v;
};

template <class T>
using opt = fcppt::optional::object<T>;
template <class F, class S>
using eit = fcppt::either::object<F, S>;
template <class... Ts>
using var = fcppt::variant::object<Ts...>;

// ------------------------------------------------------------------ codes of finite types
template <class T>
struct fin;
template <int Tag>
struct fin<val<Tag>>
{
  static constexpr int radix = 3;
  static int enc(val<Tag> const &x) { return x.v >= 0 && x.v < 3 ? x.v : BAD; }
  static val<Tag> dec(int d) { return val<Tag>{d}; }
};
template <>
struct fin<xc>
{
  static constexpr int radix = 3;
  static int enc(xc const &x) { return x.v >= 0 && x.v < 3 ? x.v : BAD; }
  static xc dec(int d) { return xc{d}; }
};
template <>
struct fin<bool>
{
  static constexpr int radix = 2;
  static int enc(bool b) { return b ? 1 : 0; }
  static bool dec(int d) { return d != 0; }
};
template <>
struct fin<fcppt::unit>
{
  static constexpr int radix = 1;
  static int enc(fcppt::unit const &) { return 0; }
  static fcppt::unit dec(int) { return fcppt::unit{}; }
};
template <class T>
struct fin<fcppt::optional::object<T>>
{
  static constexpr int radix = 1 + fin<T>::radix;
  static int enc(opt<T> const &o)
  {
    if (!o.has_value())
      return 0;
    int c = fin<T>::enc(o.get_unsafe());
    return c < 0 ? BAD : 1 + c;
  }
  static opt<T> dec(int d) { return d == 0 ? opt<T>{} : opt<T>{fin<T>::dec(d - 1)}; }
};
template <class F, class S>
struct fin<fcppt::either::object<F, S>>
{
  static constexpr int rf = fin<F>::radix;
  static constexpr int radix = fin<F>::radix + fin<S>::radix;
  static int enc(eit<F, S> const &e)
  {
    if (e.has_success() == e.has_failure())
      return BAD;
    int c = e.has_success() ? fin<S>::enc(e.get_success_unsafe()) : fin<F>::enc(e.get_failure_unsafe());
    return c < 0 ? BAD : (e.has_success() ? rf + c : c);
  }
  static eit<F, S> dec(int d) { return d < rf ? eit<F, S>{fin<F>::dec(d)} : eit<F, S>{fin<S>::dec(d - rf)}; }
};
template <class X, class T, class... Rest>
constexpr int var_off()
{
  if constexpr (std::is_same_v<X, T>)
    return 0;
  else
    return fin<T>::radix + var_off<X, Rest...>();
}
template <class V, class T, class... Rest>
V var_dec(int d)
{
  if constexpr (sizeof...(Rest) == 0)
    return V{fin<T>::dec(d)};
  else
  {
    if (d < fin<T>::radix)
      return V{fin<T>::dec(d)};
    return var_dec<V, Rest...>(d - fin<T>::radix);
  }
}
template <class... Ts>
struct fin<fcppt::variant::object<Ts...>>
{
  static constexpr int radix = (fin<Ts>::radix + ...);
  // decoded through the std::variant itself, not through the fcppt accessors under test
  static int enc(var<Ts...> const &v)
  {
    return std::visit(
        [](auto const &x) {
          using X = std::remove_cvref_t<decltype(x)>;
          int c = fin<X>::enc(x);
          return c < 0 ? BAD : var_off<X, Ts...>() + c;
        },
        v.impl());
  }
  static var<Ts...> dec(int d) { return var_dec<var<Ts...>, Ts...>(d); }
};
template <class T>
int enc(T const &x)
{
  return fin<T>::enc(x);
}
template <class T>
T dec(int d)
{
  return fin<T>::dec(d);
}
template <class T>
std::vector<int> enc_vec(std::vector<T> const &v)
{
  std::vector<int> r;
  for (auto const &x : v)
    r.push_back(enc(x));
  return r;
}
template <class T>
std::vector<T> dec_vec(std::vector<int> const &v)
{
  std::vector<T> r;
  r.reserve(v.size());
  for (int c : v)
    r.push_back(dec<T>(c));
  return r;
}
std::string show_vec(std::vector<int> const &v)
{
  std::string r = "[";
  for (std::size_t i = 0; i < v.size(); ++i)
    r += (i ? "," : "") + std::to_string(v[i]);
  return r + "]";
}

// ------------------------------------------------------------------ the tagged-union model on codes
namespace md
{
constexpr int none = 0;
inline int some(int x) { return 1 + x; }
inline bool present(int o) { return o != 0; }
inline int value(int o) { return o - 1; }
// eithers whose failure type has radix 3 (E): codes 0..2 are failures, 3.. are successes
constexpr int RF = 3;
inline int fail(int f) { return f; }
inline int succ(int s) { return RF + s; }
inline bool ok(int e) { return e >= RF; }
inline int sval(int e) { return e - RF; }
inline int fval(int e) { return e; }
}

// ------------------------------------------------------------------ call logs
struct call
{
  int role;
  long table;
  int a, b, c;
  friend bool operator==(call const &x, call const &y)
  {
    return x.role == y.role && x.table == y.table && x.a == y.a && x.b == y.b && x.c == y.c;
  }
  friend bool operator<(call const &x, call const &y)
  {
    return std::tie(x.role, x.table, x.a, x.b, x.c) < std::tie(y.role, y.table, y.a, y.b, y.c);
  }
};
using calls = std::vector<call>;
calls &lib_log()
{
  static calls l;
  return l;
}
calls &model_log()
{
  static calls l;
  return l;
}
std::string show_calls(calls const &l)
{
  std::string r = "[";
  for (std::size_t i = 0; i < l.size(); ++i)
  {
    r += (i ? " " : "") + std::string("r") + std::to_string(l[i].role) + "#" + std::to_string(l[i].table) + "(";
    if (l[i].a != NOARG)
      r += std::to_string(l[i].a);
    if (l[i].b != NOARG)
      r += "," + std::to_string(l[i].b);
    if (l[i].c != NOARG)
      r += "," + std::to_string(l[i].c);
    r += ")";
  }
  return r + "]";
}

inline int digit(long table, long idx, int radix)
{
  for (long i = 0; i < idx; ++i)
    table /= radix;
  return static_cast<int>(table % radix);
}
inline long ipow(long b, int e)
{
  long r = 1;
  while (e-- > 0)
    r *= b;
  return r;
}

// model continuation: same table as the tfn it mirrors; records the expected call
template <class R, class... As>
struct mfn
{
  int role;
  long table;
  template <class... Is>
  int operator()(Is... codes) const
  {
    static_assert(sizeof...(Is) == sizeof...(As));
    call c{role, table, NOARG, NOARG, NOARG};
    int *slot[3] = {&c.a, &c.b, &c.c};
    int const cs[sizeof...(Is) + 1] = {codes..., 0};
    int const rs[sizeof...(As) + 1] = {fin<As>::radix..., 0};
    long idx = 0, mul = 1;
    for (std::size_t k = 0; k < sizeof...(Is); ++k)
    {
      *slot[k] = cs[k];
      idx += cs[k] * mul;
      mul *= rs[k];
    }
    model_log().push_back(c);
    if constexpr (std::is_void_v<R>)
      return 0;
    else
      return digit(table, idx, fin<R>::radix);
  }
};

// library-side continuation: consumes its arguments (moves from rvalues), logs, returns the table entry
template <class R, class... As>
struct tfn
{
  int role;
  long table;
  mfn<R, As...> model() const { return mfn<R, As...>{role, table}; }
  template <class... Xs>
  requires(sizeof...(Xs) == sizeof...(As)) && (std::is_same_v<std::remove_cvref_t<Xs>, As> && ...)
  R operator()(Xs &&...xs) const
  {
    call c{role, table, NOARG, NOARG, NOARG};
    int *slot[3] = {&c.a, &c.b, &c.c};
    int k = 0;
    long idx = 0, mul = 1;
    bool bad = false;
    auto take = [&]<class Aa, class X>(std::type_identity<Aa>, X &&x) {
      Aa local(std::forward<X>(x));
      int cd = fin<Aa>::enc(local);
      *slot[k++] = cd;
      if (cd < 0)
        bad = true;
      else
        idx += cd * mul;
      mul *= fin<Aa>::radix;
    };
    (take(std::type_identity<As>{}, std::forward<Xs>(xs)), ...);
    lib_log().push_back(c);
    if constexpr (std::is_void_v<R>)
      return;
    else
      return fin<R>::dec(bad ? 0 : digit(table, idx, fin<R>::radix));
  }
};

// ------------------------------------------------------------------ judging
long g_ops[4] = {0, 0, 0, 0};
inline void set_ops(long a, long b = 0, long c = 0, long d = 0)
{
  g_ops[0] = a;
  g_ops[1] = b;
  g_ops[2] = c;
  g_ops[3] = d;
  vf::operands(a, b, c, d);
}
std::uint64_t g_row_evals = 0;

struct ctx
{
  std::string fn;
  std::uint64_t present = 0, absent = 0, ncalls = 0, evals = 0;
  explicit ctx(std::string f) : fn(std::move(f)) {}
  ctx(ctx const &) = delete;
  ~ctx()
  {
    vf::count(fn + "/present", present);
    vf::count(fn + "/absent", absent);
    vf::count("calls/logged", ncalls);
    vf::count("evals/" + fn, evals);
  }
};

std::string ops_text()
{
  return " ops=(" + std::to_string(g_ops[0]) + "," + std::to_string(g_ops[1]) + "," + std::to_string(g_ops[2]) + "," +
         std::to_string(g_ops[3]) + ")";
}

// compares the library's call log with the model's, classifies a difference
inline std::vector<std::function<bool()>> &lvalue_guards()
{
  static std::vector<std::function<bool()>> g;
  return g;
}
void judge_calls(ctx &cx, char const *flavor)
{
  calls &got = lib_log();
  calls &want = model_log();
  cx.ncalls += got.size();
  if (!(got == want))
  {
    char const *cls;
    if (got.size() > want.size())
      cls = want.empty() ? "invoked-for-absent" : "invoked-too-often";
    else if (got.size() < want.size())
      cls = "not-invoked";
    else
    {
      calls a = got, b = want;
      std::sort(a.begin(), a.end());
      std::sort(b.begin(), b.end());
      cls = a == b ? "order" : "wrong-call";
    }
    vf::violation(cx.fn + "/" + flavor + "/calls-" + cls, "mismatch",
                  "calls=" + show_calls(got) + " expected=" + show_calls(want) + ops_text());
  }
  got.clear();
  want.clear();
}
template <class G>
void judge(ctx &cx, char const *flavor, G const &got, G const &want, bool present)
{
  ++cx.evals;
  ++g_row_evals;
  ++(present ? cx.present : cx.absent);
  if (!(got == want))
  {
    std::ostringstream o;
    if constexpr (std::is_same_v<G, std::vector<int>>)
      o << "got=" << show_vec(got) << " want=" << show_vec(want);
    else
      o << "got=" << got << " want=" << want;
    vf::violation(cx.fn + "/" + flavor + "/result", "mismatch", o.str() + ops_text());
  }
  for (auto const &unchanged : lvalue_guards())
    if (!unchanged())
    {
      vf::violation(cx.fn + "/" + flavor + "/lvalue-operand-modified", "mismatch", "a non-const lvalue operand no longer holds its value" + ops_text());
      break;
    }
  if (!lvalue_guards().empty())
    VF_COUNT("nonconst-lvalue-operands/checked");
  lvalue_guards().clear();
  judge_calls(cx, flavor);
}
inline void begin_eval()
{
  lib_log().clear();
  model_log().clear();
  lvalue_guards().clear();
}

// one row = one begin_case: (entry, table id) with all values / flavours inside
template <class Body>
void row(std::string const &entry, long table, Body const &body)
{
  static std::string last;
  static std::uint64_t idx = 0;
  if (last != entry)
  {
    last = entry;
    idx = 0;
  }
  if (!vf::mine(vf::hash_str(entry) % 1024 + idx++))
    return;
  if (!vf::begin_case("table=%ld", table))
    return;
  vf::sample_case(1);
  vf::note_distinct(vf::hash_mix(vf::hash_str(entry), static_cast<std::uint64_t>(table)));
  g_row_evals = 0;
  body();
  if (g_row_evals > 1)
    vf::add_evals(g_row_evals - 1);
}

// value categories: const lvalue or rvalue.  In the second build of this harness (-DC04_NONCONST_LVALUES) every lvalue
// operand is passed as a NON-CONST lvalue instead - the category from which a library that forwards with the wrong
// value category can actually move - and judge() checks afterwards that it still holds what it held.
template <bool R, class T>
decltype(auto) pass(T &s)
{
  if constexpr (R)
    return std::move(s);
  else
  {
#ifdef C04_NONCONST_LVALUES
    if constexpr (std::is_copy_constructible_v<T> && requires(T const &a, T const &b) { a == b; })
      lvalue_guards().push_back([&s, copy = s] { return s == copy; });
    return (s);
#else
    return std::as_const(s);
#endif
  }
}
template <bool R>
constexpr char const *fl1()
{
  return R ? "&&" : "const&";
}
template <bool R1, bool R2>
constexpr char const *fl2()
{
  return R1 ? (R2 ? "&&,&&" : "&&,const&") : (R2 ? "const&,&&" : "const&,const&");
}
template <class K>
void flavors1(K const &k)
{
  k(std::false_type{});
  k(std::true_type{});
}
template <class K>
void flavors2(K const &k)
{
  k(std::false_type{}, std::false_type{});
  k(std::true_type{}, std::true_type{});
  k(std::false_type{}, std::true_type{});
  k(std::true_type{}, std::false_type{});
}

#define ENTRY(name)                                                                                          \
  std::string const entry = name;                                                                            \
  if (!vf::entry_enabled(entry))                                                                             \
    return;                                                                                                  \
  vf::set_entry(entry);                                                                                      \
  ctx cx(entry)

// function tables D x D -> R (3^9): constants, projections and a sample (quick) or all (thorough)
std::vector<long> tables2(char const *what)
{
  std::vector<long> r;
  long const n = ipow(3, 9);
  if (vf::thorough())
  {
    for (long t = 0; t < n; ++t)
      r.push_back(t);
    return r;
  }
  r.push_back(0);                                // constant 0
  r.push_back((n - 1) / 2);                      // constant 1
  r.push_back(n - 1);                            // constant 2
  {
    long p1 = 0, p2 = 0;
    for (int b = 2; b >= 0; --b)
      for (int a = 2; a >= 0; --a)
      {
        p1 = p1 * 3 + a;
        p2 = p2 * 3 + b;
      }
    r.push_back(p1); // first projection
    r.push_back(p2); // second projection
  }
  vf::rng g(vf::hash_mix(vf::opts().seed, vf::hash_str(what)));
  for (int i = 0; i < 3000; ++i)
    r.push_back(static_cast<long>(g.below(static_cast<std::uint64_t>(n))));
  return r;
}
// sampled function tables D x D x D -> R (3^27)
std::vector<long> tables3(char const *what)
{
  std::vector<long> r;
  long const n = ipow(3, 27);
  r.push_back(0);
  r.push_back(n - 1);
  vf::rng g(vf::hash_mix(vf::opts().seed, vf::hash_str(what)));
  for (int i = 0, m = vf::tier(30, 400); i < m; ++i)
    r.push_back(static_cast<long>(g.below(static_cast<std::uint64_t>(n))));
  return r;
}
// all containers (as code vectors) over `radix` up to length 4, in a fixed order
std::vector<std::vector<int>> containers(int radix, int maxlen = 4)
{
  std::vector<std::vector<int>> r;
  for (int len = 0; len <= maxlen; ++len)
  {
    long n = ipow(radix, len);
    for (long i = 0; i < n; ++i)
    {
      std::vector<int> v;
      long x = i;
      for (int k = 0; k < len; ++k)
      {
        v.push_back(static_cast<int>(x % radix));
        x /= radix;
      }
      r.push_back(v);
    }
  }
  return r;
}
void observe(char const *name, bool ok, std::string const &text)
{
  vf::count(std::string("observed/") + name);
  if (!ok)
    vf::observation(std::string(name) + ": " + text + " (observed only; not judged by C04)");
}
} // namespace

// =================================================================== slice 0: optional
#if VF_IN_SLICE(0)
namespace
{
using OD = opt<D>;
using OA = opt<A>;

void o_object()
{
  ENTRY("optional::object");
  row(entry, 0, [&] {
    for (int o = 0; o < 4; ++o)
    {
      set_ops(o);
      begin_eval();
      if (o == 0)
      {
        OD x;
        judge(cx, "default", x.has_value() ? 1 : 0, 0, false);
      }
      else
      {
        D src{o - 1};
        OD x(src);
        judge(cx, "const&", x.has_value() ? enc(x.get_unsafe()) : -1, o - 1, true);
        begin_eval();
        OD y(std::move(src));
        judge(cx, "&&", y.has_value() ? enc(std::as_const(y).get_unsafe()) : -1, o - 1, true);
        begin_eval();
        OD z(y); // copy
        judge(cx, "copy", enc(z) * 10 + enc(y), (1 + (o - 1)) * 11, true);
      }
    }
  });
}

void o_map()
{
  ENTRY("optional::map");
  for (long t = 0; t < 27; ++t)
    row(entry, t, [&] {
      tfn<A, D> f{1, t};
      auto mf = f.model();
      for (int o = 0; o < 4; ++o)
        flavors1([&](auto fl) {
          constexpr bool R = fl.value;
          set_ops(o, R);
          OD s = dec<OD>(o);
          begin_eval();
          OA r = fcppt::optional::map(pass<R>(s), f);
          int want = md::present(o) ? md::some(mf(md::value(o))) : md::none;
          judge(cx, fl1<R>(), enc(r), want, md::present(o));
        });
    });
}

void o_bind()
{
  ENTRY("optional::bind");
  for (long t = 0; t < 64; ++t)
    row(entry, t, [&] {
      tfn<OA, D> f{1, t};
      auto mf = f.model();
      for (int o = 0; o < 4; ++o)
        flavors1([&](auto fl) {
          constexpr bool R = fl.value;
          set_ops(o, R);
          OD s = dec<OD>(o);
          begin_eval();
          OA r = fcppt::optional::bind(pass<R>(s), f);
          int want = md::present(o) ? mf(md::value(o)) : md::none;
          judge(cx, fl1<R>(), enc(r), want, md::present(o));
        });
    });
}

void o_monad_bind()
{
  ENTRY("monad::bind<optional>");
  for (long t = 0; t < 64; ++t)
    row(entry, t, [&] {
      tfn<OA, D> f{1, t};
      auto mf = f.model();
      for (int o = 0; o < 4; ++o)
        flavors1([&](auto fl) {
          constexpr bool R = fl.value;
          set_ops(o, R);
          OD s = dec<OD>(o);
          begin_eval();
          OA r = fcppt::monad::bind(pass<R>(s), f);
          int want = md::present(o) ? mf(md::value(o)) : md::none;
          judge(cx, fl1<R>(), enc(r), want, md::present(o));
        });
    });
}

void o_join()
{
  ENTRY("optional::join");
  using OOD = opt<OD>;
  using OOOD = opt<OOD>;
  row(entry, 0, [&] {
    for (int oo = 0; oo < fin<OOD>::radix; ++oo)
      flavors1([&](auto fl) {
        constexpr bool R = fl.value;
        set_ops(oo, R);
        OOD s = dec<OOD>(oo);
        begin_eval();
        OD r = fcppt::optional::join(pass<R>(s));
        judge(cx, fl1<R>(), enc(r), md::present(oo) ? md::value(oo) : md::none, md::present(oo));
      });
    for (int oo = 0; oo < fin<OOOD>::radix; ++oo)
      flavors1([&](auto fl) {
        constexpr bool R = fl.value;
        set_ops(oo, R, 3);
        OOOD s = dec<OOOD>(oo);
        begin_eval();
        OOD r = fcppt::optional::join(pass<R>(s));
        judge(cx, fl1<R>(), enc(r), md::present(oo) ? md::value(oo) : md::none, md::present(oo));
      });
  });
}

void o_apply()
{
  [&] {
    ENTRY("optional::apply/1");
    for (long t = 0; t < 27; ++t)
      row(entry, t, [&] {
        tfn<A, D> f{1, t};
        auto mf = f.model();
        for (int o = 0; o < 4; ++o)
          flavors1([&](auto fl) {
            constexpr bool R = fl.value;
            set_ops(o, R);
            OD s = dec<OD>(o);
            begin_eval();
            OA r = fcppt::optional::apply(f, pass<R>(s));
            int want = md::present(o) ? md::some(mf(md::value(o))) : md::none;
            judge(cx, fl1<R>(), enc(r), want, md::present(o));
          });
      });
  }();
  [&] {
    ENTRY("optional::apply/2");
    for (long t : tables2("optional::apply/2"))
      row(entry, t, [&] {
        tfn<A, D, E> f{1, t};
        auto mf = f.model();
        for (int o1 = 0; o1 < 4; ++o1)
          for (int o2 = 0; o2 < 4; ++o2)
            flavors2([&](auto f1, auto f2) {
              constexpr bool R1 = f1.value, R2 = f2.value;
              set_ops(o1, o2, R1, R2);
              OD s1 = dec<OD>(o1);
              opt<E> s2 = dec<opt<E>>(o2);
              begin_eval();
              OA r = fcppt::optional::apply(f, pass<R1>(s1), pass<R2>(s2));
              bool p = md::present(o1) && md::present(o2);
              int want = p ? md::some(mf(md::value(o1), md::value(o2))) : md::none;
              judge(cx, fl2<R1, R2>(), enc(r), want, p);
            });
      });
  }();
  [&] {
    ENTRY("optional::apply/3");
    for (long t : tables3("optional::apply/3"))
      row(entry, t, [&] {
        tfn<A, D, E, B> f{1, t};
        auto mf = f.model();
        for (int o1 = 0; o1 < 4; ++o1)
          for (int o2 = 0; o2 < 4; ++o2)
            for (int o3 = 0; o3 < 4; ++o3)
              flavors1([&](auto fl) {
                constexpr bool R = fl.value;
                set_ops(o1, o2, o3, R);
                OD s1 = dec<OD>(o1);
                opt<E> s2 = dec<opt<E>>(o2);
                opt<B> s3 = dec<opt<B>>(o3);
                begin_eval();
                OA r = fcppt::optional::apply(f, pass<R>(s1), pass<false>(s2), pass<R>(s3));
                bool p = md::present(o1) && md::present(o2) && md::present(o3);
                int want = p ? md::some(mf(md::value(o1), md::value(o2), md::value(o3))) : md::none;
                judge(cx, R ? "&&,const&,&&" : "const&,const&,const&", enc(r), want, p);
              });
      });
  }();
}

void o_maybe()
{
  [&] {
    ENTRY("optional::maybe");
    for (long t = 0; t < 27; ++t)
      row(entry, t, [&] {
        tfn<A, D> f{1, t};
        auto mf = f.model();
        for (long dt = 0; dt < 3; ++dt)
        {
          tfn<A> d{2, dt};
          auto mdf = d.model();
          for (int o = 0; o < 4; ++o)
            flavors1([&](auto fl) {
              constexpr bool R = fl.value;
              set_ops(o, dt, R);
              OD s = dec<OD>(o);
              begin_eval();
              A r = fcppt::optional::maybe(pass<R>(s), d, f);
              int want = md::present(o) ? mf(md::value(o)) : mdf();
              judge(cx, fl1<R>(), enc(r), want, md::present(o));
            });
        }
      });
  }();
  [&] {
    ENTRY("optional::maybe_void");
    row(entry, 0, [&] {
      tfn<void, D> f{1, 0};
      auto mf = f.model();
      for (int o = 0; o < 4; ++o)
        flavors1([&](auto fl) {
          constexpr bool R = fl.value;
          set_ops(o, R);
          OD s = dec<OD>(o);
          begin_eval();
          fcppt::optional::maybe_void(pass<R>(s), f);
          if (md::present(o))
            mf(md::value(o));
          judge(cx, fl1<R>(), 0, 0, md::present(o));
        });
    });
  }();
  [&] {
    ENTRY("optional::maybe_multi");
    for (long t : tables2("optional::maybe_multi"))
      row(entry, t, [&] {
        tfn<A, D, E> f{1, t};
        auto mf = f.model();
        for (long dt = 0; dt < 3; ++dt)
        {
          tfn<A> d{2, dt};
          auto mdf = d.model();
          for (int o1 = 0; o1 < 4; ++o1)
            for (int o2 = 0; o2 < 4; ++o2)
              flavors2([&](auto f1, auto f2) {
                constexpr bool R1 = f1.value, R2 = f2.value;
                set_ops(o1, o2, dt, R1 * 2 + R2);
                OD s1 = dec<OD>(o1);
                opt<E> s2 = dec<opt<E>>(o2);
                begin_eval();
                A r = fcppt::optional::maybe_multi(d, f, pass<R1>(s1), pass<R2>(s2));
                bool p = md::present(o1) && md::present(o2);
                int want = p ? mf(md::value(o1), md::value(o2)) : mdf();
                judge(cx, fl2<R1, R2>(), enc(r), want, p);
              });
        }
      });
    // unary instance: must agree with maybe
    for (long t = 0; t < 27; ++t)
      row(entry, 100000 + t, [&] {
        tfn<A, D> f{1, t};
        auto mf = f.model();
        tfn<A> d{2, t % 3};
        auto mdf = d.model();
        for (int o = 0; o < 4; ++o)
          flavors1([&](auto fl) {
            constexpr bool R = fl.value;
            set_ops(o, R);
            OD s = dec<OD>(o);
            begin_eval();
            A r = fcppt::optional::maybe_multi(d, f, pass<R>(s));
            int want = md::present(o) ? mf(md::value(o)) : mdf();
            judge(cx, fl1<R>(), enc(r), want, md::present(o));
          });
      });
  }();
  [&] {
    ENTRY("optional::maybe_void_multi");
    row(entry, 0, [&] {
      tfn<void, D, E> f{1, 0};
      auto mf = f.model();
      for (int o1 = 0; o1 < 4; ++o1)
        for (int o2 = 0; o2 < 4; ++o2)
          flavors2([&](auto f1, auto f2) {
            constexpr bool R1 = f1.value, R2 = f2.value;
            set_ops(o1, o2, R1, R2);
            OD s1 = dec<OD>(o1);
            opt<E> s2 = dec<opt<E>>(o2);
            begin_eval();
            fcppt::optional::maybe_void_multi(f, pass<R1>(s1), pass<R2>(s2));
            bool p = md::present(o1) && md::present(o2);
            if (p)
              mf(md::value(o1), md::value(o2));
            judge(cx, fl2<R1, R2>(), 0, 0, p);
          });
    });
  }();
}

void o_filter()
{
  ENTRY("optional::filter");
  for (long t = 0; t < 8; ++t)
    row(entry, t, [&] {
      tfn<bool, D> f{1, t};
      auto mf = f.model();
      for (int o = 0; o < 4; ++o)
        flavors1([&](auto fl) {
          constexpr bool R = fl.value;
          set_ops(o, R);
          OD s = dec<OD>(o);
          begin_eval();
          OD r = fcppt::optional::filter(pass<R>(s), f);
          int want = md::present(o) && mf(md::value(o)) != 0 ? o : md::none;
          judge(cx, fl1<R>(), enc(r), want, md::present(o));
        });
    });
}

void o_alternative()
{
  ENTRY("optional::alternative");
  for (long t = 0; t < 4; ++t)
    row(entry, t, [&] {
      tfn<OD> g{1, t};
      auto mg = g.model();
      for (int o = 0; o < 4; ++o)
        flavors1([&](auto fl) {
          constexpr bool R = fl.value;
          set_ops(o, R);
          OD s = dec<OD>(o);
          begin_eval();
          OD r = fcppt::optional::alternative(pass<R>(s), g);
          int want = md::present(o) ? o : mg();
          // "present" here = the second alternative is evaluated
          judge(cx, fl1<R>(), enc(r), want, !md::present(o));
        });
    });
}

void o_combine()
{
  ENTRY("optional::combine");
  for (long t : tables2("optional::combine"))
    row(entry, t, [&] {
      tfn<D, D, D> f{1, t};
      auto mf = f.model();
      for (int o1 = 0; o1 < 4; ++o1)
        for (int o2 = 0; o2 < 4; ++o2)
          flavors2([&](auto f1, auto f2) {
            constexpr bool R1 = f1.value, R2 = f2.value;
            set_ops(o1, o2, R1, R2);
            OD s1 = dec<OD>(o1), s2 = dec<OD>(o2);
            begin_eval();
            OD r = fcppt::optional::combine(pass<R1>(s1), pass<R2>(s2), f);
            bool p = md::present(o1) && md::present(o2);
            int want = p ? md::some(mf(md::value(o1), md::value(o2))) : (md::present(o1) ? o1 : o2);
            judge(cx, fl2<R1, R2>(), enc(r), want, p);
          });
    });
}

void o_containers()
{
  auto const cs = containers(4);
  [&] {
    ENTRY("optional::cat");
    for (std::size_t i = 0; i < cs.size(); ++i)
      row(entry, static_cast<long>(i), [&] {
        flavors1([&](auto fl) {
          constexpr bool R = fl.value;
          set_ops(static_cast<long>(i), R);
          if (!R)
            vf::extend_case(" container=%s", show_vec(cs[i]).c_str());
          std::vector<OD> s = dec_vec<OD>(cs[i]);
          begin_eval();
          std::vector<D> r = fcppt::optional::cat<std::vector<D>>(pass<R>(s));
          std::vector<int> want;
          for (int c : cs[i])
            if (md::present(c))
              want.push_back(md::value(c));
          judge(cx, fl1<R>(), enc_vec(r), want, !want.empty());
        });
      });
  }();
  [&] {
    ENTRY("optional::sequence");
    for (std::size_t i = 0; i < cs.size(); ++i)
      row(entry, static_cast<long>(i), [&] {
        flavors1([&](auto fl) {
          constexpr bool R = fl.value;
          set_ops(static_cast<long>(i), R);
          if (!R)
            vf::extend_case(" container=%s", show_vec(cs[i]).c_str());
          std::vector<OD> s = dec_vec<OD>(cs[i]);
          begin_eval();
          opt<std::vector<D>> r = fcppt::optional::sequence<std::vector<D>>(pass<R>(s));
          bool all = true;
          std::vector<int> vals;
          for (int c : cs[i])
          {
            if (!md::present(c))
              all = false;
            else
              vals.push_back(md::value(c));
          }
          // encoded as: [-1] = nothing, otherwise the values
          std::vector<int> got = r.has_value() ? enc_vec(r.get_unsafe()) : std::vector<int>{-1};
          std::vector<int> want = all ? vals : std::vector<int>{-1};
          judge(cx, fl1<R>(), got, want, all);
        });
      });
  }();
}

void o_from_make_if()
{
  [&] {
    ENTRY("optional::from");
    for (long t = 0; t < 3; ++t)
      row(entry, t, [&] {
        tfn<D> d{1, t};
        auto mdf = d.model();
        for (int o = 0; o < 4; ++o)
          flavors1([&](auto fl) {
            constexpr bool R = fl.value;
            set_ops(o, R);
            OD s = dec<OD>(o);
            begin_eval();
            D r = fcppt::optional::from(pass<R>(s), d);
            int want = md::present(o) ? md::value(o) : mdf();
            judge(cx, fl1<R>(), enc(r), want, md::present(o));
          });
      });
  }();
  [&] {
    ENTRY("optional::make_if");
    for (long t = 0; t < 3; ++t)
      row(entry, t, [&] {
        tfn<D> d{1, t};
        auto mdf = d.model();
        for (int b = 0; b < 2; ++b)
        {
          set_ops(b);
          begin_eval();
          OD r = fcppt::optional::make_if(b != 0, d);
          int want = b ? md::some(mdf()) : md::none;
          judge(cx, "value", enc(r), want, b != 0);
        }
      });
  }();
}

template <class O>
void o_compare_one(ctx &cx, char const *tname)
{
  int const n = fin<O>::radix;
  for (int a = 0; a < n; ++a)
    for (int b = 0; b < n; ++b)
    {
      set_ops(a, b);
      O const x = dec<O>(a), y = dec<O>(b);
      begin_eval();
      // the code order is the documented order: nothing < any value, values by their own order
      judge(cx, (std::string(tname) + "/==").c_str(), x == y ? 1 : 0, a == b ? 1 : 0, md::present(a) && md::present(b));
      judge(cx, (std::string(tname) + "/!=").c_str(), x != y ? 1 : 0, a != b ? 1 : 0, md::present(a) && md::present(b));
      bool lt = md::present(a) && md::present(b) ? md::value(a) < md::value(b) : md::present(a) < md::present(b);
      judge(cx, (std::string(tname) + "/<").c_str(), x < y ? 1 : 0, lt ? 1 : 0, md::present(a) && md::present(b));
    }
}
void o_comparison()
{
  ENTRY("optional::comparison");
  row(entry, 0, [&] {
    o_compare_one<OD>(cx, "optional<D>");
    o_compare_one<opt<OD>>(cx, "optional<optional<D>>");
  });
}

// anchored or neighbouring functions the statement does not name: executed, compared, only observed
void o_observed()
{
  std::string const entry = "observed/optional";
  if (!vf::entry_enabled(entry))
    return;
  vf::set_entry(entry);
  if (!vf::mine(vf::hash_str(entry)) || !vf::begin_case("to_exception, copy_value, deref, assign, to_container, pointers"))
    return;
  for (int o = 0; o < 4; ++o)
    for (int rv = 0; rv < 2; ++rv)
    {
      set_ops(o, rv);
      vf::add_evals(1);
      // to_exception
      {
        OD s = dec<OD>(o);
        lib_log().clear();
        int got = -2;
        auto mk = [] { lib_log().push_back(call{9, 0, NOARG, NOARG, NOARG}); return xc{1}; };
        try
        {
          if (rv)
          {
            D r = fcppt::optional::to_exception(std::move(s), mk);
            got = enc(r);
          }
          else
          {
            D r = fcppt::optional::to_exception(std::as_const(s), mk);
            got = enc(r);
          }
        }
        catch (xc const &x)
        {
          got = 100 + x.v;
        }
        int want = md::present(o) ? md::value(o) : 101;
        observe("optional::to_exception", got == want && lib_log().size() == (md::present(o) ? 0U : 1U),
                "o=" + std::to_string(o) + " got=" + std::to_string(got) + " want=" + std::to_string(want));
      }
      // to_container
      {
        OD s = dec<OD>(o);
        // (a const lvalue source does not compile: container::make binds non-const references)
        std::vector<D> r = fcppt::optional::to_container<std::vector<D>>(std::move(s));
        std::vector<int> want;
        if (md::present(o))
          want.push_back(md::value(o));
        observe("optional::to_container", enc_vec(r) == want, "o=" + std::to_string(o) + " got=" + show_vec(enc_vec(r)));
      }
      if (rv)
        continue;
      // from_pointer / to_pointer / copy_value / deref
      {
        D target{o > 0 ? o - 1 : 0};
        D *p = o > 0 ? &target : nullptr;
        fcppt::optional::reference<D> ref = fcppt::optional::from_pointer(p);
        observe("optional::from_pointer", ref.has_value() == (p != nullptr) && (!p || &ref.get_unsafe().get() == p),
                "o=" + std::to_string(o));
        observe("optional::to_pointer", fcppt::optional::to_pointer(ref) == p, "o=" + std::to_string(o));
        OD cp = fcppt::optional::copy_value(ref);
        observe("optional::copy_value", enc(cp) == o, "o=" + std::to_string(o) + " got=" + std::to_string(enc(cp)));
        opt<D *> op = p ? opt<D *>{p} : opt<D *>{};
        auto dr = fcppt::optional::deref(op);
        observe("optional::deref", dr.has_value() == (p != nullptr) && (!p || &dr.get_unsafe().get() == p),
                "o=" + std::to_string(o));
      }
      // assign
      for (int nv = 0; nv < 3; ++nv)
      {
        OD s = dec<OD>(o);
        D &r = fcppt::optional::assign(s, D{nv});
        observe("optional::assign", enc(s) == md::some(nv) && &r == &s.get_unsafe(),
                "o=" + std::to_string(o) + " new=" + std::to_string(nv) + " got=" + std::to_string(enc(s)));
      }
    }
}
}
void vf_slice_0()
{
  o_object();
  o_map();
  o_bind();
  o_monad_bind();
  o_join();
  o_apply();
  o_maybe();
  o_filter();
  o_alternative();
  o_combine();
  o_containers();
  o_from_make_if();
  o_comparison();
  o_observed();
}
#endif

// =================================================================== slice 1: either
#if VF_IN_SLICE(1)
namespace
{
using OD = opt<D>;
using ED = eit<E, D>;
using EA = eit<E, A>;

void e_object()
{
  ENTRY("either::object");
  row(entry, 0, [&] {
    for (int e = 0; e < 6; ++e)
    {
      set_ops(e);
      auto state = [](ED const &x) {
        // 0..2 failure f, 3..5 success s; has_success and has_failure must be complementary
        if (x.has_success() == x.has_failure())
          return -1;
        return x.has_success() ? md::succ(enc(x.get_success_unsafe())) : md::fail(enc(x.get_failure_unsafe()));
      };
      if (md::ok(e))
      {
        D src{md::sval(e)};
        begin_eval();
        ED x(src);
        judge(cx, "success const&", state(x), e, true);
        begin_eval();
        ED y(std::move(src));
        judge(cx, "success &&", state(y), e, true);
        begin_eval();
        ED z(y);
        judge(cx, "copy", state(z) * 10 + state(y), e * 11, true);
        begin_eval();
        judge(cx, "get_success_unsafe non-const", enc(y.get_success_unsafe()), md::sval(e), true);
      }
      else
      {
        E src{md::fval(e)};
        begin_eval();
        ED x(src);
        judge(cx, "failure const&", state(x), e, true);
        begin_eval();
        ED y(std::move(src));
        judge(cx, "failure &&", state(y), e, true);
        begin_eval();
        ED z(y);
        judge(cx, "copy", state(z) * 10 + state(y), e * 11, true);
        begin_eval();
        judge(cx, "get_failure_unsafe non-const", enc(y.get_failure_unsafe()), md::fval(e), true);
      }
    }
  });
}

void e_match()
{
  ENTRY("either::match");
  for (long t = 0; t < 27 * 27; ++t)
    row(entry, t, [&] {
      tfn<A, E> ff{1, t % 27};
      tfn<A, D> sf{2, t / 27};
      auto mff = ff.model();
      auto msf = sf.model();
      for (int e = 0; e < 6; ++e)
        flavors1([&](auto fl) {
          constexpr bool R = fl.value;
          set_ops(e, R);
          ED s = dec<ED>(e);
          begin_eval();
          A r = fcppt::either::match(pass<R>(s), ff, sf);
          int want = md::ok(e) ? msf(md::sval(e)) : mff(md::fval(e));
          judge(cx, fl1<R>(), enc(r), want, md::ok(e));
        });
    });
}

void e_map()
{
  [&] {
    ENTRY("either::map");
    for (long t = 0; t < 27; ++t)
      row(entry, t, [&] {
        tfn<A, D> f{1, t};
        auto mf = f.model();
        for (int e = 0; e < 6; ++e)
          flavors1([&](auto fl) {
            constexpr bool R = fl.value;
            set_ops(e, R);
            ED s = dec<ED>(e);
            begin_eval();
            EA r = fcppt::either::map(pass<R>(s), f);
            int want = md::ok(e) ? md::succ(mf(md::sval(e))) : md::fail(md::fval(e));
            judge(cx, fl1<R>(), enc(r), want, md::ok(e));
          });
      });
  }();
  [&] {
    ENTRY("either::map_failure");
    for (long t = 0; t < 27; ++t)
      row(entry, t, [&] {
        tfn<B, E> f{1, t};
        auto mf = f.model();
        for (int e = 0; e < 6; ++e)
          flavors1([&](auto fl) {
            constexpr bool R = fl.value;
            set_ops(e, R);
            ED s = dec<ED>(e);
            begin_eval();
            eit<B, D> r = fcppt::either::map_failure(pass<R>(s), f);
            int want = md::ok(e) ? md::succ(md::sval(e)) : md::fail(mf(md::fval(e)));
            // "present" = the failure continuation is to be invoked
            judge(cx, fl1<R>(), enc(r), want, !md::ok(e));
          });
      });
  }();
}

void e_bind()
{
  [&] {
    ENTRY("either::bind");
    for (long t = 0; t < 216; ++t)
      row(entry, t, [&] {
        tfn<EA, D> f{1, t};
        auto mf = f.model();
        for (int e = 0; e < 6; ++e)
          flavors1([&](auto fl) {
            constexpr bool R = fl.value;
            set_ops(e, R);
            ED s = dec<ED>(e);
            begin_eval();
            EA r = fcppt::either::bind(pass<R>(s), f);
            int want = md::ok(e) ? mf(md::sval(e)) : md::fail(md::fval(e));
            judge(cx, fl1<R>(), enc(r), want, md::ok(e));
          });
      });
  }();
  [&] {
    ENTRY("monad::bind<either>");
    for (long t = 0; t < 216; ++t)
      row(entry, t, [&] {
        tfn<EA, D> f{1, t};
        auto mf = f.model();
        for (int e = 0; e < 6; ++e)
          flavors1([&](auto fl) {
            constexpr bool R = fl.value;
            set_ops(e, R);
            ED s = dec<ED>(e);
            begin_eval();
            EA r = fcppt::monad::bind(pass<R>(s), f);
            int want = md::ok(e) ? mf(md::sval(e)) : md::fail(md::fval(e));
            judge(cx, fl1<R>(), enc(r), want, md::ok(e));
          });
      });
  }();
  [&] {
    ENTRY("either::join");
    using EED = eit<E, ED>;
    row(entry, 0, [&] {
      for (int ee = 0; ee < fin<EED>::radix; ++ee)
        flavors1([&](auto fl) {
          constexpr bool R = fl.value;
          set_ops(ee, R);
          EED s = dec<EED>(ee);
          begin_eval();
          ED r = fcppt::either::join(pass<R>(s));
          // outer failure f1 -> f1; otherwise the inner either
          int want = md::ok(ee) ? md::sval(ee) : md::fail(md::fval(ee));
          judge(cx, fl1<R>(), enc(r), want, md::ok(ee));
        });
    });
  }();
}

void e_apply()
{
  [&] {
    ENTRY("either::apply/1");
    for (long t = 0; t < 27; ++t)
      row(entry, t, [&] {
        tfn<A, D> f{1, t};
        auto mf = f.model();
        for (int e = 0; e < 6; ++e)
          flavors1([&](auto fl) {
            constexpr bool R = fl.value;
            set_ops(e, R);
            ED s = dec<ED>(e);
            begin_eval();
            EA r = fcppt::either::apply(f, pass<R>(s));
            int want = md::ok(e) ? md::succ(mf(md::sval(e))) : md::fail(md::fval(e));
            judge(cx, fl1<R>(), enc(r), want, md::ok(e));
          });
      });
  }();
  [&] {
    ENTRY("either::apply/2");
    for (long t : tables2("either::apply/2"))
      row(entry, t, [&] {
        tfn<A, D, B> f{1, t};
        auto mf = f.model();
        for (int e1 = 0; e1 < 6; ++e1)
          for (int e2 = 0; e2 < 6; ++e2)
            flavors2([&](auto f1, auto f2) {
              constexpr bool R1 = f1.value, R2 = f2.value;
              set_ops(e1, e2, R1, R2);
              ED s1 = dec<ED>(e1);
              eit<E, B> s2 = dec<eit<E, B>>(e2);
              begin_eval();
              EA r = fcppt::either::apply(f, pass<R1>(s1), pass<R2>(s2));
              // the failure with the smallest index wins; the function only sees n successes
              int want = !md::ok(e1)   ? md::fail(md::fval(e1))
                         : !md::ok(e2) ? md::fail(md::fval(e2))
                                       : md::succ(mf(md::sval(e1), md::sval(e2)));
              judge(cx, fl2<R1, R2>(), enc(r), want, md::ok(e1) && md::ok(e2));
              // a NON-CONST lvalue as the second operand next to an rvalue / const lvalue first one: each operand is
              // taken with its own value category, so the lvalue still holds its value afterwards
              if constexpr (!R2)
              {
                ED t1 = dec<ED>(e1);
                eit<E, B> t2 = dec<eit<E, B>>(e2);
                begin_eval();
                EA r2 = fcppt::either::apply(f, pass<R1>(t1), t2);
                int const want2 = !md::ok(e1)   ? md::fail(md::fval(e1)) // (evaluating the model logs the expected call)
                                  : !md::ok(e2) ? md::fail(md::fval(e2))
                                                : md::succ(mf(md::sval(e1), md::sval(e2)));
                judge(cx, R1 ? "&&,&" : "const&,&", enc(r2), want2, md::ok(e1) && md::ok(e2));
                if (enc(t2) != e2)
                  vf::violation(cx.fn + "/" + (R1 ? "&&,&" : "const&,&") + "/lvalue-operand-modified", "mismatch",
                                "the non-const lvalue operand no longer holds its value" + ops_text());
              }
            });
      });
  }();
  [&] {
    ENTRY("either::apply/3");
    for (long t : tables3("either::apply/3"))
      row(entry, t, [&] {
        tfn<A, D, B, C> f{1, t};
        auto mf = f.model();
        for (int e1 = 0; e1 < 6; ++e1)
          for (int e2 = 0; e2 < 6; ++e2)
            for (int e3 = 0; e3 < 6; ++e3)
              flavors1([&](auto fl) {
                constexpr bool R = fl.value;
                set_ops(e1, e2, e3, R);
                ED s1 = dec<ED>(e1);
                eit<E, B> s2 = dec<eit<E, B>>(e2);
                eit<E, C> s3 = dec<eit<E, C>>(e3);
                begin_eval();
                EA r = fcppt::either::apply(f, pass<R>(s1), pass<false>(s2), pass<R>(s3));
                int want = !md::ok(e1)   ? md::fail(md::fval(e1))
                           : !md::ok(e2) ? md::fail(md::fval(e2))
                           : !md::ok(e3) ? md::fail(md::fval(e3))
                                         : md::succ(mf(md::sval(e1), md::sval(e2), md::sval(e3)));
                judge(cx, R ? "&&,const&,&&" : "const&,const&,const&", enc(r), want,
                      md::ok(e1) && md::ok(e2) && md::ok(e3));
                if constexpr (R)
                {
                  ED t1 = dec<ED>(e1);
                  eit<E, B> t2 = dec<eit<E, B>>(e2);
                  eit<E, C> t3 = dec<eit<E, C>>(e3);
                  begin_eval();
                  EA r2 = fcppt::either::apply(f, std::move(t1), t2, t3);
                  int const want2 = !md::ok(e1)   ? md::fail(md::fval(e1))
                                    : !md::ok(e2) ? md::fail(md::fval(e2))
                                    : !md::ok(e3) ? md::fail(md::fval(e3))
                                                  : md::succ(mf(md::sval(e1), md::sval(e2), md::sval(e3)));
                  judge(cx, "&&,&,&", enc(r2), want2, md::ok(e1) && md::ok(e2) && md::ok(e3));
                  if (enc(t2) != e2 || enc(t3) != e3)
                    vf::violation(cx.fn + "/&&,&,&/lvalue-operand-modified", "mismatch",
                                  "a non-const lvalue operand no longer holds its value" + ops_text());
                }
              });
      });
  }();
}

void e_sequence()
{
  auto const cs = containers(6);
  ENTRY("either::sequence");
  for (std::size_t i = 0; i < cs.size(); ++i)
    row(entry, static_cast<long>(i), [&] {
      vf::extend_case(" container=%s", show_vec(cs[i]).c_str());
      flavors1([&](auto fl) {
        constexpr bool R = fl.value;
        set_ops(static_cast<long>(i), R);
        std::vector<ED> s = dec_vec<ED>(cs[i]);
        begin_eval();
        // lvalue sources do not satisfy the constraints of either::sequence (value_type of a reference type);
        // a const rvalue takes the copying path
        eit<E, std::vector<D>> r = [&] {
          if constexpr (R)
            return fcppt::either::sequence<std::vector<D>>(std::move(s));
          else
            return fcppt::either::sequence<std::vector<D>>(std::move(std::as_const(s)));
        }();
        // first failure, else all successes; encoded as [-1, f] or the values
        std::vector<int> want;
        bool all = true;
        for (int c : cs[i])
        {
          if (!md::ok(c))
          {
            want = {-1, md::fval(c)};
            all = false;
            break;
          }
          want.push_back(md::sval(c));
        }
        std::vector<int> got = r.has_success() ? enc_vec(r.get_success_unsafe())
                                               : std::vector<int>{-1, enc(r.get_failure_unsafe())};
        judge(cx, R ? "&&" : "const&&", got, want, all);
      });
    });
}

void e_first_success()
{
  auto const cs = containers(6);
  ENTRY("either::first_success");
  for (std::size_t i = 0; i < cs.size(); ++i)
    row(entry, static_cast<long>(i), [&] {
      vf::extend_case(" functions return %s", show_vec(cs[i]).c_str());
      set_ops(static_cast<long>(i));
      // function k (role 10+k) returns the either with code cs[i][k]
      std::vector<tfn<ED>> fs;
      for (std::size_t k = 0; k < cs[i].size(); ++k)
        fs.push_back(tfn<ED>{10 + static_cast<int>(k), cs[i][k]});
      begin_eval();
      eit<std::vector<E>, D> r = fcppt::either::first_success(fs);
      // model: call f_1, f_2, ... until the first success; otherwise all failures
      std::vector<int> want{-1};
      bool found = false;
      for (std::size_t k = 0; k < fs.size(); ++k)
      {
        int c = fs[k].model()();
        if (md::ok(c))
        {
          want = {-2, md::sval(c)};
          found = true;
          break;
        }
        want.push_back(md::fval(c));
      }
      std::vector<int> got;
      if (r.has_success())
        got = {-2, enc(r.get_success_unsafe())};
      else
      {
        got = {-1};
        for (int c : enc_vec(r.get_failure_unsafe()))
          got.push_back(c);
      }
      judge(cx, "value", got, want, found);
    });
}

// functions that keep state INSIDE themselves (std::function around a mutable lambda: const-callable): first_success calls
// the container's elements, so a second first_success over the same container sees each function at its next call
void e_first_success_stateful()
{
  std::string const entry = "either::first_success/functions-with-inner-state";
  if (!vf::entry_enabled(entry))
    return;
  vf::set_entry(entry);
  using fun = std::function<ED()>;
  auto const cs = containers(3, 3);
  std::uint64_t idx = 0;
  for (auto const &first_codes : cs)
    for (auto const &second_codes : cs)
    {
      if (first_codes.size() != second_codes.size() || first_codes.empty())
        continue;
      if (!vf::mine(idx++))
        continue;
      if (!vf::begin_case("first call returns %s, second call returns %s", show_vec(first_codes).c_str(), show_vec(second_codes).c_str()))
        continue;
      vf::note_distinct(vf::hash_mix(vf::hash_str(entry), vf::hash_mix(vf::hash_str(show_vec(first_codes)), vf::hash_str(show_vec(second_codes)))));
      std::vector<fun> fs;
      for (std::size_t k = 0; k < first_codes.size(); ++k)
        fs.push_back(fun{[a = first_codes[k], b = second_codes[k], calls = 0]() mutable { return dec<ED>(calls++ == 0 ? a : b); }});
      // model: per function a call counter; a function is only called if no earlier one succeeded in that round
      std::vector<int> calls(fs.size(), 0);
      for (int round = 0; round < 2; ++round)
      {
        std::vector<int> want{-1};
        for (std::size_t k = 0; k < fs.size(); ++k)
        {
          int const c = calls[k]++ == 0 ? first_codes[k] : second_codes[k];
          if (md::ok(c))
          {
            want = {-2, md::sval(c)};
            break;
          }
          want.push_back(md::fval(c));
        }
        auto const r = fcppt::either::first_success(fs);
        std::vector<int> got;
        if (r.has_success())
          got = {-2, enc(r.get_success_unsafe())};
        else
        {
          got = {-1};
          for (int c : enc_vec(r.get_failure_unsafe()))
            got.push_back(c);
        }
        VF_COUNT("either::first_success/stateful-rounds");
        if (got != want)
          vf::violation("either::first_success/functions-with-inner-state/value", "mismatch",
                        std::string("round ") + std::to_string(round) + ": got " + show_vec(got) + " want " + show_vec(want));
      }
    }
}

// the script of results that _next returns one after the other; after the script: failure 0 and a BAD call
struct script_next
{
  std::vector<int> const *script;
  int *pos;
  ED operator()() const
  {
    int p = (*pos)++;
    bool in = p < static_cast<int>(script->size());
    lib_log().push_back(call{1, p, in ? NOARG : BAD, NOARG, NOARG});
    return dec<ED>(in ? (*script)[static_cast<std::size_t>(p)] : 0);
  }
};
void e_loop()
{
  ENTRY("either::loop");
  // scripts: k <= 4 arbitrary results followed by a failure; the model stops at the first failure
  auto const cs = containers(6);
  std::uint64_t interleave_other = 0;
  for (std::size_t i = 0; i < cs.size(); ++i)
    for (int last = 0; last < 3; ++last)
      row(entry, static_cast<long>(i) * 3 + last, [&] {
        std::vector<int> script = cs[i];
        script.push_back(md::fail(last));
        vf::extend_case(" script=%s", show_vec(script).c_str());
        set_ops(static_cast<long>(i), last);
        int pos = 0;
        script_next next{&script, &pos};
        tfn<void, D> sink{2, 0};
        begin_eval();
        E r = fcppt::either::loop(next, sink);
        // model
        int want = BAD;
        calls want_next, want_loop, want_inter;
        for (std::size_t p = 0; p < script.size(); ++p)
        {
          call n{1, static_cast<long>(p), NOARG, NOARG, NOARG};
          want_next.push_back(n);
          want_inter.push_back(n);
          if (!md::ok(script[p]))
          {
            want = md::fval(script[p]);
            break;
          }
          call l{2, 0, md::sval(script[p]), NOARG, NOARG};
          want_loop.push_back(l);
          want_inter.push_back(l);
        }
        // judged: the calls of _next and the calls of _loop, each in order; the interleaving is only observed
        calls got_next, got_loop;
        for (call const &c : lib_log())
          (c.role == 1 ? got_next : got_loop).push_back(c);
        if (!(lib_log() == want_inter) && got_next == want_next && got_loop == want_loop)
          ++interleave_other;
        lib_log() = got_next;
        lib_log().insert(lib_log().end(), got_loop.begin(), got_loop.end());
        model_log() = want_next;
        model_log().insert(model_log().end(), want_loop.begin(), want_loop.end());
        judge(cx, "value", enc(r), want, !want_loop.empty());
      });
  if (interleave_other)
    vf::observation("either::loop: _loop is not called between the _next calls in " + std::to_string(interleave_other) +
                    " scripts (interleaving is observed only)");
  // a LONG run of successes before the failure (a file parsed element by element, a long argument list): the documented
  // result - the failure, after _loop saw every success once, in order - for every length (the watchdog and the
  // sanitizers judge "returns normally"; a loop whose stack grows with the number of iterations ends in a SEGV here)
  for (long const n : {1000L, 50000L, vf::tier(400000L, 4000000L)})
  {
    if (!vf::mine(static_cast<std::uint64_t>(n)))
      continue;
    if (!vf::begin_case("either::loop with %ld successes before the failure (failure type std::string)", n))
      continue;
    vf::note_distinct(vf::hash_mix(vf::hash_str(entry), static_cast<std::uint64_t>(n)));
    using LE = fcppt::either::object<std::string, long>;
    long produced = 0, consumed = 0, sum = 0;
    bool in_order = true;
    std::string const r = fcppt::either::loop(
        [&produced, n]() -> LE {
          if (produced == n)
            return LE{std::string("the-failure-after-") + std::to_string(n)};
          return LE{produced++};
        },
        [&](long const v) {
          in_order = in_order && v == consumed;
          ++consumed;
          sum += v;
        });
    VF_COUNT("either::loop/long-runs");
    if (r != "the-failure-after-" + std::to_string(n) || consumed != n || !in_order)
      vf::violation("either::loop/long-run", "mismatch",
                    std::to_string(n) + " successes: result \"" + r + "\", _loop called " + std::to_string(consumed) + " times" + (in_order ? "" : ", out of order"));
    (void)sum;
  }
}

void e_from_optional()
{
  ENTRY("either::from_optional");
  for (long t = 0; t < 3; ++t)
    row(entry, t, [&] {
      tfn<E> ff{1, t};
      auto mff = ff.model();
      for (int o = 0; o < 4; ++o)
        flavors1([&](auto fl) {
          constexpr bool R = fl.value;
          set_ops(o, R);
          OD s = dec<OD>(o);
          begin_eval();
          ED r = fcppt::either::from_optional(pass<R>(s), ff);
          int want = md::present(o) ? md::succ(md::value(o)) : md::fail(mff());
          judge(cx, fl1<R>(), enc(r), want, md::present(o));
        });
    });
}

// returns D{t} for t < 3, throws xc{t-3} otherwise
struct thrower
{
  long table;
  D operator()() const
  {
    lib_log().push_back(call{1, table, NOARG, NOARG, NOARG});
    if (table >= 3)
      throw xc{static_cast<int>(table - 3)};
    return D{static_cast<int>(table)};
  }
};
// a small exception hierarchy: try_call<xbase> documents that the failure is to_exception(e) for the exception e that
// was thrown, so a translator that looks at the dynamic type must see the thrown object, not a base-class copy of it
struct xbase
{
  explicit xbase(int k) : v(k) {}
  xbase(xbase const &) = default;
  virtual ~xbase() = default;
  virtual int code() const { return v; }
  int v;
};
struct xmid : xbase
{
  explicit xmid(int k) : xbase(k) {}
  int code() const override { return 10 + v; }
};
struct xleaf : xmid
{
  explicit xleaf(int k) : xmid(k) {}
  int code() const override { return 20 + v; }
};

void e_try_call()
{
  ENTRY("either::try_call");
  // thrown class x caught class (base or exact) x payload: the translator reports code() and the dynamic type
  row(entry, 1000, [&] {
    for (int thrown = 0; thrown < 3; ++thrown)
      for (int k = 0; k < 3; ++k)
      {
        set_ops(thrown, k);
        begin_eval();
        auto const f = [&]() -> D {
          lib_log().push_back(call{1, thrown, NOARG, NOARG, NOARG});
          if (thrown == 0)
            throw xbase{k};
          if (thrown == 1)
            throw xmid{k};
          throw xleaf{k};
        };
        int seen_code = -1, seen_type = -1;
        auto const conv = [&](xbase const &e) {
          seen_code = e.code();
          seen_type = dynamic_cast<xleaf const *>(&e) ? 2 : dynamic_cast<xmid const *>(&e) ? 1 : 0;
          return E{k};
        };
        ED r = fcppt::either::try_call<xbase>(f, conv);
        model_log().push_back(call{1, thrown, NOARG, NOARG, NOARG});
        judge(cx, "derived-exception/value", enc(r), md::fail(k), false);
        if (seen_code != thrown * 10 + k || seen_type != thrown)
          vf::violation(cx.fn + "/derived-exception/translator-saw-a-different-object", "mismatch",
                        "thrown class " + std::to_string(thrown) + " payload " + std::to_string(k) + ": translator saw class " +
                            std::to_string(seen_type) + " code " + std::to_string(seen_code));
        VF_COUNT("try_call/derived-exception-thrown");
      }
  });
  for (long t = 0; t < 27; ++t)
    row(entry, t, [&] {
      tfn<E, xc> conv{2, t};
      auto mconv = conv.model();
      for (long ft = 0; ft < 6; ++ft)
      {
        set_ops(ft);
        thrower f{ft};
        begin_eval();
        ED r = fcppt::either::try_call<xc>(f, conv);
        model_log().push_back(call{1, ft, NOARG, NOARG, NOARG});
        int want = ft < 3 ? md::succ(static_cast<int>(ft)) : md::fail(mconv(static_cast<int>(ft - 3)));
        // "present" = the function returned normally
        judge(cx, "value", enc(r), want, ft < 3);
      }
    });
}

void e_opts()
{
  [&] {
    ENTRY("either::success_opt");
    row(entry, 0, [&] {
      for (int e = 0; e < 6; ++e)
        flavors1([&](auto fl) {
          constexpr bool R = fl.value;
          set_ops(e, R);
          ED s = dec<ED>(e);
          begin_eval();
          OD r = fcppt::either::success_opt(pass<R>(s));
          judge(cx, fl1<R>(), enc(r), md::ok(e) ? md::some(md::sval(e)) : md::none, md::ok(e));
        });
    });
  }();
  [&] {
    ENTRY("either::failure_opt");
    row(entry, 0, [&] {
      for (int e = 0; e < 6; ++e)
        flavors1([&](auto fl) {
          constexpr bool R = fl.value;
          set_ops(e, R);
          ED s = dec<ED>(e);
          begin_eval();
          opt<E> r = fcppt::either::failure_opt(pass<R>(s));
          judge(cx, fl1<R>(), enc(r), md::ok(e) ? md::none : md::some(md::fval(e)), !md::ok(e));
        });
    });
  }();
}

void e_observed()
{
  std::string const entry = "observed/either";
  if (!vf::entry_enabled(entry))
    return;
  vf::set_entry(entry);
  if (!vf::mine(vf::hash_str(entry)) ||
      !vf::begin_case("sequence_error, error_from_optional, to_exception, comparison, construct, make_*"))
    return;
  using err = fcppt::either::error<E>;
  // sequence_error: f(x) is failure table digit (0 = no error, 1..3 = failure 0..2)
  for (auto const &c : containers(3, 3))
    for (long t = 0; t < 64; ++t)
    {
      vf::add_evals(1);
      set_ops(t, static_cast<long>(c.size()));
      std::vector<D> s = dec_vec<D>(c);
      std::vector<int> seen, want_seen;
      err r = fcppt::either::sequence_error(s, [&](D const &x) {
        seen.push_back(enc(x));
        int d = digit(t, enc(x), 4);
        return d == 0 ? err{fcppt::either::no_error{}} : err{E{d - 1}};
      });
      int want = -1;
      for (int x : c)
      {
        want_seen.push_back(x);
        int d = digit(t, x, 4);
        if (d != 0)
        {
          want = d - 1;
          break;
        }
      }
      int got = r.has_failure() ? enc(r.get_failure_unsafe()) : -1;
      // judged: the documentation spells out both the result and the calls made ("calls f(x_1), ..., f(x_i) where f(x_i)
      // is the first call that returns a failure"); it always held on the pinned tree
      VF_COUNT("either::sequence_error/judged");
      if (want >= 0 && want_seen.size() < c.size())
        VF_COUNT("either::sequence_error/failure-followed-by-more-elements");
      if (got != want)
        vf::violation("either::sequence_error/result", "mismatch",
                      "table=" + std::to_string(t) + " seq=" + show_vec(c) + " got=" + std::to_string(got) + " want=" + std::to_string(want));
      if (seen != want_seen)
        vf::violation("either::sequence_error/calls", "mismatch",
                      "table=" + std::to_string(t) + " seq=" + show_vec(c) + " calls=" + show_vec(seen) + " documented calls=" + show_vec(want_seen));
    }
  for (int o = 0; o < 4; ++o)
  {
    vf::add_evals(1);
    opt<E> s = dec<opt<E>>(o);
    err r = fcppt::either::error_from_optional(std::as_const(s));
    observe("either::error_from_optional",
            md::present(o) ? (r.has_failure() && enc(r.get_failure_unsafe()) == md::value(o)) : r.has_success(),
            "o=" + std::to_string(o));
  }
  for (int e = 0; e < 6; ++e)
  {
    for (long t = 0; t < 27; ++t)
    {
      vf::add_evals(1);
      ED s = dec<ED>(e);
      int got = -2, ncalls = 0;
      try
      {
        D r = fcppt::either::to_exception(std::move(s), [&](E &&f) {
          ++ncalls;
          return xc{digit(t, enc(f), 3)};
        });
        got = enc(r);
      }
      catch (xc const &x)
      {
        got = 100 + x.v;
      }
      int want = md::ok(e) ? md::sval(e) : 100 + digit(t, md::fval(e), 3);
      observe("either::to_exception", got == want && ncalls == (md::ok(e) ? 0 : 1),
              "e=" + std::to_string(e) + " got=" + std::to_string(got) + " want=" + std::to_string(want));
    }
    for (int e2 = 0; e2 < 6; ++e2)
    {
      vf::add_evals(1);
      ED const x = dec<ED>(e), y = dec<ED>(e2);
      observe("either::comparison", (x == y) == (e == e2) && (x != y) == (e != e2),
              "a=" + std::to_string(e) + " b=" + std::to_string(e2));
    }
    {
      ED c = fcppt::either::construct(md::ok(e), [&] { return D{md::ok(e) ? md::sval(e) : 0}; },
                                      [&] { return E{md::ok(e) ? 0 : md::fval(e)}; });
      observe("either::construct", enc(c) == e, "e=" + std::to_string(e) + " got=" + std::to_string(enc(c)));
      ED m = md::ok(e) ? fcppt::either::make_success<E>(D{md::sval(e)}) : fcppt::either::make_failure<D>(E{md::fval(e)});
      observe("either::make_success/failure", enc(m) == e, "e=" + std::to_string(e));
    }
  }
}
}
void vf_slice_1()
{
  e_object();
  e_match();
  e_map();
  e_bind();
  e_apply();
  e_sequence();
  e_first_success();
  e_first_success_stateful();
  e_loop();
  e_from_optional();
  e_try_call();
  e_opts();
  e_observed();
}
#endif

// =================================================================== slice 2: variant, monad helpers
#if VF_IN_SLICE(2)
namespace
{
using V = var<A, B, C>; // 9 values: codes 0..2 = A, 3..5 = B, 6..8 = C
using W = var<D, E>;    // 6 values
inline int vidx(int code) { return code / 3; }
inline int vval(int code) { return code % 3; }

// polymorphic continuation over the alternatives of a variant: one table over the variant's codes
template <class R, class... Ts>
struct pfn
{
  int role;
  long table;
  template <class X>
  requires(std::is_same_v<std::remove_cvref_t<X>, Ts> || ...)
  R operator()(X &&x) const
  {
    using T = std::remove_cvref_t<X>;
    T local(std::forward<X>(x));
    int c = fin<T>::enc(local);
    int code = c < 0 ? BAD : var_off<T, Ts...>() + c;
    lib_log().push_back(call{role, table, code, NOARG, NOARG});
    return fin<R>::dec(code < 0 ? 0 : digit(table, code, fin<R>::radix));
  }
};
// binary polymorphic continuation; the "table" is a hash seed: result = h(seed, c1, c2) mod radix
inline int h2(long seed, int c1, int c2, int radix)
{
  return static_cast<int>(vf::hash_mix(vf::hash_mix(static_cast<std::uint64_t>(seed), static_cast<std::uint64_t>(c1)),
                                       static_cast<std::uint64_t>(c2)) %
                          static_cast<std::uint64_t>(radix));
}
template <class R>
struct pfn2
{
  int role;
  long seed;
  template <class X, class Y>
  R operator()(X &&x, Y &&y) const
  {
    using T1 = std::remove_cvref_t<X>;
    using T2 = std::remove_cvref_t<Y>;
    T1 l1(std::forward<X>(x));
    T2 l2(std::forward<Y>(y));
    int a = fin<T1>::enc(l1), b = fin<T2>::enc(l2);
    int c1 = a < 0 ? BAD : var_off<T1, A, B, C>() + a;
    int c2 = b < 0 ? BAD : var_off<T2, D, E>() + b;
    lib_log().push_back(call{role, seed, c1, c2, NOARG});
    return fin<R>::dec(c1 < 0 || c2 < 0 ? 0 : h2(seed, c1, c2, fin<R>::radix));
  }
};
// comparison continuation for variant::compare: same types only; table over (l, r) in 3x3 -> bool
struct cmpfn
{
  long table;
  template <class T>
  bool operator()(T const &l, T const &r) const
  {
    int a = fin<T>::enc(l), b = fin<T>::enc(r);
    lib_log().push_back(call{20 + var_off<T, A, B, C>() / 3, table, a, b, NOARG});
    return a < 0 || b < 0 ? false : digit(table, a + 3 * b, 2) != 0;
  }
};

void v_object()
{
  ENTRY("variant::object");
  row(entry, 0, [&] {
    for (int v = 0; v < 9; ++v)
    {
      set_ops(v);
      auto state = [](V const &x) -> int {
        // through the member functions of object_impl.hpp: type_index + get_unsafe<held type>
        if (x.is_invalid())
          return -1;
        switch (x.type_index())
        {
        case 0: return 0 + enc(x.get_unsafe<A>());
        case 1: return 3 + enc(x.get_unsafe<B>());
        case 2: return 6 + enc(x.get_unsafe<C>());
        }
        return -2;
      };
      V src = dec<V>(v);
      begin_eval();
      judge(cx, "construct", state(src), v, true);
      begin_eval();
      V cp(src);
      judge(cx, "copy", state(cp) * 10 + state(src), v * 11, true);
      begin_eval();
      V mv(std::move(cp));
      judge(cx, "move", state(mv), v, true);
      // free get_unsafe: observed
      int g = vidx(v) == 0   ? enc(fcppt::variant::get_unsafe<A>(src))
              : vidx(v) == 1 ? enc(fcppt::variant::get_unsafe<B>(src))
                             : enc(fcppt::variant::get_unsafe<C>(std::as_const(src)));
      observe("variant::get_unsafe", g == vval(v), "v=" + std::to_string(v) + " got=" + std::to_string(g));
    }
  });
}

void v_match_apply()
{
  // all 3^9 functions V -> D in thorough; a stride through them in quick
  long const n = ipow(3, 9);
  long const step = vf::tier<long>(4, 1);
  [&] {
    ENTRY("variant::match");
    for (long t = 0; t < n; t += step)
      row(entry, t, [&] {
        // the table over V's codes splits into the three per-alternative tables
        tfn<D, A> fa{1, t % 27};
        tfn<D, B> fb{2, (t / 27) % 27};
        tfn<D, C> fc{3, t / 729};
        auto ma = fa.model();
        auto mb = fb.model();
        auto mc = fc.model();
        for (int v = 0; v < 9; ++v)
          flavors1([&](auto fl) {
            constexpr bool R = fl.value;
            set_ops(v, R);
            V s = dec<V>(v);
            begin_eval();
            D r = fcppt::variant::match(pass<R>(s), fa, fb, fc);
            int want = vidx(v) == 0 ? ma(vval(v)) : vidx(v) == 1 ? mb(vval(v)) : mc(vval(v));
            judge(cx, fl1<R>(), enc(r), want, true);
          });
      });
    // continuations with a REFERENCE result type (match and apply are declared decltype(auto)): the caller gets the very
    // object the continuation returned - here the held alternative itself - not a copy of it
    row(entry, 100000, [&] {
      for (int v = 0; v < 9; ++v)
      {
        set_ops(v, 2);
        V s = dec<V>(v);
        begin_eval();
        // one result type for every alternative: a reference to one of three anchor objects
        static int anchor_storage[3] = {0, 0, 0};
        auto const pick = [&](int k) -> int & { return anchor_storage[k]; };
        decltype(auto) got = fcppt::variant::match(
            s, [&](A &) -> int & { return pick(0); }, [&](B &) -> int & { return pick(1); }, [&](C &) -> int & { return pick(2); });
        // (decltype(auto), not int&: on a tree that returns a copy this must still build and then be reported)
        if (!std::is_lvalue_reference_v<decltype(got)> || &got != &anchor_storage[vidx(v)])
          vf::violation(cx.fn + "/reference-result/not-the-returned-object", "mismatch",
                        "match with continuations returning int& did not return the object the continuation of the held alternative returned" + ops_text());
        decltype(auto) got2 = fcppt::variant::apply([&](auto &x) -> int & { return pick(std::is_same_v<std::remove_cvref_t<decltype(x)>, A> ? 0 : std::is_same_v<std::remove_cvref_t<decltype(x)>, B> ? 1 : 2); }, s);
        if (!std::is_lvalue_reference_v<decltype(got2)> || &got2 != &anchor_storage[vidx(v)])
          vf::violation("variant::apply/1/reference-result/not-the-returned-object", "mismatch",
                        "apply with a function returning int& did not return the object the function returned" + ops_text());
        decltype(auto) got3 = fcppt::variant::match(
            std::as_const(s), [&](A const &) -> int const & { return pick(0); }, [&](B const &) -> int const & { return pick(1); },
            [&](C const &) -> int const & { return pick(2); });
        if (!std::is_lvalue_reference_v<decltype(got3)> || &got3 != &anchor_storage[vidx(v)])
          vf::violation(cx.fn + "/const-reference-result/not-the-returned-object", "mismatch", "match with continuations returning int const&" + ops_text());
        VF_COUNT("variant::match/reference-returning-continuations");
        ++g_row_evals;
      }
    });
    // "absent" for a variant = the alternatives that are not held; their continuations must stay silent,
    // which the call-log comparison above checks on every evaluation
    cx.absent += cx.present * 2;
  }();
  [&] {
    ENTRY("variant::apply/1");
    for (long t = 0; t < n; t += step)
      row(entry, t, [&] {
        pfn<D, A, B, C> f{1, t};
        for (int v = 0; v < 9; ++v)
          flavors1([&](auto fl) {
            constexpr bool R = fl.value;
            set_ops(v, R);
            V s = dec<V>(v);
            begin_eval();
            D r = fcppt::variant::apply(f, pass<R>(s));
            model_log().push_back(call{1, t, v, NOARG, NOARG});
            judge(cx, fl1<R>(), enc(r), digit(t, v, 3), true);
          });
      });
    cx.absent += cx.present * 2;
  }();
  [&] {
    ENTRY("variant::apply/2");
    vf::rng g(vf::hash_mix(vf::opts().seed, vf::hash_str("variant::apply/2")));
    for (int i = 0, m = vf::tier(100, 3000); i < m; ++i)
    {
      long seed = static_cast<long>(g.below(1000000000ULL));
      row(entry, seed, [&] {
        pfn2<D> f{1, seed};
        for (int v = 0; v < 9; ++v)
          for (int w = 0; w < 6; ++w)
            flavors2([&](auto f1, auto f2) {
              constexpr bool R1 = f1.value, R2 = f2.value;
              set_ops(v, w, R1, R2);
              V s1 = dec<V>(v);
              W s2 = dec<W>(w);
              begin_eval();
              D r = fcppt::variant::apply(f, pass<R1>(s1), pass<R2>(s2));
              model_log().push_back(call{1, seed, v, w, NOARG});
              judge(cx, fl2<R1, R2>(), enc(r), h2(seed, v, w, 3), true);
            });
      });
    }
    cx.absent += cx.present * 17;
  }();
}

template <class T>
void v_to_optional_one(ctx &cx, ctx &hx, int index, char const *tname)
{
  for (int v = 0; v < 9; ++v)
  {
    bool holds = vidx(v) == index;
    flavors1([&](auto fl) {
      constexpr bool R = fl.value;
      set_ops(v, index, R);
      V s = dec<V>(v);
      begin_eval();
      opt<T> r = fcppt::variant::to_optional<T>(pass<R>(s));
      judge(cx, (std::string(tname) + "/" + fl1<R>()).c_str(), enc(r), holds ? md::some(vval(v)) : md::none, holds);
    });
    V const s = dec<V>(v);
    begin_eval();
    judge(hx, tname, fcppt::variant::holds_type<T>(s) ? 1 : 0, holds ? 1 : 0, holds);
    // to_optional_ref: observed
    {
      V m = dec<V>(v);
      fcppt::optional::reference<T> r = fcppt::variant::to_optional_ref<T>(m);
      fcppt::optional::reference<T const> rc = fcppt::variant::to_optional_ref<T const>(std::as_const(m));
      bool ok = r.has_value() == holds && rc.has_value() == holds &&
                (!holds || (enc(r.get_unsafe().get()) == vval(v) && &r.get_unsafe().get() == &rc.get_unsafe().get()));
      observe("variant::to_optional_ref", ok, "v=" + std::to_string(v) + " type=" + tname);
    }
  }
}
void v_to_optional()
{
  std::string const entry = "variant::to_optional";
  if (!vf::entry_enabled(entry))
    return;
  vf::set_entry(entry);
  ctx cx(entry), hx("variant::holds_type");
  row(entry, 0, [&] {
    v_to_optional_one<A>(cx, hx, 0, "A");
    v_to_optional_one<B>(cx, hx, 1, "B");
    v_to_optional_one<C>(cx, hx, 2, "C");
  });
}

void v_compare()
{
  [&] {
    ENTRY("variant::compare");
    for (long t = 0; t < 512; ++t)
      row(entry, t, [&] {
        cmpfn cmp{t};
        for (int a = 0; a < 9; ++a)
          for (int b = 0; b < 9; ++b)
          {
            set_ops(a, b);
            V const x = dec<V>(a), y = dec<V>(b);
            begin_eval();
            bool r = fcppt::variant::compare(x, y, cmp);
            // equal iff same held type T and compare(left.get<T>(), right.get<T>())
            bool same = vidx(a) == vidx(b);
            bool want = false;
            if (same)
            {
              model_log().push_back(call{20 + vidx(a), t, vval(a), vval(b), NOARG});
              want = digit(t, vval(a) + 3 * vval(b), 2) != 0;
            }
            judge(cx, "value", r ? 1 : 0, want ? 1 : 0, same);
          }
      });
  }();
  [&] {
    ENTRY("variant::comparison");
    row(entry, 0, [&] {
      for (int a = 0; a < 9; ++a)
        for (int b = 0; b < 9; ++b)
        {
          set_ops(a, b);
          V const x = dec<V>(a), y = dec<V>(b);
          bool same = vidx(a) == vidx(b);
          begin_eval();
          judge(cx, "==", x == y ? 1 : 0, a == b ? 1 : 0, same);
          judge(cx, "!=", x != y ? 1 : 0, a != b ? 1 : 0, same);
          // (type_index, value) lexicographically
          bool lt = vidx(a) != vidx(b) ? vidx(a) < vidx(b) : vval(a) < vval(b);
          judge(cx, "<", x < y ? 1 : 0, lt ? 1 : 0, same);
        }
    });
  }();
}


// variant::dynamic_cast_<(T_1..T_n), Cast>(base): documented as "tries to cast to T_1 first, if this fails to T_2, and so
// on; the result of the FIRST cast that succeeds is returned" (nothing if none does).  The tagged-union reading: the
// alternative held is the first T_i the object is an instance of, and it refers to the very object passed in.
// Type lists in which several types fit the same object (a class and its bases) decide between first and last.
namespace dc
{
struct root
{
  root() = default;
  root(root const &) = delete;
  root &operator=(root const &) = delete;
  virtual ~root() = default;
};
struct mid : root {};
struct leaf : mid {};
struct side : root {};
struct other_base
{
  other_base() = default;
  other_base(other_base const &) = delete;
  other_base &operator=(other_base const &) = delete;
  virtual ~other_base() = default;
};
struct other_base2
{
  other_base2() = default;
  other_base2(other_base2 const &) = delete;
  other_base2 &operator=(other_base2 const &) = delete;
  virtual ~other_base2() = default;
};
struct both : leaf, other_base {};
struct both2 : leaf, other_base, other_base2 {};

template <class T>
bool fits(root &r) { return dynamic_cast<T *>(&r) != nullptr; }

template <class Cast, class... Ts>
void one_list(char const *castname, char const *listname, root &obj, char const *objname)
{
  using types = fcppt::mpl::list::object<Ts...>;
  std::string const key = std::string("variant::dynamic_cast_/") + castname + "/(" + listname + ")";
  if (!vf::begin_case("cast=%s list=(%s) object=%s", castname, listname, objname))
    return;
  vf::sample_case(2);
  vf::note_distinct(vf::hash_str(key + objname));
  auto const res = fcppt::variant::dynamic_cast_<types, Cast>(obj);
  bool const fit[] = {fits<Ts>(obj)...};
  int want = -1;
  for (int i = 0; i < static_cast<int>(sizeof...(Ts)); ++i)
    if (fit[i])
    {
      want = i;
      break;
    }
  int nfit = 0;
  for (bool b : fit)
    nfit += b ? 1 : 0;
  VF_COUNT("dynamic_cast/cases");
  if (nfit >= 2)
    VF_COUNT("dynamic_cast/several-types-fit");
  if (want < 0)
  {
    VF_COUNT("dynamic_cast/no-type-fits");
    if (res.has_value())
      vf::violation(key + "/present-for-unrelated-object", "mismatch", std::string("object=") + objname);
    return;
  }
  if (!res.has_value())
  {
    vf::violation(key + "/absent-although-a-type-fits", "mismatch", std::string("object=") + objname);
    return;
  }
  int const got = static_cast<int>(res.get_unsafe().type_index());
  if (got != want)
    vf::violation(key + "/not-the-first-successful-cast", "mismatch",
                  std::string("object=") + objname + " held alternative #" + std::to_string(got) + ", first fitting type is #" + std::to_string(want));
  // the reference held is the object itself
  void const *const held = fcppt::variant::apply(
      [](auto const &ref) -> void const * { return dynamic_cast<void const *>(&ref.get()); }, res.get_unsafe());
  if (held != dynamic_cast<void const *>(&obj))
    vf::violation(key + "/refers-to-another-object", "mismatch", std::string("object=") + objname);
}

template <class Cast>
void all_lists(char const *castname)
{
  root r;
  mid m;
  leaf l;
  side sd;
  both b;
  struct named
  {
    root *o;
    char const *n;
  } const objs[] = {{&r, "root"}, {&m, "mid"}, {&l, "leaf"}, {&sd, "side"}, {static_cast<leaf *>(&b), "both"}};
  for (named const &o : objs)
  {
    one_list<Cast, leaf, side>(castname, "leaf,side", *o.o, o.n);
    one_list<Cast, leaf, mid>(castname, "leaf,mid", *o.o, o.n);
    one_list<Cast, mid, leaf>(castname, "mid,leaf", *o.o, o.n);
    one_list<Cast, side, mid, leaf>(castname, "side,mid,leaf", *o.o, o.n);
    one_list<Cast, leaf, mid, root>(castname, "leaf,mid,root", *o.o, o.n);
    one_list<Cast, root, mid, leaf>(castname, "root,mid,leaf", *o.o, o.n);
    one_list<Cast, side, leaf>(castname, "side,leaf", *o.o, o.n);
    one_list<Cast, mid>(castname, "mid", *o.o, o.n);
  }
}
}

void v_dynamic_cast()
{
  std::string const entry = "variant::dynamic_cast_";
  if (!vf::entry_enabled(entry))
    return;
  vf::set_entry(entry);
  dc::all_lists<fcppt::cast::dynamic_fun>("dynamic_fun");
  // cross casts (dynamic_cross_fun is for types unrelated to the static type of the argument)
  dc::both b;
  dc::both2 b2;
  dc::leaf l;
  struct named
  {
    dc::root *o;
    char const *n;
  } const objs[] = {{static_cast<dc::leaf *>(&b), "both"}, {static_cast<dc::leaf *>(&b2), "both2"}, {&l, "leaf"}};
  for (named const &o : objs)
  {
    dc::one_list<fcppt::cast::dynamic_cross_fun, dc::other_base, dc::other_base2>("dynamic_cross_fun", "other_base,other_base2", *o.o, o.n);
    dc::one_list<fcppt::cast::dynamic_cross_fun, dc::other_base2, dc::other_base>("dynamic_cross_fun", "other_base2,other_base", *o.o, o.n);
    dc::one_list<fcppt::cast::dynamic_cross_fun, dc::other_base2>("dynamic_cross_fun", "other_base2", *o.o, o.n);
  }
}

// monad::chain / do_ / return_: neither named by the statement nor anchored -> observed
void m_observed()
{
  std::string const entry = "observed/monad";
  if (!vf::entry_enabled(entry))
    return;
  vf::set_entry(entry);
  if (!vf::mine(vf::hash_str(entry)) || !vf::begin_case("chain, do_, return_ over optional and either"))
    return;
  using OD = opt<D>;
  using ED = eit<E, D>;
  for (int x = 0; x < 3; ++x)
  {
    OD r = fcppt::monad::return_<opt<fcppt::unit>>(D{x});
    observe("monad::return_<optional>", enc(r) == md::some(x), "x=" + std::to_string(x));
    ED e = fcppt::monad::return_<eit<E, fcppt::unit>>(D{x});
    observe("monad::return_<either>", enc(e) == md::succ(x), "x=" + std::to_string(x));
  }
  // chain(m, l_1, ..., l_n) is documented as bind(...bind(bind(m, l_1), l_2)..., l_n): judged, with continuations of ONE
  // type (D -> optional<D>) so that the order of the steps is a matter of values and calls (it always held on the pinned
  // tree; steps that change the type would fix the order at compile time)
  for (long t1 = 0; t1 < 64; ++t1)
    for (long t2 = 0; t2 < 64; t2 += 3)
      for (int o = 0; o < 4; ++o)
      {
        vf::add_evals(1);
        set_ops(t1, t2, o);
        tfn<opt<D>, D> f{1, t1};
        tfn<opt<D>, D> g{2, t2};
        lib_log().clear();
        opt<D> r = fcppt::monad::chain(dec<OD>(o), f, g);
        // bind(bind(o, f), g)
        int mid = md::present(o) ? digit(t1, md::value(o), 4) : md::none;
        int want = md::present(mid) ? digit(t2, md::value(mid), 4) : md::none;
        std::vector<int> want_roles;
        if (md::present(o))
          want_roles.push_back(1);
        if (md::present(mid))
          want_roles.push_back(2);
        std::vector<int> got_roles;
        for (call const &c : lib_log())
          got_roles.push_back(c.role);
        VF_COUNT("monad::chain/judged");
        if (enc(r) != want)
          vf::violation("monad::chain<optional>/value", "mismatch",
                        "f=" + std::to_string(t1) + " g=" + std::to_string(t2) + " o=" + std::to_string(o) + " got=" + std::to_string(enc(r)) + " want=" + std::to_string(want) + " (bind(bind(o, f), g))");
        else if (got_roles != want_roles)
          vf::violation("monad::chain<optional>/calls", "mismatch", "f=" + std::to_string(t1) + " g=" + std::to_string(t2) + " o=" + std::to_string(o) + " calls=" + show_vec(got_roles));
      }
  // three steps on either: the failure reported is the FIRST one met in the documented order
  for (long t = 0; t < 216; t += 5)
    for (int e = 0; e < 6; ++e)
    {
      vf::add_evals(1);
      set_ops(t, e);
      tfn<eit<E, D>, D> f{1, t}, g{2, (t * 7 + 3) % 216}, h{3, (t * 11 + 5) % 216};
      lib_log().clear();
      eit<E, D> r = fcppt::monad::chain(dec<ED>(e), f, g, h);
      int cur = e;
      for (tfn<eit<E, D>, D> const *step : {&f, &g, &h})
        if (md::ok(cur))
          cur = digit(step->table, md::sval(cur), 6);
      if (!md::ok(e))
        cur = md::fail(md::fval(e));
      if (enc(r) != cur)
        vf::violation("monad::chain<either>/value", "mismatch", "t=" + std::to_string(t) + " e=" + std::to_string(e) + " got=" + std::to_string(enc(r)) + " want=" + std::to_string(cur));
    }
  for (long t = 0; t < 216; ++t)
    for (int e = 0; e < 6; ++e)
    {
      vf::add_evals(1);
      set_ops(t, e);
      tfn<eit<E, A>, D> f{1, t};
      lib_log().clear();
      eit<E, A> r = fcppt::monad::chain(dec<ED>(e), f);
      int want = md::ok(e) ? digit(t, md::sval(e), 6) : md::fail(md::fval(e));
      observe("monad::chain<either>", enc(r) == want && lib_log().size() == (md::ok(e) ? 1U : 0U),
              "f=" + std::to_string(t) + " e=" + std::to_string(e));
    }
  // do_(m, l_1, ..., l_n) is the nesting of binds in which every step sees ALL values bound so far (do-notation): judged
  // with heap-backed values (std::string beyond the small-string size) and steps that read the earlier values
  {
    using OS = opt<std::string>;
    std::string const long_a(40, 'a');
    for (int present = 0; present < 2; ++present)
      for (int stop_at = 0; stop_at < 4; ++stop_at) // step 1..3 yields nothing; 0: none does
      {
        vf::add_evals(1);
        OS const m = present ? OS{long_a} : OS{};
        std::vector<std::string> seen;
        OS const r = fcppt::monad::do_(
            m,
            [&](std::string const &x1) {
              seen.push_back("1:" + x1);
              return stop_at == 1 ? OS{} : OS{x1 + "|one-more-long-string-value-1"};
            },
            [&](std::string const &x1, std::string const &x2) {
              seen.push_back("2:" + x1 + "," + x2);
              return stop_at == 2 ? OS{} : OS{x2 + "|" + x1 + "|two"};
            },
            [&](std::string const &x1, std::string const &x2, std::string const &x3) {
              seen.push_back("3:" + x1 + "," + x2 + "," + x3);
              return stop_at == 3 ? OS{} : OS{x1 + "/" + x2 + "/" + x3};
            });
        // the nested binds, spelled out
        std::vector<std::string> want_seen;
        OS want{};
        if (present)
        {
          std::string const x1 = long_a;
          want_seen.push_back("1:" + x1);
          if (stop_at != 1)
          {
            std::string const x2 = x1 + "|one-more-long-string-value-1";
            want_seen.push_back("2:" + x1 + "," + x2);
            if (stop_at != 2)
            {
              std::string const x3 = x2 + "|" + x1 + "|two";
              want_seen.push_back("3:" + x1 + "," + x2 + "," + x3);
              if (stop_at != 3)
                want = OS{x1 + "/" + x2 + "/" + x3};
            }
          }
        }
        VF_COUNT("monad::do_/judged");
        if (seen != want_seen)
          vf::violation("monad::do_<optional<string>>/values-seen-by-the-steps", "mismatch",
                        "present=" + std::to_string(present) + " stop_at=" + std::to_string(stop_at) + ": " + std::to_string(seen.size()) + " steps ran, the last saw \"" +
                            (seen.empty() ? std::string() : seen.back().substr(0, 60)) + "\"");
        else if (r.has_value() != want.has_value() || (r.has_value() && r.get_unsafe() != want.get_unsafe()))
          vf::violation("monad::do_<optional<string>>/value", "mismatch", "present=" + std::to_string(present) + " stop_at=" + std::to_string(stop_at));
      }
  }
  // do_: lift_a2 as in the library's own test
  for (long t : {0L, 19682L, 7625L, 12345L, 4242L})
    for (int o1 = 0; o1 < 4; ++o1)
      for (int o2 = 0; o2 < 4; ++o2)
      {
        vf::add_evals(1);
        set_ops(t, o1, o2);
        OD const a = dec<OD>(o1);
        opt<E> const b = dec<opt<E>>(o2);
        tfn<opt<A>, D, E> f{1, t}; // table over the 9 argument pairs, radix 4
        lib_log().clear();
        opt<A> r = fcppt::monad::do_(
            a, [&b](auto const &) { return b; }, [&f](auto const &x, auto const &y) { return f(x, y); });
        bool p = md::present(o1) && md::present(o2);
        int want = p ? digit(f.table, md::value(o1) + 3 * md::value(o2), 4) : md::none;
        observe("monad::do_<optional>", enc(r) == want && lib_log().size() == (p ? 1U : 0U),
                "t=" + std::to_string(t) + " o1=" + std::to_string(o1) + " o2=" + std::to_string(o2) +
                    " got=" + std::to_string(enc(r)) + " want=" + std::to_string(want));
      }
}
}
void vf_slice_2()
{
  v_object();
  v_match_apply();
  v_to_optional();
  v_compare();
  v_dynamic_cast();
  m_observed();
}
#endif

// =================================================================== laws (slices 3 and 4)
#if VF_IN_SLICE(3) || VF_IN_SLICE(4)
namespace
{
struct traced
{
  std::vector<int> code;
  calls log;
};
template <class T>
std::vector<int> enc_any(T const &x)
{
  return {enc(x)};
}
template <class T>
std::vector<int> enc_any(opt<std::vector<T>> const &x)
{
  return x.has_value() ? enc_vec(x.get_unsafe()) : std::vector<int>{-1};
}
template <class F, class T>
std::vector<int> enc_any(eit<F, std::vector<T>> const &x)
{
  return x.has_success() ? enc_vec(x.get_success_unsafe()) : std::vector<int>{-1, enc(x.get_failure_unsafe())};
}
// evaluates one side of a law: its value and the calls of the continuations it made
template <class F>
traced trace(F const &f)
{
  lib_log().clear();
  auto r = f();
  traced t{enc_any(r), lib_log()};
  lib_log().clear();
  return t;
}
struct lawctx
{
  std::string family; // "optional" / "either"
  std::string name;
  std::uint64_t n = 0, ncalls = 0;
  lawctx(std::string f, std::string nm) : family(std::move(f)), name(std::move(nm)) {}
  lawctx(lawctx const &) = delete;
  ~lawctx()
  {
    vf::count("laws/" + family, n);
    vf::count("laws/" + family + "/" + name, n);
    vf::count("calls/logged", ncalls);
  }
};
void law(lawctx &lx, char const *flavor, traced const &l, traced const &r)
{
  ++lx.n;
  ++g_row_evals;
  lx.ncalls += l.log.size() + r.log.size();
  if (!(l.code == r.code))
    vf::violation("law/" + lx.family + "/" + lx.name + "/" + flavor + "/result", "mismatch",
                  "lhs=" + show_vec(l.code) + " rhs=" + show_vec(r.code) + ops_text());
  if (!(l.log == r.log))
    vf::violation("law/" + lx.family + "/" + lx.name + "/" + flavor + "/calls", "mismatch",
                  "lhs calls=" + show_calls(l.log) + " rhs calls=" + show_calls(r.log) + ops_text());
}
// a side that is just a known value (no calls)
traced value_side(int code) { return traced{{code}, {}}; }

#define LAW(fam, nm)                                                                                         \
  std::string const entry = std::string("law/") + fam + "/" + nm;                                            \
  if (!vf::entry_enabled(entry))                                                                             \
    return;                                                                                                  \
  vf::set_entry(entry);                                                                                      \
  lawctx lx(fam, nm)

// identity continuation: returns its argument by value (copies lvalues, moves rvalues)
struct ident
{
  template <class X>
  std::remove_cvref_t<X> operator()(X &&x) const
  {
    return std::remove_cvref_t<X>(std::forward<X>(x));
  }
};
}
#endif

#if VF_IN_SLICE(3)
namespace
{
using OD = opt<D>;
using OA = opt<A>;
using OB = opt<B>;

void lo_functor()
{
  [&] {
    LAW("optional", "functor-identity");
    row(entry, 0, [&] {
      for (int o = 0; o < 4; ++o)
        flavors1([&](auto fl) {
          constexpr bool R = fl.value;
          set_ops(o, R);
          OD s = dec<OD>(o);
          law(lx, fl1<R>(), trace([&] { return fcppt::optional::map(pass<R>(s), ident{}); }), value_side(o));
        });
    });
  }();
  [&] {
    LAW("optional", "functor-fusion");
    for (long tf = 0; tf < 27; ++tf)
      row(entry, tf, [&] {
        tfn<A, D> f{1, tf};
        for (long tg = 0; tg < 27; ++tg)
        {
          tfn<B, A> g{2, tg};
          for (int o = 0; o < 4; ++o)
            flavors1([&](auto fl) {
              constexpr bool R = fl.value;
              set_ops(tg, o, R);
              OD s1 = dec<OD>(o), s2 = dec<OD>(o);
              law(lx, fl1<R>(),
                  trace([&] { return fcppt::optional::map(fcppt::optional::map(pass<R>(s1), f), g); }),
                  trace([&] { return fcppt::optional::map(pass<R>(s2), [&](auto &&x) { return g(f(FWD(x))); }); }));
            });
        }
      });
  }();
}

void lo_monad()
{
  [&] {
    LAW("optional", "monad-left-identity");
    for (long tf = 0; tf < 64; ++tf)
      row(entry, tf, [&] {
        tfn<OA, D> f{1, tf};
        for (int x = 0; x < 3; ++x)
        {
          set_ops(x);
          law(lx, "value", trace([&] { return fcppt::optional::bind(fcppt::optional::make(D{x}), f); }),
              trace([&] { return f(D{x}); }));
        }
      });
  }();
  [&] {
    LAW("optional", "monad-right-identity");
    row(entry, 0, [&] {
      for (int o = 0; o < 4; ++o)
        flavors1([&](auto fl) {
          constexpr bool R = fl.value;
          set_ops(o, R);
          OD s = dec<OD>(o);
          law(lx, fl1<R>(),
              trace([&] { return fcppt::optional::bind(pass<R>(s), [](auto &&x) { return fcppt::optional::make(FWD(x)); }); }),
              value_side(o));
        });
    });
  }();
  [&] {
    LAW("optional", "monad-associativity");
    for (long tf = 0; tf < 64; ++tf)
      row(entry, tf, [&] {
        tfn<OA, D> f{1, tf};
        for (long tg = 0; tg < 64; ++tg)
        {
          tfn<OB, A> g{2, tg};
          for (int o = 0; o < 4; ++o)
            flavors1([&](auto fl) {
              constexpr bool R = fl.value;
              set_ops(tg, o, R);
              OD s1 = dec<OD>(o), s2 = dec<OD>(o);
              law(lx, fl1<R>(),
                  trace([&] { return fcppt::optional::bind(fcppt::optional::bind(pass<R>(s1), f), g); }),
                  trace([&] {
                    return fcppt::optional::bind(pass<R>(s2), [&](auto &&x) { return fcppt::optional::bind(f(FWD(x)), g); });
                  }));
            });
        }
      });
  }();
  [&] {
    LAW("optional", "join-is-bind-identity");
    using OOD = opt<OD>;
    row(entry, 0, [&] {
      for (int oo = 0; oo < fin<OOD>::radix; ++oo)
        flavors1([&](auto fl) {
          constexpr bool R = fl.value;
          set_ops(oo, R);
          OOD s1 = dec<OOD>(oo), s2 = dec<OOD>(oo);
          law(lx, fl1<R>(), trace([&] { return fcppt::optional::join(pass<R>(s1)); }),
              trace([&] { return fcppt::optional::bind(pass<R>(s2), ident{}); }));
        });
    });
  }();
  [&] {
    LAW("optional", "map-is-bind-make");
    for (long tf = 0; tf < 27; ++tf)
      row(entry, tf, [&] {
        tfn<A, D> f{1, tf};
        for (int o = 0; o < 4; ++o)
          flavors1([&](auto fl) {
            constexpr bool R = fl.value;
            set_ops(o, R);
            OD s1 = dec<OD>(o), s2 = dec<OD>(o);
            law(lx, fl1<R>(), trace([&] { return fcppt::optional::map(pass<R>(s1), f); }), trace([&] {
                  return fcppt::optional::bind(pass<R>(s2), [&](auto &&x) { return fcppt::optional::make(f(FWD(x))); });
                }));
          });
      });
  }();
  [&] {
    LAW("optional", "bind-is-join-map");
    for (long tf = 0; tf < 64; ++tf)
      row(entry, tf, [&] {
        tfn<OA, D> f{1, tf};
        for (int o = 0; o < 4; ++o)
          flavors1([&](auto fl) {
            constexpr bool R = fl.value;
            set_ops(o, R);
            OD s1 = dec<OD>(o), s2 = dec<OD>(o);
            law(lx, fl1<R>(), trace([&] { return fcppt::optional::bind(pass<R>(s1), f); }),
                trace([&] { return fcppt::optional::join(fcppt::optional::map(pass<R>(s2), f)); }));
          });
      });
  }();
}

void lo_applicative()
{
  [&] {
    LAW("optional", "apply1-is-map");
    for (long tf = 0; tf < 27; ++tf)
      row(entry, tf, [&] {
        tfn<A, D> f{1, tf};
        for (int o = 0; o < 4; ++o)
          flavors1([&](auto fl) {
            constexpr bool R = fl.value;
            set_ops(o, R);
            OD s1 = dec<OD>(o), s2 = dec<OD>(o);
            law(lx, fl1<R>(), trace([&] { return fcppt::optional::apply(f, pass<R>(s1)); }),
                trace([&] { return fcppt::optional::map(pass<R>(s2), f); }));
          });
        // homomorphism: apply(f, make(x)) == make(f(x))
        for (int x = 0; x < 3; ++x)
        {
          set_ops(x, 9);
          law(lx, "homomorphism", trace([&] { return fcppt::optional::apply(f, fcppt::optional::make(D{x})); }),
              trace([&] { return fcppt::optional::make(f(D{x})); }));
        }
      });
  }();
  [&] {
    LAW("optional", "apply2-is-bind-map");
    for (long t : tables2("law/optional/apply2"))
      row(entry, t, [&] {
        tfn<A, D, E> f{1, t};
        for (int o1 = 0; o1 < 4; ++o1)
          for (int o2 = 0; o2 < 4; ++o2)
          {
            set_ops(o1, o2);
            OD const a = dec<OD>(o1);
            opt<E> const b = dec<opt<E>>(o2);
            law(lx, "const&,const&", trace([&] { return fcppt::optional::apply(f, a, b); }), trace([&] {
                  return fcppt::optional::bind(
                      a, [&](D const &x) { return fcppt::optional::map(b, [&](E const &y) { return f(x, y); }); });
                }));
          }
      });
  }();
  [&] {
    LAW("optional", "maybe-is-from-map");
    for (long tf = 0; tf < 27; ++tf)
      row(entry, tf, [&] {
        tfn<A, D> f{1, tf};
        for (long td = 0; td < 3; ++td)
        {
          tfn<A> d{2, td};
          for (int o = 0; o < 4; ++o)
            flavors1([&](auto fl) {
              constexpr bool R = fl.value;
              set_ops(td, o, R);
              OD s1 = dec<OD>(o), s2 = dec<OD>(o);
              law(lx, fl1<R>(), trace([&] { return fcppt::optional::maybe(pass<R>(s1), d, f); }),
                  trace([&] { return fcppt::optional::from(fcppt::optional::map(pass<R>(s2), f), d); }));
            });
        }
      });
  }();
  [&] {
    LAW("optional", "filter-is-bind");
    for (long tp = 0; tp < 8; ++tp)
      row(entry, tp, [&] {
        tfn<bool, D> p{1, tp};
        for (int o = 0; o < 4; ++o)
        {
          set_ops(o);
          OD const s = dec<OD>(o);
          law(lx, "const&", trace([&] { return fcppt::optional::filter(s, p); }), trace([&] {
                return fcppt::optional::bind(s, [&](D const &x) { return p(x) ? OD{x} : OD{}; });
              }));
        }
      });
  }();
}

void lo_alternative()
{
  [&] {
    LAW("optional", "alternative-associativity");
    row(entry, 0, [&] {
      for (int a = 0; a < 4; ++a)
        for (int b = 0; b < 4; ++b)
          for (int c = 0; c < 4; ++c)
            flavors1([&](auto fl) {
              constexpr bool R = fl.value;
              set_ops(a, b, c, R);
              OD s1 = dec<OD>(a), s2 = dec<OD>(a);
              tfn<OD> tb{2, b}, tc{3, c};
              law(lx, fl1<R>(),
                  trace([&] { return fcppt::optional::alternative(fcppt::optional::alternative(pass<R>(s1), tb), tc); }),
                  trace([&] {
                    return fcppt::optional::alternative(pass<R>(s2), [&] { return fcppt::optional::alternative(tb(), tc); });
                  }));
            });
    });
  }();
  [&] {
    LAW("optional", "alternative-identity");
    row(entry, 0, [&] {
      for (int o = 0; o < 4; ++o)
      {
        set_ops(o);
        law(lx, "left", trace([&] { return fcppt::optional::alternative(OD{}, [&] { return dec<OD>(o); }); }),
            value_side(o));
        law(lx, "right", trace([&] { return fcppt::optional::alternative(dec<OD>(o), [] { return OD{}; }); }),
            value_side(o));
      }
    });
  }();
}

void lo_sequence()
{
  LAW("optional", "sequence-is-fold-of-apply");
  auto const cs = containers(4);
  for (std::size_t i = 0; i < cs.size(); ++i)
    row(entry, static_cast<long>(i), [&] {
      vf::extend_case(" container=%s", show_vec(cs[i]).c_str());
      set_ops(static_cast<long>(i));
      std::vector<OD> const s = dec_vec<OD>(cs[i]);
      law(lx, "const&", trace([&] { return fcppt::optional::sequence<std::vector<D>>(s); }), trace([&] {
            opt<std::vector<D>> acc{std::vector<D>{}};
            for (OD const &o : s)
              acc = fcppt::optional::apply(
                  [](std::vector<D> &&v, D const &x) {
                    v.push_back(x);
                    return std::move(v);
                  },
                  std::move(acc), o);
            return acc;
          }));
    });
}
}
void vf_slice_3()
{
  lo_functor();
  lo_monad();
  lo_applicative();
  lo_alternative();
  lo_sequence();
}
#endif

#if VF_IN_SLICE(4)
namespace
{
using ED = eit<E, D>;
using EA = eit<E, A>;
using EB = eit<E, B>;

void le_functor()
{
  [&] {
    LAW("either", "functor-identity");
    row(entry, 0, [&] {
      for (int e = 0; e < 6; ++e)
        flavors1([&](auto fl) {
          constexpr bool R = fl.value;
          set_ops(e, R);
          ED s1 = dec<ED>(e), s2 = dec<ED>(e);
          law(lx, fl1<R>(), trace([&] { return fcppt::either::map(pass<R>(s1), ident{}); }), value_side(e));
          law(lx, (std::string("failure/") + fl1<R>()).c_str(),
              trace([&] { return fcppt::either::map_failure(pass<R>(s2), ident{}); }), value_side(e));
        });
    });
  }();
  [&] {
    LAW("either", "functor-fusion");
    for (long tf = 0; tf < 27; ++tf)
      row(entry, tf, [&] {
        tfn<A, D> f{1, tf};
        for (long tg = 0; tg < 27; ++tg)
        {
          tfn<B, A> g{2, tg};
          for (int e = 0; e < 6; ++e)
            flavors1([&](auto fl) {
              constexpr bool R = fl.value;
              set_ops(tg, e, R);
              ED s1 = dec<ED>(e), s2 = dec<ED>(e);
              law(lx, fl1<R>(), trace([&] { return fcppt::either::map(fcppt::either::map(pass<R>(s1), f), g); }),
                  trace([&] { return fcppt::either::map(pass<R>(s2), [&](auto &&x) { return g(f(FWD(x))); }); }));
            });
        }
      });
  }();
  [&] {
    LAW("either", "failure-functor-fusion");
    for (long tf = 0; tf < 27; ++tf)
      row(entry, tf, [&] {
        tfn<B, E> f{1, tf};
        for (long tg = 0; tg < 27; ++tg)
        {
          tfn<C, B> g{2, tg};
          for (int e = 0; e < 6; ++e)
            flavors1([&](auto fl) {
              constexpr bool R = fl.value;
              set_ops(tg, e, R);
              ED s1 = dec<ED>(e), s2 = dec<ED>(e);
              law(lx, fl1<R>(),
                  trace([&] { return fcppt::either::map_failure(fcppt::either::map_failure(pass<R>(s1), f), g); }),
                  trace([&] {
                    return fcppt::either::map_failure(pass<R>(s2), [&](auto &&x) { return g(f(FWD(x))); });
                  }));
            });
        }
      });
  }();
  [&] {
    LAW("either", "map-and-map_failure-commute");
    for (long tf = 0; tf < 27; ++tf)
      row(entry, tf, [&] {
        tfn<A, D> f{1, tf};
        for (long th = 0; th < 27; ++th)
        {
          tfn<B, E> h{2, th};
          for (int e = 0; e < 6; ++e)
            flavors1([&](auto fl) {
              constexpr bool R = fl.value;
              set_ops(th, e, R);
              ED s1 = dec<ED>(e), s2 = dec<ED>(e);
              law(lx, fl1<R>(), trace([&] { return fcppt::either::map(fcppt::either::map_failure(pass<R>(s1), h), f); }),
                  trace([&] { return fcppt::either::map_failure(fcppt::either::map(pass<R>(s2), f), h); }));
            });
        }
      });
  }();
}

void le_monad()
{
  [&] {
    LAW("either", "monad-left-identity");
    for (long tf = 0; tf < 216; ++tf)
      row(entry, tf, [&] {
        tfn<EA, D> f{1, tf};
        for (int x = 0; x < 3; ++x)
        {
          set_ops(x);
          law(lx, "value", trace([&] { return fcppt::either::bind(fcppt::either::make_success<E>(D{x}), f); }),
              trace([&] { return f(D{x}); }));
        }
      });
  }();
  [&] {
    LAW("either", "monad-right-identity");
    row(entry, 0, [&] {
      for (int e = 0; e < 6; ++e)
        flavors1([&](auto fl) {
          constexpr bool R = fl.value;
          set_ops(e, R);
          ED s = dec<ED>(e);
          law(lx, fl1<R>(), trace([&] {
                return fcppt::either::bind(pass<R>(s), [](auto &&x) { return fcppt::either::make_success<E>(FWD(x)); });
              }),
              value_side(e));
        });
    });
  }();
  [&] {
    LAW("either", "monad-associativity");
    for (long tf = 0; tf < 216; ++tf)
      row(entry, tf, [&] {
        tfn<EA, D> f{1, tf};
        for (long tg = 0; tg < 216; ++tg)
        {
          tfn<EB, A> g{2, tg};
          for (int e = 0; e < 6; ++e)
            flavors1([&](auto fl) {
              constexpr bool R = fl.value;
              set_ops(tg, e, R);
              ED s1 = dec<ED>(e), s2 = dec<ED>(e);
              law(lx, fl1<R>(), trace([&] { return fcppt::either::bind(fcppt::either::bind(pass<R>(s1), f), g); }),
                  trace([&] {
                    return fcppt::either::bind(pass<R>(s2), [&](auto &&x) { return fcppt::either::bind(f(FWD(x)), g); });
                  }));
            });
        }
      });
  }();
  [&] {
    LAW("either", "join-is-bind-identity");
    using EED = eit<E, ED>;
    row(entry, 0, [&] {
      for (int ee = 0; ee < fin<EED>::radix; ++ee)
        flavors1([&](auto fl) {
          constexpr bool R = fl.value;
          set_ops(ee, R);
          EED s1 = dec<EED>(ee), s2 = dec<EED>(ee);
          law(lx, fl1<R>(), trace([&] { return fcppt::either::join(pass<R>(s1)); }),
              trace([&] { return fcppt::either::bind(pass<R>(s2), ident{}); }));
        });
    });
  }();
  [&] {
    LAW("either", "map-is-bind-make_success");
    for (long tf = 0; tf < 27; ++tf)
      row(entry, tf, [&] {
        tfn<A, D> f{1, tf};
        for (int e = 0; e < 6; ++e)
          flavors1([&](auto fl) {
            constexpr bool R = fl.value;
            set_ops(e, R);
            ED s1 = dec<ED>(e), s2 = dec<ED>(e);
            law(lx, fl1<R>(), trace([&] { return fcppt::either::map(pass<R>(s1), f); }), trace([&] {
                  return fcppt::either::bind(pass<R>(s2), [&](auto &&x) { return fcppt::either::make_success<E>(f(FWD(x))); });
                }));
          });
      });
  }();
  [&] {
    LAW("either", "bind-is-join-map");
    for (long tf = 0; tf < 216; ++tf)
      row(entry, tf, [&] {
        tfn<EA, D> f{1, tf};
        for (int e = 0; e < 6; ++e)
          flavors1([&](auto fl) {
            constexpr bool R = fl.value;
            set_ops(e, R);
            ED s1 = dec<ED>(e), s2 = dec<ED>(e);
            law(lx, fl1<R>(), trace([&] { return fcppt::either::bind(pass<R>(s1), f); }),
                trace([&] { return fcppt::either::join(fcppt::either::map(pass<R>(s2), f)); }));
          });
      });
  }();
}

void le_applicative()
{
  [&] {
    LAW("either", "apply1-is-map");
    for (long tf = 0; tf < 27; ++tf)
      row(entry, tf, [&] {
        tfn<A, D> f{1, tf};
        for (int e = 0; e < 6; ++e)
          flavors1([&](auto fl) {
            constexpr bool R = fl.value;
            set_ops(e, R);
            ED s1 = dec<ED>(e), s2 = dec<ED>(e);
            law(lx, fl1<R>(), trace([&] { return fcppt::either::apply(f, pass<R>(s1)); }),
                trace([&] { return fcppt::either::map(pass<R>(s2), f); }));
          });
      });
  }();
  [&] {
    LAW("either", "apply2-is-bind-map");
    for (long t : tables2("law/either/apply2"))
      row(entry, t, [&] {
        tfn<A, D, B> f{1, t};
        for (int e1 = 0; e1 < 6; ++e1)
          for (int e2 = 0; e2 < 6; ++e2)
          {
            set_ops(e1, e2);
            ED const a = dec<ED>(e1);
            eit<E, B> const b = dec<eit<E, B>>(e2);
            law(lx, "const&,const&", trace([&] { return fcppt::either::apply(f, a, b); }), trace([&] {
                  return fcppt::either::bind(
                      a, [&](D const &x) { return fcppt::either::map(b, [&](B const &y) { return f(x, y); }); });
                }));
          }
      });
  }();
  [&] {
    LAW("either", "match-after-map");
    // match(map(e, f), ff, sf) == match(e, ff, sf . f)
    for (long tf = 0; tf < 27; ++tf)
      row(entry, tf, [&] {
        tfn<A, D> f{1, tf};
        for (long t2 = 0; t2 < 27; ++t2)
        {
          tfn<B, E> ff{2, t2};
          tfn<B, A> sf{3, (t2 * 7 + tf) % 27};
          for (int e = 0; e < 6; ++e)
          {
            set_ops(t2, e);
            ED const s = dec<ED>(e);
            law(lx, "const&", trace([&] { return fcppt::either::match(fcppt::either::map(s, f), ff, sf); }),
                trace([&] { return fcppt::either::match(s, ff, [&](D const &x) { return sf(f(x)); }); }));
          }
        }
      });
  }();
  [&] {
    LAW("either", "success_opt-after-from_optional");
    row(entry, 0, [&] {
      for (int o = 0; o < 4; ++o)
        for (long t = 0; t < 3; ++t)
        {
          set_ops(o, t);
          tfn<E> ff{1, t};
          opt<D> const s = dec<opt<D>>(o);
          traced l = trace([&] { return fcppt::either::success_opt(fcppt::either::from_optional(s, ff)); });
          l.log.clear(); // the failure function is called for nothing; only the value is compared
          law(lx, "const&", l, value_side(o));
        }
    });
  }();
}

void le_sequence()
{
  LAW("either", "sequence-is-fold-of-apply");
  auto const cs = containers(6);
  for (std::size_t i = 0; i < cs.size(); ++i)
    row(entry, static_cast<long>(i), [&] {
      vf::extend_case(" container=%s", show_vec(cs[i]).c_str());
      set_ops(static_cast<long>(i));
      std::vector<ED> const s = dec_vec<ED>(cs[i]);
      law(lx, "&&", trace([&] { return fcppt::either::sequence<std::vector<D>>(std::vector<ED>(s)); }), trace([&] {
            eit<E, std::vector<D>> acc{std::vector<D>{}};
            for (ED const &e : s)
              acc = fcppt::either::apply(
                  [](std::vector<D> &&v, D const &x) {
                    v.push_back(x);
                    return std::move(v);
                  },
                  std::move(acc), e);
            return acc;
          }));
    });
}
}
void vf_slice_4()
{
  le_functor();
  le_monad();
  le_applicative();
  le_sequence();
}
#endif

//SLICES

#if VF_SLICE < 0
void vf_slice_0();
void vf_slice_1();
void vf_slice_2();
void vf_slice_3();
void vf_slice_4();
namespace
{
void body()
{
  // combinators with a continuation / a held alternative: both branches must have been reached
  for (char const *f :
       {"optional::map", "optional::bind", "monad::bind<optional>", "optional::join", "optional::apply/1",
        "optional::apply/2", "optional::apply/3", "optional::maybe", "optional::maybe_void", "optional::maybe_multi",
        "optional::maybe_void_multi", "optional::filter", "optional::alternative", "optional::combine",
        "optional::cat", "optional::sequence", "optional::from", "optional::make_if", "optional::comparison",
        "either::match", "either::map", "either::map_failure", "either::bind", "monad::bind<either>", "either::join",
        "either::apply/1", "either::apply/2", "either::apply/3", "either::sequence", "either::first_success",
        "either::loop", "either::from_optional", "either::try_call", "either::success_opt", "either::failure_opt",
        "variant::match", "variant::apply/1", "variant::apply/2", "variant::to_optional", "variant::holds_type",
        "variant::compare", "variant::comparison"})
  {
    vf::require_bucket(std::string(f) + "/present");
    vf::require_bucket(std::string(f) + "/absent");
  }
  for (char const *b : {"calls/logged", "laws/optional", "laws/either", "optional::object/present",
                        "either::object/present", "variant::object/present"})
    vf::require_bucket(b);
  vf_slice_0();
  vf_slice_1();
  vf_slice_2();
  vf_slice_3();
  vf_slice_4();
}
}
VF_MAIN(body)
#endif
