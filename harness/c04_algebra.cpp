// C04: optional / either / variant combinators satisfy their algebraic specification.
//
// Every value of the finite types used here (val<Tag> over {0,1,2}, optionals / eithers / variants of
// them, nested) has a *code* (a small integer, see fin<T>).  The oracle is a tagged-union model that
// works on codes only and is written from the documentation of each combinator.  Continuations are
// table-driven function objects (tfn): the function with table id t maps the argument with code i to
// the value whose code is the i-th digit of t, so that enumerating t enumerates ALL functions between
// the finite domains.  Every call of a continuation is logged as (role, table, argument codes); the
// model's continuations (mfn) produce the expected call list while the model is evaluated, and the
// two lists are compared (exactly once, order, short-circuit position, never for an absent value).
//
// val<Tag> marks a moved-from object with -7, so a continuation that receives an object that was
// already consumed (e.g. a second invocation with the same rvalue) shows up as a BAD argument code.
//
// Slices: 0 optional, 1 either, 2 variant + monad, 3 optional laws, 4 either laws.
#include <vf.hpp>

#include <fcppt/const.hpp>
#include <fcppt/make_ref.hpp>
#include <fcppt/reference.hpp>
#include <fcppt/unit.hpp>
#include <fcppt/either/apply.hpp>
#include <fcppt/either/bind.hpp>
#include <fcppt/either/comparison.hpp>
#include <fcppt/either/construct.hpp>
#include <fcppt/either/error.hpp>
#include <fcppt/either/error_from_optional.hpp>
#include <fcppt/either/failure_opt.hpp>
#include <fcppt/either/first_success.hpp>
#include <fcppt/either/from_optional.hpp>
#include <fcppt/either/join.hpp>
#include <fcppt/either/loop.hpp>
#include <fcppt/either/make_failure.hpp>
#include <fcppt/either/make_success.hpp>
#include <fcppt/either/map.hpp>
#include <fcppt/either/map_failure.hpp>
#include <fcppt/either/match.hpp>
#include <fcppt/either/monad.hpp>
#include <fcppt/either/no_error.hpp>
#include <fcppt/either/object.hpp>
#include <fcppt/either/sequence.hpp>
#include <fcppt/either/sequence_error.hpp>
#include <fcppt/either/success_opt.hpp>
#include <fcppt/either/to_exception.hpp>
#include <fcppt/either/try_call.hpp>
#include <fcppt/monad/bind.hpp>
#include <fcppt/monad/chain.hpp>
#include <fcppt/monad/do.hpp>
#include <fcppt/monad/return.hpp>
#include <fcppt/optional/alternative.hpp>
#include <fcppt/optional/apply.hpp>
#include <fcppt/optional/assign.hpp>
#include <fcppt/optional/bind.hpp>
#include <fcppt/optional/cat.hpp>
#include <fcppt/optional/combine.hpp>
#include <fcppt/optional/comparison.hpp>
#include <fcppt/optional/copy_value.hpp>
#include <fcppt/optional/deref.hpp>
#include <fcppt/optional/filter.hpp>
#include <fcppt/optional/from.hpp>
#include <fcppt/optional/from_pointer.hpp>
#include <fcppt/optional/join.hpp>
#include <fcppt/optional/make.hpp>
#include <fcppt/optional/make_if.hpp>
#include <fcppt/optional/map.hpp>
#include <fcppt/optional/maybe.hpp>
#include <fcppt/optional/maybe_multi.hpp>
#include <fcppt/optional/maybe_void.hpp>
#include <fcppt/optional/maybe_void_multi.hpp>
#include <fcppt/optional/monad.hpp>
#include <fcppt/optional/object.hpp>
#include <fcppt/optional/reference.hpp>
#include <fcppt/optional/sequence.hpp>
#include <fcppt/optional/to_container.hpp>
#include <fcppt/optional/to_exception.hpp>
#include <fcppt/optional/to_pointer.hpp>
#include <fcppt/variant/apply.hpp>
#include <fcppt/variant/compare.hpp>
#include <fcppt/variant/comparison.hpp>
#include <fcppt/variant/get_unsafe.hpp>
#include <fcppt/variant/holds_type.hpp>
#include <fcppt/variant/match.hpp>
#include <fcppt/variant/object.hpp>
#include <fcppt/variant/to_optional.hpp>
#include <fcppt/variant/to_optional_ref.hpp>

#include <cstdint>
#include <sstream>
#include <string>
#include <type_traits>
#include <utility>
#include <variant>
#include <vector>

#ifndef VF_SLICE
#define VF_SLICE -2 // single translation unit build: everything
#endif
#define VF_IN_SLICE(i) (VF_SLICE == (i) || VF_SLICE == -2)
#define FWD(x) std::forward<decltype(x)>(x)

namespace
{
constexpr int BAD = -1000;  // code of a value outside its domain (moved-from, garbage)
constexpr int NOARG = -1;   // unused argument slot of a logged call

// ------------------------------------------------------------------ the value domain
template <int Tag>
struct val
{
  int v;
  explicit val(int x) : v(x) {}
  val(val const &o) : v(o.v) {}
  val(val &&o) noexcept : v(o.v) { o.v = -7; }
  val &operator=(val const &o)
  {
    v = o.v;
    return *this;
  }
  val &operator=(val &&o) noexcept
  {
    int x = o.v;
    o.v = -7;
    v = x;
    return *this;
  }
  friend bool operator==(val const &a, val const &b) { return a.v == b.v; }
  friend bool operator!=(val const &a, val const &b) { return a.v != b.v; }
  friend bool operator<(val const &a, val const &b) { return a.v < b.v; }
};
using D = val<0>; // the main domain
using E = val<1>; // failures
using A = val<2>;
using B = val<3>;
using C = val<4>;
struct xc // exception type for try_call / to_exception
{
  int v;
};

template <class T>
using opt = fcppt::optional::object<T>;
template <class F, class S>
using eit = fcppt::either::object<F, S>;
template <class... Ts>
using var = fcppt::variant::object<Ts...>;

// ------------------------------------------------------------------ codes of finite types
template <class T>
struct fin;
template <int Tag>
struct fin<val<Tag>>
{
  static constexpr int radix = 3;
  static int enc(val<Tag> const &x) { return x.v >= 0 && x.v < 3 ? x.v : BAD; }
  static val<Tag> dec(int d) { return val<Tag>{d}; }
};
template <>
struct fin<xc>
{
  static constexpr int radix = 3;
  static int enc(xc const &x) { return x.v >= 0 && x.v < 3 ? x.v : BAD; }
  static xc dec(int d) { return xc{d}; }
};
template <>
struct fin<bool>
{
  static constexpr int radix = 2;
  static int enc(bool b) { return b ? 1 : 0; }
  static bool dec(int d) { return d != 0; }
};
template <>
struct fin<fcppt::unit>
{
  static constexpr int radix = 1;
  static int enc(fcppt::unit const &) { return 0; }
  static fcppt::unit dec(int) { return fcppt::unit{}; }
};
template <class T>
struct fin<fcppt::optional::object<T>>
{
  static constexpr int radix = 1 + fin<T>::radix;
  static int enc(opt<T> const &o)
  {
    if (!o.has_value())
      return 0;
    int c = fin<T>::enc(o.get_unsafe());
    return c < 0 ? BAD : 1 + c;
  }
  static opt<T> dec(int d) { return d == 0 ? opt<T>{} : opt<T>{fin<T>::dec(d - 1)}; }
};
template <class F, class S>
struct fin<fcppt::either::object<F, S>>
{
  static constexpr int rf = fin<F>::radix;
  static constexpr int radix = fin<F>::radix + fin<S>::radix;
  static int enc(eit<F, S> const &e)
  {
    if (e.has_success() == e.has_failure())
      return BAD;
    int c = e.has_success() ? fin<S>::enc(e.get_success_unsafe()) : fin<F>::enc(e.get_failure_unsafe());
    return c < 0 ? BAD : (e.has_success() ? rf + c : c);
  }
  static eit<F, S> dec(int d) { return d < rf ? eit<F, S>{fin<F>::dec(d)} : eit<F, S>{fin<S>::dec(d - rf)}; }
};
template <class X, class T, class... Rest>
constexpr int var_off()
{
  if constexpr (std::is_same_v<X, T>)
    return 0;
  else
    return fin<T>::radix + var_off<X, Rest...>();
}
template <class V, class T, class... Rest>
V var_dec(int d)
{
  if constexpr (sizeof...(Rest) == 0)
    return V{fin<T>::dec(d)};
  else
  {
    if (d < fin<T>::radix)
      return V{fin<T>::dec(d)};
    return var_dec<V, Rest...>(d - fin<T>::radix);
  }
}
template <class... Ts>
struct fin<fcppt::variant::object<Ts...>>
{
  static constexpr int radix = (fin<Ts>::radix + ...);
  // decoded through the std::variant itself, not through the fcppt accessors under test
  static int enc(var<Ts...> const &v)
  {
    return std::visit(
        [](auto const &x) {
          using X = std::remove_cvref_t<decltype(x)>;
          int c = fin<X>::enc(x);
          return c < 0 ? BAD : var_off<X, Ts...>() + c;
        },
        v.impl());
  }
  static var<Ts...> dec(int d) { return var_dec<var<Ts...>, Ts...>(d); }
};
template <class T>
int enc(T const &x)
{
  return fin<T>::enc(x);
}
template <class T>
T dec(int d)
{
  return fin<T>::dec(d);
}
template <class T>
std::vector<int> enc_vec(std::vector<T> const &v)
{
  std::vector<int> r;
  for (auto const &x : v)
    r.push_back(enc(x));
  return r;
}
template <class T>
std::vector<T> dec_vec(std::vector<int> const &v)
{
  std::vector<T> r;
  r.reserve(v.size());
  for (int c : v)
    r.push_back(dec<T>(c));
  return r;
}
std::string show_vec(std::vector<int> const &v)
{
  std::string r = "[";
  for (std::size_t i = 0; i < v.size(); ++i)
    r += (i ? "," : "") + std::to_string(v[i]);
  return r + "]";
}

// ------------------------------------------------------------------ the tagged-union model on codes
namespace md
{
constexpr int none = 0;
inline int some(int x) { return 1 + x; }
inline bool present(int o) { return o != 0; }
inline int value(int o) { return o - 1; }
// eithers whose failure type has radix 3 (E): codes 0..2 are failures, 3.. are successes
constexpr int RF = 3;
inline int fail(int f) { return f; }
inline int succ(int s) { return RF + s; }
inline bool ok(int e) { return e >= RF; }
inline int sval(int e) { return e - RF; }
inline int fval(int e) { return e; }
}

// ------------------------------------------------------------------ call logs
struct call
{
  int role;
  long table;
  int a, b, c;
  friend bool operator==(call const &x, call const &y)
  {
    return x.role == y.role && x.table == y.table && x.a == y.a && x.b == y.b && x.c == y.c;
  }
  friend bool operator<(call const &x, call const &y)
  {
    return std::tie(x.role, x.table, x.a, x.b, x.c) < std::tie(y.role, y.table, y.a, y.b, y.c);
  }
};
using calls = std::vector<call>;
calls &lib_log()
{
  static calls l;
  return l;
}
calls &model_log()
{
  static calls l;
  return l;
}
std::string show_calls(calls const &l)
{
  std::string r = "[";
  for (std::size_t i = 0; i < l.size(); ++i)
  {
    r += (i ? " " : "") + std::string("r") + std::to_string(l[i].role) + "#" + std::to_string(l[i].table) + "(";
    if (l[i].a != NOARG)
      r += std::to_string(l[i].a);
    if (l[i].b != NOARG)
      r += "," + std::to_string(l[i].b);
    if (l[i].c != NOARG)
      r += "," + std::to_string(l[i].c);
    r += ")";
  }
  return r + "]";
}

inline int digit(long table, long idx, int radix)
{
  for (long i = 0; i < idx; ++i)
    table /= radix;
  return static_cast<int>(table % radix);
}
inline long ipow(long b, int e)
{
  long r = 1;
  while (e-- > 0)
    r *= b;
  return r;
}

// model continuation: same table as the tfn it mirrors; records the expected call
template <class R, class... As>
struct mfn
{
  int role;
  long table;
  template <class... Is>
  int operator()(Is... codes) const
  {
    static_assert(sizeof...(Is) == sizeof...(As));
    call c{role, table, NOARG, NOARG, NOARG};
    int *slot[3] = {&c.a, &c.b, &c.c};
    int const cs[sizeof...(Is) + 1] = {codes..., 0};
    int const rs[sizeof...(As) + 1] = {fin<As>::radix..., 0};
    long idx = 0, mul = 1;
    for (std::size_t k = 0; k < sizeof...(Is); ++k)
    {
      *slot[k] = cs[k];
      idx += cs[k] * mul;
      mul *= rs[k];
    }
    model_log().push_back(c);
    if constexpr (std::is_void_v<R>)
      return 0;
    else
      return digit(table, idx, fin<R>::radix);
  }
};

// library-side continuation: consumes its arguments (moves from rvalues), logs, returns the table entry
template <class R, class... As>
struct tfn
{
  int role;
  long table;
  mfn<R, As...> model() const { return mfn<R, As...>{role, table}; }
  template <class... Xs>
  requires(sizeof...(Xs) == sizeof...(As)) && (std::is_same_v<std::remove_cvref_t<Xs>, As> && ...)
  R operator()(Xs &&...xs) const
  {
    call c{role, table, NOARG, NOARG, NOARG};
    int *slot[3] = {&c.a, &c.b, &c.c};
    int k = 0;
    long idx = 0, mul = 1;
    bool bad = false;
    auto take = [&]<class Aa, class X>(std::type_identity<Aa>, X &&x) {
      Aa local(std::forward<X>(x));
      int cd = fin<Aa>::enc(local);
      *slot[k++] = cd;
      if (cd < 0)
        bad = true;
      else
        idx += cd * mul;
      mul *= fin<Aa>::radix;
    };
    (take(std::type_identity<As>{}, std::forward<Xs>(xs)), ...);
    lib_log().push_back(c);
    if constexpr (std::is_void_v<R>)
      return;
    else
      return fin<R>::dec(bad ? 0 : digit(table, idx, fin<R>::radix));
  }
};

// ------------------------------------------------------------------ judging
long g_ops[4] = {0, 0, 0, 0};
inline void set_ops(long a, long b = 0, long c = 0, long d = 0)
{
  g_ops[0] = a;
  g_ops[1] = b;
  g_ops[2] = c;
  g_ops[3] = d;
  vf::operands(a, b, c, d);
}
std::uint64_t g_row_evals = 0;

struct ctx
{
  std::string fn;
  std::uint64_t present = 0, absent = 0, ncalls = 0, evals = 0;
  explicit ctx(std::string f) : fn(std::move(f)) {}
  ctx(ctx const &) = delete;
  ~ctx()
  {
    vf::count(fn + "/present", present);
    vf::count(fn + "/absent", absent);
    vf::count("calls/logged", ncalls);
    vf::count("evals/" + fn, evals);
  }
};

std::string ops_text()
{
  return " ops=(" + std::to_string(g_ops[0]) + "," + std::to_string(g_ops[1]) + "," + std::to_string(g_ops[2]) + "," +
         std::to_string(g_ops[3]) + ")";
}

// compares the library's call log with the model's, classifies a difference
void judge_calls(ctx &cx, char const *flavor)
{
  calls &got = lib_log();
  calls &want = model_log();
  cx.ncalls += got.size();
  if (!(got == want))
  {
    char const *cls;
    if (got.size() > want.size())
      cls = want.empty() ? "invoked-for-absent" : "invoked-too-often";
    else if (got.size() < want.size())
      cls = "not-invoked";
    else
    {
      calls a = got, b = want;
      std::sort(a.begin(), a.end());
      std::sort(b.begin(), b.end());
      cls = a == b ? "order" : "wrong-call";
    }
    vf::violation(cx.fn + "/" + flavor + "/calls-" + cls, "mismatch",
                  "calls=" + show_calls(got) + " expected=" + show_calls(want) + ops_text());
  }
  got.clear();
  want.clear();
}
template <class G>
void judge(ctx &cx, char const *flavor, G const &got, G const &want, bool present)
{
  ++cx.evals;
  ++g_row_evals;
  ++(present ? cx.present : cx.absent);
  if (!(got == want))
  {
    std::ostringstream o;
    if constexpr (std::is_same_v<G, std::vector<int>>)
      o << "got=" << show_vec(got) << " want=" << show_vec(want);
    else
      o << "got=" << got << " want=" << want;
    vf::violation(cx.fn + "/" + flavor + "/result", "mismatch", o.str() + ops_text());
  }
  judge_calls(cx, flavor);
}
inline void begin_eval()
{
  lib_log().clear();
  model_log().clear();
}

// one row = one begin_case: (entry, table id) with all values / flavours inside
template <class Body>
void row(std::string const &entry, long table, Body const &body)
{
  static std::string last;
  static std::uint64_t idx = 0;
  if (last != entry)
  {
    last = entry;
    idx = 0;
  }
  if (!vf::mine(vf::hash_str(entry) % 1024 + idx++))
    return;
  if (!vf::begin_case("table=%ld", table))
    return;
  vf::sample_case(1);
  vf::note_distinct(vf::hash_mix(vf::hash_str(entry), static_cast<std::uint64_t>(table)));
  g_row_evals = 0;
  body();
  if (g_row_evals > 1)
    vf::add_evals(g_row_evals - 1);
}

// value categories: const lvalue or rvalue
template <bool R, class T>
decltype(auto) pass(T &s)
{
  if constexpr (R)
    return std::move(s);
  else
    return std::as_const(s);
}
template <bool R>
constexpr char const *fl1()
{
  return R ? "&&" : "const&";
}
template <bool R1, bool R2>
constexpr char const *fl2()
{
  return R1 ? (R2 ? "&&,&&" : "&&,const&") : (R2 ? "const&,&&" : "const&,const&");
}
template <class K>
void flavors1(K const &k)
{
  k(std::false_type{});
  k(std::true_type{});
}
template <class K>
void flavors2(K const &k)
{
  k(std::false_type{}, std::false_type{});
  k(std::true_type{}, std::true_type{});
  k(std::false_type{}, std::true_type{});
  k(std::true_type{}, std::false_type{});
}

#define ENTRY(name)                                                                                          \
  std::string const entry = name;                                                                            \
  if (!vf::entry_enabled(entry))                                                                             \
    return;                                                                                                  \
  vf::set_entry(entry);                                                                                      \
  ctx cx(entry)

// function tables D x D -> R (3^9): constants, projections and a sample (quick) or all (thorough)
std::vector<long> tables2(char const *what)
{
  std::vector<long> r;
  long const n = ipow(3, 9);
  if (vf::thorough())
  {
    for (long t = 0; t < n; ++t)
      r.push_back(t);
    return r;
  }
  r.push_back(0);                                // constant 0
  r.push_back((n - 1) / 2);                      // constant 1
  r.push_back(n - 1);                            // constant 2
  {
    long p1 = 0, p2 = 0;
    for (int b = 2; b >= 0; --b)
      for (int a = 2; a >= 0; --a)
      {
        p1 = p1 * 3 + a;
        p2 = p2 * 3 + b;
      }
    r.push_back(p1); // first projection
    r.push_back(p2); // second projection
  }
  vf::rng g(vf::hash_mix(vf::opts().seed, vf::hash_str(what)));
  for (int i = 0; i < 100; ++i)
    r.push_back(static_cast<long>(g.below(static_cast<std::uint64_t>(n))));
  return r;
}
// sampled function tables D x D x D -> R (3^27)
std::vector<long> tables3(char const *what)
{
  std::vector<long> r;
  long const n = ipow(3, 27);
  r.push_back(0);
  r.push_back(n - 1);
  vf::rng g(vf::hash_mix(vf::opts().seed, vf::hash_str(what)));
  for (int i = 0, m = vf::tier(30, 400); i < m; ++i)
    r.push_back(static_cast<long>(g.below(static_cast<std::uint64_t>(n))));
  return r;
}
// all containers (as code vectors) over `radix` up to length 4, in a fixed order
std::vector<std::vector<int>> containers(int radix, int maxlen = 4)
{
  std::vector<std::vector<int>> r;
  for (int len = 0; len <= maxlen; ++len)
  {
    long n = ipow(radix, len);
    for (long i = 0; i < n; ++i)
    {
      std::vector<int> v;
      long x = i;
      for (int k = 0; k < len; ++k)
      {
        v.push_back(static_cast<int>(x % radix));
        x /= radix;
      }
      r.push_back(v);
    }
  }
  return r;
}
void observe(char const *name, bool ok, std::string const &text)
{
  vf::count(std::string("observed/") + name);
  if (!ok)
    vf::observation(std::string(name) + ": " + text + " (observed only; not judged by C04)");
}
} // namespace

//SLICES
