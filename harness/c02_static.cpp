// C02, second harness: naturally typed grammars (the compile-time result plumbing of fcppt.parse).
//
// The fixtures (harness/gen/c02_fixtures.py -> build/.../gen_c02_static/c02s_fix_*.cpp) are written with the
// natural operators and unerased result types, so that detail/sequence_result, flatten_tuples, combine_tuples,
// make_tuple, alternative_result / alternative_list / make_alternative, repetition_result, as_struct, construct,
// convert on tuples, optional/separator/list results, typed grammar rules and the JSON grammar are all in play.
// The real result is printed by a generic printer (c02_static.hpp) into a canonical string.
//
// This file is the REFERENCE: an interpreter of the same grammar (as an AST) on (string, index) that implements
//   * the PEG semantics of DESIGN.md section C02 (the same rules as the `interp` of c02_peg.cpp), and
//   * the DOCUMENTED result-type rules (sequence_result.hpp, alternative_result.hpp, repetition_result.hpp, the
//     overview table of doc/files/modules/parse.doxygen, the \brief of as_struct/construct/convert/...):
//       sequence   : unit on either side disappears; otherwise both sides are made tuples (a non-tuple T becomes
//                    tuple<T>) and concatenated, left elements first;
//       alternative: both sides are made type lists (a variant contributes its types, anything else itself), the
//                    lists are appended and duplicates removed; one remaining type T -> T, otherwise variant<...>;
//                    the value is the successful branch's value, held as its own type;
//       repetition : vector<T>, but basic_string<T> when T is the character type; repetition_plus the same;
//       optional<T>, separator/list -> vector<T> (always a vector), not_/ignore/literal/string/epsilon -> unit,
//       lexeme/fatal/named/base -> T, recursive -> fcppt::recursive<T>, as_struct -> Result{t_1,...,t_n},
//       construct -> Result{t}, convert -> f(t), convert_const -> the constant, convert_if -> f(t) or failure.
// and prints the expected value in the same canonical form.  It never calls the library.
#include <vf.hpp>

#include <c02_static.hpp>

#include <cinttypes>
#include <cstdlib>
#include <limits>
#include <optional>
#include <set>
#include <unordered_set>

void c02s_register_all(std::vector<c02s::fixture> &);

namespace
{
using namespace c02s;

[[noreturn]] void harness_bug(std::string const &what)
{
  std::fprintf(stderr, "c02_static: harness bug: %s\n", what.c_str());
  std::abort();
}

// ------------------------------------------------------------------ result types (documented rules)
Ty compute_type(Node const &n, bool wide);
Ty const &type_of(Node const &n, bool wide)
{
  if (!n.have[wide])
  {
    n.inferred[wide] = compute_type(n, wide);
    n.have[wide] = true;
  }
  return n.inferred[wide];
}
std::vector<Ty> as_tuple_list(Ty const &t) { return t.k == Ty::Tuple ? t.a : std::vector<Ty>{t}; }
std::vector<Ty> as_variant_list(Ty const &t) { return t.k == Ty::Variant ? t.a : std::vector<Ty>{t}; }
std::vector<Ty> alternative_types(Ty const &l, Ty const &r, bool wide)
{
  std::vector<Ty> all = as_variant_list(l);
  for (Ty const &t : as_variant_list(r))
    all.push_back(t);
  std::vector<Ty> uniq;
  for (Ty const &t : all)
  {
    bool seen = false;
    for (Ty const &u : uniq)
      seen = seen || key(u, wide) == key(t, wide);
    if (!seen)
      uniq.push_back(t);
  }
  return uniq;
}
Ty conv_type(std::string const &fn, Ty const &a)
{
  auto need = [&](bool ok) {
    if (!ok)
      harness_bug("conversion " + fn + " applied to " + key(a, false));
  };
  if (fn == "ord") { need(a.k == Ty::Ch); return T::i(); }
  if (fn == "cat2") { need(a.k == Ty::Tuple && a.a.size() == 2 && a.a[0].k == Ty::Ch); return T::str(); }
  if (fn == "mix") { need(a.k == Ty::Tuple && a.a.size() == 2 && a.a[0].k == Ty::Int); return T::l(); }
  if (fn == "size") { need(a.k == Ty::Vec || a.k == Ty::Str); return T::u(); }
  if (fn == "get0" || fn == "get1" || fn == "get2")
  {
    std::size_t i = static_cast<std::size_t>(fn[3] - '0');
    need(a.k == Ty::Tuple && a.a.size() > i);
    return a.a[i];
  }
  if (fn == "rev") { need(a.k == Ty::Tuple && a.a.size() == 2); return T::tup({a.a[1], a.a[0]}); }
  if (fn == "neg") { need(a.k == Ty::Int); return T::i(); }
  if (fn == "dup") { return T::tup({a, a}); }
  if (fn == "show") { return T::nstr(); }
  if (fn == "even") { need(a.k == Ty::Int); return T::i(); }
  if (fn == "nota") { need(a.k == Ty::Ch); return T::ch(); }
  if (fn == "short2") { need(a.k == Ty::Str); return T::str(); }
  if (fn == "mkobj")
  {
    need(a.k == Ty::Vec && a.a[0].k == Ty::Tuple && a.a[0].a.size() == 2);
    return T::map(a.a[0].a[0], a.a[0].a[1]);
  }
  harness_bug("unknown conversion " + fn);
}
Ty compute_type(Node const &n, bool wide)
{
  auto kid = [&](std::size_t i) -> Ty const & { return type_of(*n.ch.at(i), wide); };
  switch (n.k)
  {
  case K::Eps:
  case K::Lit:
  case K::Str: return T::unit();
  case K::Fail: return n.ty;
  case K::Char:
  case K::Set:
  case K::Compl: return T::ch();
  case K::Int: return T::i();
  case K::Long: return T::l();
  case K::UInt: return T::u();
  case K::Float: return T::d();
  case K::Seq:
  {
    Ty const &l = kid(0), &r = kid(1);
    if (l.k == Ty::Unit)
      return r;
    if (r.k == Ty::Unit)
      return l;
    std::vector<Ty> all = as_tuple_list(l);
    for (Ty const &t : as_tuple_list(r))
      all.push_back(t);
    return T::tup(std::move(all));
  }
  case K::Alt:
  {
    std::vector<Ty> ts = alternative_types(kid(0), kid(1), wide);
    return ts.size() == 1 ? ts[0] : T::var(std::move(ts));
  }
  case K::Rep:
  case K::Plus: return kid(0).k == Ty::Ch ? T::str() : T::vec(kid(0));
  case K::Opt: return T::opt(kid(0));
  case K::Not:
    if (kid(0).k != Ty::Unit)
      harness_bug("not_ of a parser with a result");
    return T::unit();
  case K::Fatal:
  case K::Lexeme:
  case K::Named:
  case K::Base: return kid(0);
  case K::Sep: return T::vec(kid(0));
  case K::List: return T::vec(kid(1));
  case K::Conv:
  case K::ConvIf: return conv_type(n.s, kid(0));
  case K::Construct: return n.s == "box" ? T::st("box", {kid(0)}) : T::st(n.s);
  case K::AsStruct:
    if (kid(0).k != Ty::Tuple)
      harness_bug("as_struct of a parser whose result is not a tuple");
    return (n.s.size() == 3 && n.s.compare(0, 2, "st") == 0) ? T::st(n.s, kid(0).a) : T::st(n.s);
  case K::Ignore: return T::unit();
  case K::ConvConst: return n.ty;
  case K::Recursive: return T::rec(kid(0));
  case K::Ref: return n.ty;
  }
  harness_bug("compute_type");
}

// ------------------------------------------------------------------ skipper model
std::optional<std::size_t> skip_model(SK s, std::string const &in, std::size_t at)
{
  auto is = [&](std::size_t i, char c) { return i < in.size() && in[i] == c; };
  switch (s)
  {
  case SK::eps: return at;
  case SK::space:
    while (is(at, ' ') || is(at, '\n') || is(at, '\t'))
      ++at;
    return at;
  case SK::set1:
    if (is(at, ' ') || is(at, '_'))
      return at + 1;
    return std::nullopt;
  case SK::replit:
    while (is(at, ' '))
      ++at;
    return at;
  case SK::repseteps:
    while (is(at, ' ') || is(at, '_'))
      ++at;
    return at;
  }
  return std::nullopt;
}
std::vector<std::string> skip_tokens(SK s)
{
  switch (s)
  {
  case SK::eps: return {};
  case SK::space: return {" "};
  case SK::set1: return {" ", "_"};
  case SK::replit: return {" "};
  case SK::repseteps: return {" ", "_"};
  }
  return {};
}
std::string skip_fill(SK s, vf::rng &g)
{
  switch (s)
  {
  case SK::eps: return "";
  case SK::space: return g.chance(1, 8) ? std::string(1, g.chance(1, 2) ? '\n' : '\t') : std::string(g.below(3), ' ');
  case SK::set1: return g.chance(1, 2) ? " " : "_";
  case SK::replit: return std::string(g.below(3), ' ');
  case SK::repseteps:
  {
    std::string r;
    for (std::size_t i = g.below(3); i > 0; --i)
      r += g.chance(1, 2) ? ' ' : '_';
    return r;
  }
  }
  return "";
}

// ------------------------------------------------------------------ conversions on values (twins of c02s::fn)
std::optional<Val> conv_value(std::string const &fn, Val const &v)
{
  if (fn == "ord") return V::num('i', static_cast<unsigned char>(v.s.at(0)));
  if (fn == "cat2") return V::str(v.kids.at(0).s + v.kids.at(1).s);
  if (fn == "mix") return V::num('l', v.kids.at(0).n * 100 + v.kids.at(1).n);
  if (fn == "size") return V::num('U', static_cast<long long>(v.k == Val::Str ? v.s.size() : v.kids.size()));
  if (fn == "get0") return v.kids.at(0);
  if (fn == "get1") return v.kids.at(1);
  if (fn == "get2") return v.kids.at(2);
  if (fn == "rev") return V::tup({v.kids.at(1), v.kids.at(0)});
  if (fn == "neg") return V::num('i', -v.n);
  if (fn == "dup") return V::tup({v, v});
  if (fn == "show")
  {
    std::string o;
    print(o, v);
    return V::str(o);
  }
  if (fn == "even") return v.n % 2 != 0 ? std::nullopt : std::optional<Val>(v);
  if (fn == "nota") return v.s == "a" ? std::nullopt : std::optional<Val>(v);
  if (fn == "short2") return v.s.size() > 2 ? std::nullopt : std::optional<Val>(v);
  if (fn == "mkobj")
  {
    std::set<std::string> keys;
    Val m;
    m.k = Val::Map;
    for (Val const &e : v.kids)
    {
      if (!keys.insert(e.kids.at(0).s).second)
        return std::nullopt;
      m.kids.push_back(e.kids.at(0));
      m.kids.push_back(e.kids.at(1));
    }
    return m;
  }
  harness_bug("unknown conversion " + fn);
}

// ------------------------------------------------------------------ reference interpreter
struct R
{
  bool ok;
  bool fatal;
  std::size_t pos;
  Val val;
};
R okr(std::size_t pos, Val v) { return R{true, false, pos, std::move(v)}; }
R failr(bool fatal = false) { return R{false, fatal, 0, Val{}}; }

template <class I>
bool magnitude_fits(std::string const &digits)
{
  unsigned __int128 v = 0;
  for (char c : digits)
  {
    v = v * 10 + static_cast<unsigned>(c - '0');
    if (v > static_cast<unsigned __int128>(std::numeric_limits<I>::max()))
      return false;
  }
  return true;
}

struct interp
{
  fixture const &fx;
  std::string const &in;
  bool wide;

  Node const &rule_body(std::string const &name) const
  {
    for (rule const &r : fx.rules)
      if (r.name == name)
        return *r.body;
    harness_bug("unknown rule " + name);
  }
  std::size_t digits_end(std::size_t at) const
  {
    while (at < in.size() && in[at] >= '0' && in[at] <= '9')
      ++at;
    return at;
  }
  template <class I>
  R integer(std::size_t pos, char tag, bool is_signed)
  {
    std::size_t at = pos;
    bool neg = false;
    if (is_signed && at < in.size() && in[at] == '-')
    {
      neg = true;
      ++at;
    }
    std::size_t e = digits_end(at);
    if (e == at)
      return failr();
    std::string d = in.substr(at, e - at);
    if (!magnitude_fits<I>(d))
      return failr();
    long long v = std::strtoll(d.c_str(), nullptr, 10);
    return okr(e, V::num(tag, neg ? -v : v));
  }
  R ev_sep(Node const &inner, Node const &sp, std::size_t pos, SK sk)
  {
    // -(inner >> *(sep >> inner)); the result is always a vector
    R a = ev(inner, pos, sk);
    if (!a.ok)
      return a.fatal ? a : okr(pos, V::vec({}));
    auto s0 = skip_model(sk, in, a.pos);
    if (!s0)
      return okr(pos, V::vec({}));
    std::vector<Val> items{std::move(a.val)};
    std::size_t cur = *s0;
    for (;;)
    {
      R s = ev(sp, cur, sk);
      if (!s.ok)
      {
        if (s.fatal)
          return s;
        break;
      }
      auto s1 = skip_model(sk, in, s.pos);
      if (!s1)
        break;
      R b = ev(inner, *s1, sk);
      if (!b.ok)
      {
        if (b.fatal)
          return b;
        break;
      }
      auto s2 = skip_model(sk, in, b.pos);
      if (!s2)
        break;
      items.push_back(std::move(b.val));
      cur = *s2;
    }
    return okr(cur, V::vec(std::move(items)));
  }

  R ev(Node const &n, std::size_t pos, SK sk)
  {
    auto kid = [&](std::size_t i, std::size_t at, SK s) { return ev(*n.ch[i], at, s); };
    auto kty = [&](std::size_t i) -> Ty const & { return type_of(*n.ch[i], wide); };
    switch (n.k)
    {
    case K::Eps: return okr(pos, V::unit());
    case K::Fail: return failr();
    case K::Char: return pos < in.size() ? okr(pos + 1, V::chr(in[pos])) : failr();
    case K::Lit: return pos < in.size() && in[pos] == n.c ? okr(pos + 1, V::unit()) : failr();
    case K::Set: return pos < in.size() && n.s.find(in[pos]) != std::string::npos ? okr(pos + 1, V::chr(in[pos])) : failr();
    case K::Compl: return pos < in.size() && n.s.find(in[pos]) == std::string::npos ? okr(pos + 1, V::chr(in[pos])) : failr();
    case K::Str: return pos + n.s.size() <= in.size() && in.compare(pos, n.s.size(), n.s) == 0 ? okr(pos + n.s.size(), V::unit()) : failr();
    case K::Int: return integer<int>(pos, 'i', true);
    case K::Long: return integer<long>(pos, 'l', true);
    case K::UInt: return integer<unsigned>(pos, 'U', false);
    case K::Float:
    {
      std::size_t at = pos;
      bool neg = false;
      if (at < in.size() && in[at] == '-')
      {
        neg = true;
        ++at;
      }
      std::size_t e1 = digits_end(at);
      if (e1 == at || e1 >= in.size() || in[e1] != '.')
        return failr();
      std::size_t e2 = digits_end(e1 + 1);
      if (e2 == e1 + 1)
        return failr();
      double v = std::strtod(in.substr(at, e2 - at).c_str(), nullptr);
      if (v > std::numeric_limits<double>::max())
        return failr();
      return okr(e2, V::dbl(neg ? -v : v));
    }
    case K::Seq:
    {
      R a = kid(0, pos, sk);
      if (!a.ok)
        return a;
      auto s = skip_model(sk, in, a.pos);
      if (!s)
        return failr();
      R b = kid(1, *s, sk);
      if (!b.ok)
        return b;
      Ty const &tl = kty(0), &tr = kty(1);
      if (tl.k == Ty::Unit)
      {
        VF_COUNT("static/rule/sequence/unit-on-the-left-dropped");
        return okr(b.pos, std::move(b.val));
      }
      if (tr.k == Ty::Unit)
      {
        VF_COUNT("static/rule/sequence/unit-on-the-right-dropped");
        return okr(b.pos, std::move(a.val));
      }
      std::vector<Val> all;
      auto add = [&](Ty const &t, Val &v) {
        if (t.k == Ty::Tuple)
        {
          VF_COUNT("static/rule/sequence/tuple-flattened");
          for (Val &e : v.kids)
            all.push_back(std::move(e));
        }
        else
          all.push_back(std::move(v));
      };
      add(tl, a.val);
      add(tr, b.val);
      vf::count("static/value/tuple-of-" + std::to_string(std::min<std::size_t>(all.size(), 6)));
      return okr(b.pos, V::tup(std::move(all)));
    }
    case K::Alt:
    {
      R a = kid(0, pos, sk);
      std::size_t branch = 0;
      if (!a.ok)
      {
        if (a.fatal)
          return a;
        a = kid(1, pos, sk);
        branch = 1;
        if (!a.ok)
          return failr(a.fatal);
        VF_COUNT("static/rule/alternative/right-branch-succeeded");
      }
      std::vector<Ty> ts = alternative_types(kty(0), kty(1), wide);
      if (ts.size() == 1)
      {
        VF_COUNT("static/rule/alternative/single-type");
        return a;
      }
      Ty const &bt = kty(branch);
      Ty const *held = &bt;
      Val inner = std::move(a.val);
      if (bt.k == Ty::Variant)
      {
        VF_COUNT("static/rule/alternative/branch-is-a-variant");
        held = &bt.a.at(inner.idx);
        Val x = std::move(inner.kids.at(0));
        inner = std::move(x);
      }
      std::size_t idx = ts.size();
      for (std::size_t i = 0; i < ts.size(); ++i)
        if (key(ts[i], wide) == key(*held, wide))
        {
          idx = i;
          break;
        }
      if (idx == ts.size())
        harness_bug("alternative: held type not in the list");
      vf::count("static/value/variant-index-" + std::to_string(std::min<std::size_t>(idx, 4)));
      if (branch == 1 && idx < as_variant_list(kty(0)).size())
        VF_COUNT("static/rule/alternative/right-branch-value-has-a-left-type");
      return okr(a.pos, V::var(idx, std::move(inner)));
    }
    case K::Rep:
    case K::Plus:
    {
      std::vector<Val> items;
      std::size_t cur = pos;
      if (n.k == K::Plus)
      {
        R a = kid(0, pos, sk);
        if (!a.ok)
          return a;
        auto s = skip_model(sk, in, a.pos);
        if (!s)
          return failr();
        items.push_back(std::move(a.val));
        cur = *s;
      }
      for (;;)
      {
        R a = kid(0, cur, sk);
        if (!a.ok)
        {
          if (a.fatal)
            return a;
          break;
        }
        auto s = skip_model(sk, in, a.pos);
        if (!s)
        {
          VF_COUNT("static/rule/repetition/element-dropped-because-skipper-failed");
          break;
        }
        items.push_back(std::move(a.val));
        cur = *s;
      }
      vf::count("static/value/repetition-of-" + std::to_string(std::min<std::size_t>(items.size(), 4)));
      if (kty(0).k == Ty::Ch)
      {
        VF_COUNT("static/rule/repetition/of-characters-is-a-string");
        std::string s;
        for (Val const &v : items)
          s += v.s;
        return okr(cur, V::str(std::move(s)));
      }
      return okr(cur, V::vec(std::move(items)));
    }
    case K::Opt:
    {
      R a = kid(0, pos, sk);
      if (a.ok)
      {
        VF_COUNT("static/value/optional-present");
        return okr(a.pos, V::some(std::move(a.val)));
      }
      if (a.fatal)
        return a;
      VF_COUNT("static/value/optional-absent");
      return okr(pos, V::none());
    }
    case K::Not:
    {
      R a = kid(0, pos, sk);
      if (a.ok)
        return failr();
      return okr(pos, V::unit());
    }
    case K::Fatal:
    {
      R a = kid(0, pos, sk);
      if (!a.ok)
        a.fatal = true;
      return a;
    }
    case K::Lexeme: return kid(0, pos, SK::eps);
    case K::Sep:
    {
      R r = ev_sep(*n.ch[0], *n.ch[1], pos, sk);
      if (r.ok)
        vf::count("static/value/separator-of-" + std::to_string(std::min<std::size_t>(r.val.kids.size(), 4)));
      return r;
    }
    case K::List:
    {
      // start >> (end | separator(inner, sep) >> end)
      R a = kid(0, pos, sk);
      if (!a.ok)
        return a;
      auto s0 = skip_model(sk, in, a.pos);
      if (!s0)
        return failr();
      R e = kid(3, *s0, sk);
      if (e.ok)
      {
        VF_COUNT("static/value/list-of-0");
        return okr(e.pos, V::vec({}));
      }
      if (e.fatal)
        return e;
      R sres = ev_sep(*n.ch[1], *n.ch[2], *s0, sk);
      if (!sres.ok)
        return sres;
      auto s1 = skip_model(sk, in, sres.pos);
      if (!s1)
        return failr();
      R e2 = kid(3, *s1, sk);
      if (!e2.ok)
        return e2;
      vf::count("static/value/list-of-" + std::to_string(std::min<std::size_t>(sres.val.kids.size(), 4)));
      return okr(e2.pos, std::move(sres.val));
    }
    case K::Named:
    case K::Base: return kid(0, pos, sk);
    case K::Conv:
    {
      R a = kid(0, pos, sk);
      if (a.ok)
      {
        VF_COUNT("static/rule/convert-applied");
        a.val = *conv_value(n.s, a.val);
      }
      return a;
    }
    case K::ConvIf:
    {
      R a = kid(0, pos, sk);
      if (!a.ok)
        return a;
      std::optional<Val> v = conv_value(n.s, a.val);
      if (!v)
      {
        VF_COUNT("static/rule/convert_if-rejected");
        return failr();
      }
      return okr(a.pos, std::move(*v));
    }
    case K::Construct:
    {
      R a = kid(0, pos, sk);
      if (a.ok)
      {
        VF_COUNT("static/value/constructed");
        a.val = V::st(n.s, {std::move(a.val)});
      }
      return a;
    }
    case K::AsStruct:
    {
      R a = kid(0, pos, sk);
      if (a.ok)
      {
        vf::count("static/value/as_struct-of-" + std::to_string(a.val.kids.size()));
        a.val = V::st(n.s, std::move(a.val.kids));
      }
      return a;
    }
    case K::Ignore:
    {
      R a = kid(0, pos, sk);
      if (a.ok)
        a.val = V::unit();
      return a;
    }
    case K::ConvConst:
    {
      R a = kid(0, pos, sk);
      if (a.ok)
        a.val = n.val;
      return a;
    }
    case K::Recursive:
    {
      R a = kid(0, pos, sk);
      if (a.ok)
      {
        VF_COUNT("static/value/recursive");
        a.val = V::rec(std::move(a.val));
      }
      return a;
    }
    case K::Ref:
      VF_COUNT("static/rule/typed-rule-entered");
      return ev(rule_body(n.s), pos, sk);
    }
    std::abort();
  }
};

// ------------------------------------------------------------------ sample derivations (inputs that are likely in the language)
struct sampler
{
  fixture const &fx;
  vf::rng &g;
  std::string digits()
  {
    static char const *const ds[] = {"1", "2", "12", "21", "7", "10"};
    return ds[g.below(6)];
  }
  Node const &rule_body(std::string const &name) const
  {
    for (rule const &r : fx.rules)
      if (r.name == name)
        return *r.body;
    harness_bug("unknown rule " + name);
  }
  std::string go(Node const &n, SK sk, unsigned depth)
  {
    auto kid = [&](std::size_t i, SK s) { return go(*n.ch[i], s, depth); };
    switch (n.k)
    {
    case K::Eps: return "";
    case K::Fail: return "";
    case K::Char: return std::string(1, "abx,"[g.below(4)]);
    case K::Lit: return std::string(1, n.c);
    case K::Set: return std::string(1, n.s[g.below(n.s.size())]);
    case K::Compl:
    {
      for (char c : std::string("xab,"))
        if (n.s.find(c) == std::string::npos)
          return std::string(1, c);
      return "y";
    }
    case K::Str: return n.s;
    case K::Int:
    case K::Long: return (g.chance(1, 3) ? "-" : "") + digits();
    case K::UInt: return digits();
    case K::Float: return (g.chance(1, 3) ? "-" : "") + digits() + "." + (g.chance(1, 2) ? "5" : "25");
    case K::Seq: return kid(0, sk) + skip_fill(sk, g) + kid(1, sk);
    case K::Alt: return kid(g.below(2), sk);
    case K::Rep:
    case K::Plus:
    {
      std::string r;
      for (std::size_t i = (depth == 0 ? 0 : g.below(4)) + (n.k == K::Plus ? 1 : 0); i > 0; --i)
        r += kid(0, sk) + skip_fill(sk, g);
      return r;
    }
    case K::Opt: return depth > 0 && g.chance(1, 2) ? kid(0, sk) : "";
    case K::Not: return "";
    case K::Lexeme: return kid(0, SK::eps);
    case K::Sep:
    {
      std::string r;
      std::size_t k = depth == 0 ? 0 : g.below(4);
      for (std::size_t i = 0; i < k; ++i)
        r += (i ? kid(1, sk) + skip_fill(sk, g) : std::string()) + kid(0, sk) + skip_fill(sk, g);
      return r;
    }
    case K::List:
    {
      std::string r = kid(0, sk) + skip_fill(sk, g);
      std::size_t k = depth == 0 ? 0 : g.below(4);
      for (std::size_t i = 0; i < k; ++i)
        r += (i ? kid(2, sk) + skip_fill(sk, g) : std::string()) + kid(1, sk) + skip_fill(sk, g);
      return r + kid(3, sk);
    }
    case K::Ref: return depth > 0 ? go(rule_body(n.s), sk, depth - 1) : go(rule_body(n.s), sk, 0);
    default: return kid(0, sk);
    }
  }
};

// ------------------------------------------------------------------ inputs of one (fixture, world)
struct input_set
{
  std::vector<std::string> items;
  std::unordered_set<std::string> seen;
  void add(std::string s)
  {
    if (s.size() > 160)
      s.resize(160);
    if (seen.insert(s).second)
      items.push_back(std::move(s));
  }
};
std::string expand(std::string const &sample, std::string const &fill)
{
  std::string r;
  for (char c : sample)
    if (c == '~')
      r += fill;
    else
      r += c;
  return r;
}
void build_inputs(fixture const &fx, world const &w, std::string const &entry, input_set &out, std::size_t &exhaustive_len)
{
  std::vector<std::string> alpha = fx.alphabet;
  for (std::string const &t : skip_tokens(w.sk))
    if (std::find(alpha.begin(), alpha.end(), t) == alpha.end())
      alpha.push_back(t);
  vf::rng g(vf::hash_mix(vf::hash_mix(vf::opts().seed, vf::hash_str(entry)), 0x5a17));
  // (1) all token strings up to the length that fits the budget
  std::size_t const budget = vf::tier<std::size_t>(2500, 40000);
  out.add("");
  {
    std::vector<std::string> level{""};
    std::size_t len = 0;
    while (level.size() * alpha.size() + out.items.size() <= budget)
    {
      std::vector<std::string> next;
      next.reserve(level.size() * alpha.size());
      for (auto const &s : level)
        for (auto const &t : alpha)
          next.push_back(s + t);
      for (auto const &s : next)
        out.add(s);
      level.swap(next);
      ++len;
    }
    exhaustive_len = len;
    // (2) random strings a little longer than that
    std::size_t const nrandom = vf::tier<std::size_t>(120, 3000);
    for (std::size_t i = 0; i < nrandom; ++i)
    {
      std::string s;
      for (std::size_t k = len + 1 + g.below(3); k > 0; --k)
        s += g.pick(alpha);
      out.add(std::move(s));
    }
  }
  // (3) the hand-written positive samples with every way of filling the skipper places, and their 1-edit neighbours
  std::vector<std::string> fills{""};
  for (std::string const &t : skip_tokens(w.sk))
    fills.push_back(t);
  if (w.sk == SK::space || w.sk == SK::replit || w.sk == SK::repseteps)
    fills.push_back("  ");
  if (w.sk == SK::space)
  {
    fills.push_back("\n");
    fills.push_back(" \t");
  }
  std::vector<std::string> positives;
  for (std::string const &s : fx.samples)
    for (std::string const &f : fills)
    {
      positives.push_back(expand(s, f));
      if (w.sk == SK::set1)
        positives.push_back(f + expand(s, f)); // this skipper must consume exactly one character, also at the start
    }
  // (4) random derivations of the grammar with random skipper filling
  {
    sampler S{fx, g};
    std::size_t const nder = vf::tier<std::size_t>(60, 1500);
    for (std::size_t i = 0; i < nder; ++i)
    {
      std::string lead = w.sk == SK::set1 ? skip_fill(w.sk, g) : (g.chance(1, 4) ? skip_fill(w.sk, g) : std::string());
      positives.push_back(lead + S.go(*fx.rules[0].body, w.sk, 3));
    }
  }
  std::vector<std::string> neigh;
  for (std::string const &s : positives)
  {
    out.add(s);
    for (std::size_t at = 0; at <= s.size(); ++at)
    {
      if (at < s.size())
        neigh.push_back(s.substr(0, at) + s.substr(at + 1));
      for (std::string const &t : alpha)
      {
        neigh.push_back(s.substr(0, at) + t + s.substr(at));
        if (at < s.size())
          neigh.push_back(s.substr(0, at) + t + s.substr(at + 1));
      }
    }
    neigh.push_back(s + s);
  }
  std::size_t const ncap = vf::tier<std::size_t>(900, 30000);
  if (neigh.size() <= ncap)
    for (auto &s : neigh)
      out.add(std::move(s));
  else
  {
    // a regular sample with a seeded offset
    std::size_t const step = neigh.size() / ncap + 1;
    for (std::size_t i = g.below(step); i < neigh.size(); i += step)
      out.add(std::move(neigh[i]));
  }
}

std::string world_name(world const &w) { return std::string(w.wide ? "wchar_t" : "char") + "," + sk_name(w.sk); }

// as_struct<Result>: documented as Result{t_1,...,t_n} - list-initialisation.  For a Result with an initializer_list
// constructor next to a constructor of the same arity (std::vector<int>: {3,7} is two elements, (3,7) three sevens) the two
// spellings differ; the value of the derivation is the braced one.
void as_struct_list_initialisation()
{
  std::string const e = "static/as_struct/list-initialisation";
  if (!vf::entry_enabled(e) || !vf::mine(vf::hash_str(e)))
    return;
  vf::set_entry(e);
  namespace sk = fcppt::parse::skipper;
  auto const two = p::as_struct<std::vector<int>>(p::int_<int>{} >> p::literal{','} >> p::int_<int>{});
  // (two elements only: with three, a tree that spells the construction Result(t_1,t_2,t_3) no longer compiles, and a
  // harness that does not build says nothing)
  struct sample
  {
    char const *text;
    std::vector<int> want;
  } const samples[] = {{"3 , 7", {3, 7}}, {"2,2", {2, 2}}, {"0 ,5", {0, 5}}, {"1 ,  9", {1, 9}}, {"4,0", {4, 0}}};
  for (sample const &sm : samples)
  {
    if (!vf::begin_case("as_struct<std::vector<int>> on \"%s\"", sm.text))
      continue;
    vf::note_distinct(vf::hash_mix(vf::hash_str(e), vf::hash_str(sm.text)));
    auto const check = [&](auto const &parser) {
      auto const r = p::phrase_parse_string(parser, std::string{sm.text}, sk::space());
      if (!r.has_success())
        vf::violation("static/as_struct/list-initialisation/failure", "mismatch", std::string("input ") + sm.text);
      else if (r.get_success_unsafe() != sm.want)
        vf::violation("static/as_struct/list-initialisation/value", "mismatch",
                      std::string("input ") + sm.text + ": " + std::to_string(r.get_success_unsafe().size()) + " elements, documented Result{t_1,...,t_n} has " + std::to_string(sm.want.size()));
      VF_COUNT("static/value/as_struct-list-initialisation");
    };
    check(two);
  }
}

// A USER-DEFINED skipper (the documented extension point: derive from skipper::tag, provide skip()) that can fail FATALLY:
// blanks and {comments}; a comment that is never closed is a fatal error.  "fatal errors stop backtracking": the repetition
// *skipper hands a fatal error of its operand on (skipper/repetition_decl.hpp), so the parse fails - it does not rewind
// and carry on with the text of the unclosed comment.
class comment_skipper : private fcppt::parse::skipper::tag
{
public:
  comment_skipper() = default;
  template <typename Ch>
  [[nodiscard]] fcppt::parse::skipper::result<Ch> skip(fcppt::reference<fcppt::parse::basic_stream<Ch>> const _state) const
  {
    auto const start = _state.get().get_position();
    auto const first = _state.get().get_char();
    if (first.has_value() && first.get_unsafe() == Ch(' '))
      return fcppt::parse::skipper::make_success<Ch>();
    if (first.has_value() && first.get_unsafe() == Ch('{'))
    {
      for (;;)
      {
        auto const ch = _state.get().get_char();
        if (!ch.has_value())
          return fcppt::parse::skipper::make_failure<Ch>(fcppt::parse::error<Ch>{std::basic_string<Ch>{Ch('u'), Ch('n'), Ch('c'), Ch('l'), Ch('o'), Ch('s'), Ch('e'), Ch('d')}, fcppt::parse::fatal_tag{}});
        if (ch.get_unsafe() == Ch('}'))
          return fcppt::parse::skipper::make_success<Ch>();
      }
    }
    _state.get().set_position(start);
    return fcppt::parse::skipper::make_failure<Ch>(fcppt::parse::error<Ch>{std::basic_string<Ch>{Ch('n'), Ch('o')}});
  }
};
void user_skipper_with_fatal_errors()
{
  std::string const e = "static/user-skipper/fatal-error-through-repetition";
  if (!vf::entry_enabled(e) || !vf::mine(vf::hash_str(e)))
    return;
  vf::set_entry(e);
  namespace sk = fcppt::parse::skipper;
  // x, then any number of lower-case letters or braces - a grammar that could go on with the text of an unclosed comment
  auto const parser = p::literal{'x'} >> *p::char_set{'a', 'b', '{', '}', 'y'};
  auto const skipper = *comment_skipper{};
  struct sample
  {
    char const *text;
    bool success;
  } const samples[] = {{"x", true},          {"x ab", true},      {"x{c}ab", true},      {"x {c} a {d}b", true}, {"x{never closed", false},
                       {"x a{never", false}, {"x{}{ab", false},   {"{open", false},      {"x{a}{b}y", true},     {" x", true}};
  for (sample const &sm : samples)
  {
    if (!vf::begin_case("input \"%s\" with the skipper *comment_skipper", sm.text))
      continue;
    vf::note_distinct(vf::hash_mix(vf::hash_str(e), vf::hash_str(sm.text)));
    auto const r = p::phrase_parse_string(parser, std::string{sm.text}, skipper);
    VF_COUNT("static/user-skipper/cases");
    if (!sm.success)
      VF_COUNT("static/user-skipper/fatal-cases");
    if (r.has_success() != sm.success)
      vf::violation(std::string("static/user-skipper/") + (sm.success ? "rejects-what-the-semantics-accepts" : "accepts-what-the-semantics-rejects(fatal skipper error swallowed)"), "mismatch",
                    std::string("input ") + sm.text);
  }
}

// The stream entry points parse "the input" from where the caller's stream STANDS: a stream that was already read from (a
// header line, an earlier record) - rewinds inside alternatives, optionals and repetitions return to positions of that
// stream, the outcome is the one the same grammar has on the remaining text.
void stream_already_read_from()
{
  std::string const e = "static/stream-entry-point/stream-already-read-from";
  if (!vf::entry_enabled(e) || !vf::mine(vf::hash_str(e) + 2))
    return;
  vf::set_entry(e);
  namespace sk = fcppt::parse::skipper;
  // ("ab" >> "cd") | ("ab" >> "ce") | "x": the second alternative needs a rewind over consumed input
  auto const grammar = (p::string{"ab"} >> p::string{"cd"}) | (p::string{"ab"} >> p::string{"ce"}) | p::string{"x"};
  for (char const *header : {"", "h\n", "header line\n", "0123456789 0123456789\n"})
    for (char const *rest : {"abcd", "abce", "x", "abcf", "ab", ""})
    {
      if (!vf::begin_case("header \"%s\" read with getline, then phrase_parse_stream on the rest \"%s\"", header[0] ? "..." : "", rest))
        continue;
      vf::note_distinct(vf::hash_mix(vf::hash_str(e), vf::hash_mix(vf::hash_str(header), vf::hash_str(rest))));
      std::istringstream is(std::string(header) + rest);
      if (header[0] != 0)
      {
        std::string line;
        std::getline(is, line);
      }
      auto const from_stream = p::phrase_parse_stream(grammar, is, sk::epsilon{});
      auto const reference = p::phrase_parse_string(grammar, std::string(rest), sk::epsilon{});
      VF_COUNT("static/stream-entry-point/already-read-streams");
      if (from_stream.has_success() != reference.has_success())
        vf::violation("static/stream-entry-point/stream-already-read-from/outcome", "mismatch",
                      std::string("rest \"") + rest + "\" after a header of " + std::to_string(std::string(header).size()) + " characters: the stream entry point " +
                          (from_stream.has_success() ? "succeeds" : "fails") + ", the same grammar on the rest " + (reference.has_success() ? "succeeds" : "fails"));
    }
}

void body()
{
  stream_already_read_from();
  as_struct_list_initialisation();
  user_skipper_with_fatal_errors();
  // a fixture is registered once per translation unit (= world) it occurs in: merge by name
  std::vector<fixture> fixtures;
  {
    std::vector<fixture> parts;
    c02s_register_all(parts);
    std::stable_sort(parts.begin(), parts.end(), [](fixture const &a, fixture const &b) { return a.name < b.name; });
    for (fixture &f : parts)
    {
      if (!fixtures.empty() && fixtures.back().name == f.name)
        for (world &w : f.worlds)
          fixtures.back().worlds.push_back(std::move(w));
      else
        fixtures.push_back(std::move(f));
    }
    for (fixture &f : fixtures)
      std::sort(f.worlds.begin(), f.worlds.end(), [](world const &a, world const &b) {
        return std::make_pair(a.wide, static_cast<int>(a.sk)) < std::make_pair(b.wide, static_cast<int>(b.sk));
      });
  }
  for (char const *b :
       {"static/pairs", "static/outcome/success", "static/outcome/failure", "static/outcome/fatal-failure",
        "static/outcome/leftover-input", "static/entry/parse_string", "static/entry/phrase_parse_string",
        "static/entry/grammar_parse_string", "static/type-checks", "static/rule/sequence/unit-on-the-left-dropped",
        "static/rule/sequence/unit-on-the-right-dropped", "static/rule/sequence/tuple-flattened",
        "static/rule/alternative/right-branch-succeeded", "static/rule/alternative/single-type",
        "static/rule/alternative/branch-is-a-variant", "static/rule/alternative/right-branch-value-has-a-left-type",
        "static/rule/repetition/of-characters-is-a-string", "static/rule/repetition/element-dropped-because-skipper-failed",
        "static/rule/convert-applied", "static/rule/convert_if-rejected", "static/rule/typed-rule-entered",
        "static/value/tuple-of-2", "static/value/tuple-of-3", "static/value/tuple-of-4", "static/value/tuple-of-5",
        "static/value/variant-index-0", "static/value/variant-index-1", "static/value/variant-index-2",
        "static/value/variant-index-3", "static/value/repetition-of-0", "static/value/repetition-of-3",
        "static/value/optional-present", "static/value/optional-absent", "static/value/separator-of-0",
        "static/value/separator-of-3", "static/value/list-of-0", "static/value/list-of-2", "static/value/constructed",
        "static/value/as_struct-of-2", "static/value/as_struct-of-3", "static/value/as_struct-of-5", "static/value/recursive",
        "static/world/char", "static/world/wchar_t"})
    vf::require_bucket(b);
  bool const dump = vf::has_extra("--dump"); // by hand: print every successful parse
  vf::observation("repetition_plus (operator+) of a parser whose result is a tuple or fcppt::unit does not compile "
                  "(repetition_plus_impl.hpp takes get<0>/get<1> of the flattened p >> *p); such fixtures cannot be written");
  vf::observation("alternative_result removes duplicate types keeping the first occurrence (char|int|char = variant<char,int>); "
                  "alternative_result.hpp documents variant<L_1..L_n,R_1..R_m> without mentioning it - adopted, not judged");
  vf::observation("separator{inner,sep} accepts the empty sequence although separator_decl.hpp calls it equivalent to Inner >> *(Sep >> Inner) - adopted, not judged");
  std::uint64_t running = 0, fwi = 0;
  vf::count("static/fixtures", 0);
  for (fixture const &fx : fixtures)
  {
    std::string const success_bucket = "static/fixture-succeeded/" + fx.name;
    bool any_world = false;
    for (world const &w : fx.worlds)
    {
      std::string const entry = "static/" + fx.name + "/" + world_name(w);
      ++fwi;
      if (!vf::entry_enabled(entry))
        continue;
      any_world = true;
      vf::set_entry(entry);
      std::string const gtext = fx.text.size() > 1500 ? fx.text.substr(0, 1500) + "..." : fx.text;
      // the result TYPE (of the start rule and of every typed rule) against the documented type rules
      if (vf::mine(fwi))
      {
        if (vf::begin_case("result-type check | grammar: %s", gtext.c_str()))
        {
          VF_COUNT("static/type-checks");
          std::string want = key(type_of(*fx.rules[0].body, w.wide), w.wide);
          if (want != w.real_type)
            vf::violation(entry + "/result-type", "mismatch", "real result type " + w.real_type + " | documented rules give " + want + " | grammar: " + gtext);
          for (rule const &r : fx.rules)
            if (r.has_declared)
            {
              // the declared type is what the library computed (otherwise the fixture would not compile)
              std::string lib = key(r.declared, w.wide), ref = key(type_of(*r.body, w.wide), w.wide);
              if (lib != ref)
                vf::violation(entry + "/result-type", "mismatch", "rule " + r.name + ": real result type " + lib + " | documented rules give " + ref);
            }
          if (fwi % 7 == 0)
            vf::sample("type of " + fx.name + " = " + want, 12);
        }
      }
      input_set inputs;
      std::size_t exlen = 0;
      build_inputs(fx, w, entry, inputs, exlen);
      vf::count_max("max/static/exhaustive-input-length(tokens)", exlen);
      std::uint64_t const eh = vf::hash_str(entry);
      unsigned which = 0;
      for (std::string const &in : inputs.items)
      {
        ++running;
        ++which;
        if (!vf::mine(running))
          continue;
        if (!vf::begin_case("input=\"%s\" | grammar: %s", vf::json_escape(in).c_str(), gtext.c_str()))
          continue;
        vf::sample_case(1);
        vf::note_distinct(vf::hash_str(in, eh));
        VF_COUNT("static/pairs");
        // reference
        interp I{fx, in, w.wide};
        R ref = failr();
        if (auto s0 = skip_model(w.sk, in, 0))
        {
          ref = I.ev(*fx.rules[0].body, *s0, w.sk);
          if (ref.ok && ref.pos != in.size())
          {
            VF_COUNT("static/outcome/leftover-input");
            ref = failr();
          }
        }
        std::string want;
        if (ref.ok)
          print(want, ref.val);
        // real: every entry point that applies (with the epsilon skipper both parse_string and phrase_parse_string)
        for (unsigned ep = 0; ep < (w.sk == SK::eps ? 2U : 1U); ++ep)
        {
          outcome got = w.run(in, which + ep);
          vf::count(std::string("static/entry/") + got.entry_point);
          if (got.ok)
          {
            VF_COUNT("static/outcome/success");
            vf::count(success_bucket);
            if (dump)
              std::fprintf(stderr, "%s | %s | \"%s\" => %s\n", entry.c_str(), got.entry_point, in.c_str(), got.canon.c_str());
          }
          else if (got.fatal)
            VF_COUNT("static/outcome/fatal-failure");
          else
            VF_COUNT("static/outcome/failure");
          bool const bad = got.ok != ref.ok || (got.ok && got.canon != want) || (!got.ok && got.fatal != ref.fatal);
          if (bad)
          {
            std::string cls = got.ok != ref.ok ? (got.ok ? "accepts-what-the-semantics-rejects" : "rejects-what-the-semantics-accepts")
                                               : (got.ok ? "wrong-value" : "wrong-fatal-flag");
            vf::violation(entry + "/" + cls, "mismatch",
                          std::string(got.entry_point) + " | input: \"" + in + "\" | real: " +
                              (got.ok ? "ok " + got.canon : (got.fatal ? "FATAL" : "fail")) + " | reference: " +
                              (ref.ok ? "ok " + want : (ref.fatal ? "FATAL" : "fail")) + " | grammar: " + gtext);
          }
          if (ep == 1)
            vf::add_evals(1);
        }
      }
      vf::count(w.wide ? "static/world/wchar_t" : "static/world/char");
      vf::count(std::string("static/world/skipper/") + sk_name(w.sk));
    }
    if (any_world)
    {
      vf::require_bucket(success_bucket);
      if (vf::opts().part == 0)
        vf::count("static/fixtures");
    }
  }
}
}
VF_MAIN(body)
