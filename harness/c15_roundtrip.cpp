// C15: textual and binary encodings round-trip losslessly; conversions never silently truncate.
// Oracles: the identity (decode(encode(x)) == x) plus independent encoders: big/little-endian bytes by shifting,
// UTF-8 by the 4-case bit layout, decimal text by std::to_string.
#include <vf.hpp>

#include <fcppt/extract_from_string.hpp>
#include <fcppt/extract_from_string_locale.hpp>
#include <fcppt/output_to_string_locale.hpp>
#include <fcppt/from_std_wstring.hpp>
#include <fcppt/from_std_wstring_locale.hpp>
#include <fcppt/narrow.hpp>
#include <fcppt/narrow_locale.hpp>
#include <fcppt/output_to_std_string.hpp>
#include <fcppt/output_to_std_wstring.hpp>
#include <fcppt/to_std_wstring.hpp>
#include <fcppt/to_std_wstring_locale.hpp>
#include <fcppt/widen.hpp>
#include <fcppt/widen_locale.hpp>
#include <fcppt/endianness/convert.hpp>
#include <fcppt/endianness/swap.hpp>
#include <fcppt/enum/from_string.hpp>
#include <fcppt/enum/input.hpp>
#include <fcppt/enum/make_range.hpp>
#include <fcppt/enum/names.hpp>
#include <fcppt/enum/output.hpp>
#include <fcppt/enum/to_string.hpp>
#include <fcppt/enum/to_string_impl_fwd.hpp>
#include <fcppt/io/narrow_string.hpp>
#include <fcppt/io/read.hpp>
#include <fcppt/io/widen_string.hpp>
#include <fcppt/io/write.hpp>
#include <fcppt/math/dim/comparison.hpp>
#include <fcppt/math/dim/input.hpp>
#include <fcppt/math/dim/output.hpp>
#include <fcppt/math/dim/static.hpp>
#include <fcppt/math/vector/comparison.hpp>
#include <fcppt/math/vector/input.hpp>
#include <fcppt/math/vector/output.hpp>
#include <fcppt/math/vector/static.hpp>
#include <fcppt/optional/object.hpp>

#include <bit>
#include <cstdint>
#include <cstring>
#include <limits>
#include <cstdlib>
#include <iomanip>
#include <locale>
#include <sstream>
#include <stdexcept>
#include <streambuf>
#include <istream>
#include <string>
#include <typeinfo>
#include <vector>

// test enums with to_string implementations (names of different lengths, one a prefix of another)
enum class E1
{
  only,
  fcppt_maximum = only
};
enum class E5
{
  alpha,
  beta,
  gamma,
  delta,
  al,
  fcppt_maximum = al
};
enum class E9
{
  n0,
  n1,
  n2,
  n3,
  n4,
  n5,
  n6,
  n7,
  n8,
  fcppt_maximum = n8
};
// names served as views cut out of ONE packed table: no view is followed by a NUL (to_string returns a string_view,
// which carries its own length)
enum class E4packed
{
  red,
  green,
  blue,
  gre,
  fcppt_maximum = gre
};
namespace fcppt::enum_
{
template <>
struct to_string_impl<E4packed>
{
  static std::string_view get(E4packed e)
  {
    static constexpr std::string_view table{"redgreenbluegre-tail"};
    switch (e)
    {
    case E4packed::red: return table.substr(0, 3);
    case E4packed::green: return table.substr(3, 5);
    case E4packed::blue: return table.substr(8, 4);
    case E4packed::gre: return table.substr(12, 3);
    }
    return table.substr(0, 0);
  }
};
template <>
struct to_string_impl<E1>
{
  static std::string_view get(E1) { return "only"; }
};
template <>
struct to_string_impl<E5>
{
  static std::string_view get(E5 e)
  {
    switch (e)
    {
    case E5::alpha: return "alpha";
    case E5::beta: return "beta";
    case E5::gamma: return "gamma";
    case E5::delta: return "delta";
    case E5::al: return "al";
    }
    return "";
  }
};
template <>
struct to_string_impl<E9>
{
  static std::string_view get(E9 e)
  {
    static char const *const n[] = {"n0", "n1", "n2", "n3", "n4", "n5", "n6", "n7", "n8"};
    return n[static_cast<int>(e)];
  }
};
}

namespace
{
using i128 = __int128;

std::string utf8(char32_t c)
{
  std::string s;
  if (c < 0x80)
    s += static_cast<char>(c);
  else if (c < 0x800)
  {
    s += static_cast<char>(0xC0 | (c >> 6));
    s += static_cast<char>(0x80 | (c & 0x3F));
  }
  else if (c < 0x10000)
  {
    s += static_cast<char>(0xE0 | (c >> 12));
    s += static_cast<char>(0x80 | ((c >> 6) & 0x3F));
    s += static_cast<char>(0x80 | (c & 0x3F));
  }
  else
  {
    s += static_cast<char>(0xF0 | (c >> 18));
    s += static_cast<char>(0x80 | ((c >> 12) & 0x3F));
    s += static_cast<char>(0x80 | ((c >> 6) & 0x3F));
    s += static_cast<char>(0x80 | (c & 0x3F));
  }
  return s;
}
std::string hexs(std::string const &s)
{
  static char const *d = "0123456789abcdef";
  std::string r;
  for (unsigned char c : s)
  {
    r += d[c >> 4];
    r += d[c & 15];
  }
  return r;
}
std::string cps(std::wstring const &w)
{
  std::string r;
  char b[16];
  for (wchar_t c : w)
  {
    std::snprintf(b, sizeof b, "U+%04X ", static_cast<unsigned>(c));
    r += b;
  }
  return r;
}

template <class T>
std::vector<T> int_lattice()
{
  std::vector<T> r;
  using L = std::numeric_limits<T>;
  for (int k = 0; k < 64; ++k)
  {
    i128 p = static_cast<i128>(1) << k;
    for (int d = -1; d <= 1; ++d)
      for (int sgn : {1, -1})
      {
        i128 v = sgn * p + d;
        if (v >= static_cast<i128>(L::min()) && v <= static_cast<i128>(L::max()))
          r.push_back(static_cast<T>(v));
      }
  }
  r.push_back(L::min());
  r.push_back(L::max());
  r.push_back(0);
  // values containing zero bytes / 0xFF bytes / palindromic bytes
  for (std::uint64_t pat : {0x00FF00FF00FF00FFULL, 0xFF00FF00FF00FF00ULL, 0x0102030405060708ULL, 0x0100000000000001ULL, 0x00000000FFFFFFFFULL})
    r.push_back(static_cast<T>(pat));
  return r;
}

// ------------------------------------------------------------------ binary io
// delivers the first `good` bytes, then throws from underflow (an input device error: istream turns it into badbit,
// without eofbit)
struct throwing_buf : std::streambuf
{
  std::string data;
  std::size_t good;
  throwing_buf(std::string d, std::size_t g) : data(std::move(d)), good(g)
  {
    setg(data.data(), data.data(), data.data() + std::min(good, data.size()));
  }
  int_type underflow() override { throw std::runtime_error("device error"); }
};

// accepts `room` bytes, then refuses (a full device): mode 0 answers eof from overflow, mode 1 throws from it
struct bounded_sink : std::streambuf
{
  std::string got;
  std::size_t room;
  int mode;
  bounded_sink(std::size_t r, int m) : room(r), mode(m) {}
  int_type overflow(int_type c) override
  {
    if (traits_type::eq_int_type(c, traits_type::eof()))
      return traits_type::not_eof(c);
    if (got.size() >= room)
    {
      if (mode == 1)
        throw std::runtime_error("device full");
      return traits_type::eof();
    }
    got += traits_type::to_char_type(c);
    return c;
  }
};

template <class T>
void rw_one(T v, std::string const &e)
{
  using U = std::conditional_t<sizeof(T) == 1, std::uint8_t,
                               std::conditional_t<sizeof(T) == 2, std::uint16_t, std::conditional_t<sizeof(T) == 4, std::uint32_t, std::uint64_t>>>;
  U u;
  std::memcpy(&u, &v, sizeof(T));
  for (std::endian en : {std::endian::big, std::endian::little})
  {
    char const *ename = en == std::endian::big ? "big" : "little";
    std::ostringstream os;
    fcppt::io::write(os, v, en);
    std::string b = os.str();
    VF_COUNT("io/write-read");
    if (b.size() != sizeof(T))
    {
      vf::violation(e + "/write/size", "mismatch", "wrote " + std::to_string(b.size()) + " bytes");
      continue;
    }
    for (std::size_t i = 0; i < sizeof(T); ++i)
    {
      unsigned char want = en == std::endian::big ? static_cast<unsigned char>(u >> (8 * (sizeof(T) - 1 - i))) : static_cast<unsigned char>(u >> (8 * i));
      if (static_cast<unsigned char>(b[i]) != want)
      {
        vf::violation(e + "/write/byte-order/" + ename, "mismatch", "bytes " + hexs(b) + " for bits " + std::to_string(static_cast<std::uint64_t>(u)));
        break;
      }
    }
    std::istringstream is(b);
    auto r = fcppt::io::read<T>(is, en);
    if (!r.has_value())
      vf::violation(e + "/read/nothing/" + ename, "mismatch", "bits " + std::to_string(static_cast<std::uint64_t>(u)));
    else
    {
      T x = r.get_unsafe();
      if (std::memcmp(&x, &v, sizeof(T)) != 0)
        vf::violation(e + "/read/value/" + ename, "mismatch", "bits " + std::to_string(static_cast<std::uint64_t>(u)));
    }
    // reading from a stream that is short by any number of bytes must yield nothing, never a value
    for (std::size_t have = 0; have < sizeof(T); ++have)
    {
      std::istringstream is2(b.substr(0, have));
      if (fcppt::io::read<T>(is2, en).has_value())
        vf::violation(e + "/read/short-stream", "mismatch", "value from a truncated stream");
    }
    // a stream that cannot deliver (failed before the call, or the device fails inside the call) yields nothing as
    // well - in these states eofbit is NOT set
    {
      std::istringstream f1(b);
      f1.setstate(std::ios_base::failbit);
      if (fcppt::io::read<T>(f1, en).has_value())
        vf::violation(e + "/read/value-from-failed-stream", "mismatch", "failbit was set before the call");
      std::istringstream f2(b);
      f2.setstate(std::ios_base::badbit);
      if (fcppt::io::read<T>(f2, en).has_value())
        vf::violation(e + "/read/value-from-failed-stream", "mismatch", "badbit was set before the call");
      for (std::size_t good = 0; good < sizeof(T); ++good)
      {
        throwing_buf tb(b, good);
        std::istream f3(&tb);
        if (fcppt::io::read<T>(f3, en).has_value())
          vf::violation(e + "/read/value-from-failing-device", "mismatch", "the device failed after " + std::to_string(good) + " bytes");
      }
      VF_COUNT("io/read-from-failed-stream");
    }
    // writing to a device that takes fewer bytes than the value has: the failure must be visible in the stream state
    // (a value is written completely or the write is reported as failed), and nothing but a prefix of the encoding arrives
    for (int mode = 0; mode <= 1; ++mode)
      for (std::size_t room = 0; room <= sizeof(T); ++room)
      {
        bounded_sink sink(room, mode);
        std::ostream o(&sink);
        fcppt::io::write(o, v, en);
        if (room == sizeof(T))
        {
          if (!o.good() || sink.got != b)
            vf::violation(e + "/write/bounded-sink-with-room", "mismatch", "room for the whole value, stream state " + std::to_string(o.rdstate()));
          continue;
        }
        if (o.good())
          vf::violation(e + "/write/truncated-but-stream-good", "mismatch",
                        "the device took " + std::to_string(sink.got.size()) + " of " + std::to_string(sizeof(T)) + " bytes and the stream is still good()");
        if (sink.got.size() > room || b.compare(0, sink.got.size(), sink.got) != 0)
          vf::violation(e + "/write/truncated-bytes", "mismatch", "not a prefix of the encoding");
        VF_COUNT("io/write-to-full-device");
      }
    T c1 = fcppt::endianness::convert(fcppt::endianness::convert(v, en), en);
    if (std::memcmp(&c1, &v, sizeof(T)) != 0)
      vf::violation(e + "/convert-twice", "mismatch", "bits " + std::to_string(static_cast<std::uint64_t>(u)));
    T c2 = fcppt::endianness::convert(v, en);
    U cu;
    std::memcpy(&cu, &c2, sizeof(T));
    U wantu = u;
    if (en != std::endian::native)
    {
      wantu = 0;
      for (std::size_t i = 0; i < sizeof(T); ++i)
        wantu = static_cast<U>(wantu | (static_cast<U>((u >> (8 * i)) & 0xFF) << (8 * (sizeof(T) - 1 - i))));
    }
    if (cu != wantu)
      vf::violation(e + "/convert/value/" + ename, "mismatch", "bits " + std::to_string(static_cast<std::uint64_t>(u)));
  }
  T sw = fcppt::endianness::swap(fcppt::endianness::swap(v));
  if (std::memcmp(&sw, &v, sizeof(T)) != 0)
    vf::violation(e + "/swap-twice", "mismatch", "bits " + std::to_string(static_cast<std::uint64_t>(u)));
}

template <class T>
void binary_ints(char const *tn)
{
  std::string e = std::string("binary<") + tn + ">";
  if (!vf::entry_enabled(e))
    return;
  vf::set_entry(e);
  std::vector<T> vals;
  if constexpr (sizeof(T) <= 2)
    for (i128 v = std::numeric_limits<T>::min(); v <= static_cast<i128>(std::numeric_limits<T>::max()); ++v)
      vals.push_back(static_cast<T>(v));
  else
  {
    vals = int_lattice<T>();
    vf::rng g(vf::seed_for(e));
    std::size_t n = vf::tier<std::size_t>(20000, 2000000);
    for (std::size_t i = 0; i < n; ++i)
      vals.push_back(static_cast<T>(g.next() >> g.below(sizeof(T) * 8)));
  }
  std::size_t const chunk = 2048;
  for (std::size_t c = 0, ci = 0; c < vals.size(); c += chunk, ++ci)
  {
    if (!vf::mine(ci))
      continue;
    std::size_t end = std::min(vals.size(), c + chunk);
    if (!vf::begin_case("chunk=%zu first=%lld", ci, static_cast<long long>(vals[c])))
      continue;
    vf::sample_case(1);
    vf::add_evals(end - c - 1);
    vf::note_distinct(vf::hash_mix(vf::hash_str(e), vf::hash_bytes(&vals[c], (end - c) * sizeof(T))));
    for (std::size_t i = c; i < end; ++i)
    {
      vf::operands(static_cast<long long>(vals[i]));
      rw_one<T>(vals[i], e);
    }
  }
}

template <class F>
void binary_floats(char const *tn)
{
  std::string e = std::string("binary<") + tn + ">";
  if (!vf::entry_enabled(e))
    return;
  vf::set_entry(e);
  using U = std::conditional_t<sizeof(F) == 4, std::uint32_t, std::uint64_t>;
  std::vector<F> vals{F(0), -F(0), F(1), F(-1.5), std::numeric_limits<F>::min(), std::numeric_limits<F>::denorm_min(),
                      std::numeric_limits<F>::max(), std::numeric_limits<F>::lowest(), std::numeric_limits<F>::infinity(),
                      -std::numeric_limits<F>::infinity(), std::numeric_limits<F>::quiet_NaN(), std::numeric_limits<F>::epsilon(), F(3.141592653589793)};
  vf::rng g(vf::seed_for(e));
  std::size_t n = vf::tier<std::size_t>(20000, 1000000);
  for (std::size_t i = 0; i < n; ++i)
  {
    U bits = static_cast<U>(g.next()); // arbitrary bit patterns: NaN payloads, denormals
    F f;
    std::memcpy(&f, &bits, sizeof f);
    vals.push_back(f);
  }
  // one case per chunk (a case is bounded by the per-case watchdog; the partitions share the chunks)
  std::size_t const chunk = 2048;
  for (std::size_t c = 0, ci = 0; c < vals.size(); c += chunk, ++ci)
  {
    if (!vf::mine(ci))
      continue;
    std::size_t const end = std::min(vals.size(), c + chunk);
    if (!vf::begin_case("chunk=%zu: %zu values incl. +-0, denormals, inf, NaN payloads", ci, end - c))
      continue;
    vf::sample_case(1);
    vf::add_evals(end - c - 1);
    vf::note_distinct(vf::hash_mix(vf::hash_str(e), vf::hash_bytes(&vals[c], (end - c) * sizeof(F))));
    for (std::size_t i = c; i < end; ++i)
      rw_one<F>(vals[i], e);
  }
}

// ------------------------------------------------------------------ decimal text
// Conversions are independent of each other: a type whose operator<< leaves the stream's format flags changed (hex,
// showbase, fill, width) or that converts something itself while it is being written must not influence the NEXT
// conversion on the same thread.  sticky_hex / nested_writer are written before every tenth integer.
struct sticky_hex
{
  unsigned v;
};
template <class Ch, class Tr>
std::basic_ostream<Ch, Tr> &operator<<(std::basic_ostream<Ch, Tr> &s, sticky_hex const &x)
{
  return s << std::hex << std::showbase << std::setfill(Ch('*')) << x.v; // leaves hex | showbase | fill behind
}
struct nested_writer
{
  int v;
};
template <class Ch, class Tr>
std::basic_ostream<Ch, Tr> &operator<<(std::basic_ostream<Ch, Tr> &s, nested_writer const &x)
{
  s << Ch('<');
  std::string const inner = fcppt::output_to_std_string(x.v); // a conversion while another one is in progress
  for (char c : inner)
    s << s.widen(c);
  return s << Ch('>');
}
inline void disturb_the_thread()
{
  static unsigned n = 0;
  if (++n % 10 != 0)
    return;
  VF_COUNT("text/conversions-after-a-flag-changing-or-nested-conversion");
  if (fcppt::output_to_std_string(sticky_hex{255}) != "0xff")
    vf::violation("text/sticky-manipulators/own-output", "mismatch", fcppt::output_to_std_string(sticky_hex{255}));
  std::string const nested = fcppt::output_to_std_string(nested_writer{42});
  if (nested != "<42>")
    vf::violation("text/nested-conversion/outer-text-lost", "mismatch", "got \"" + nested + "\" want \"<42>\"");
  (void)fcppt::output_to_std_wstring(sticky_hex{255});
}

template <class T>
void text_one(T v, std::string const &e)
{
  VF_COUNT("text/roundtrips");
  disturb_the_thread();
  std::string s = fcppt::output_to_std_string(v);
  if constexpr (sizeof(T) > 1)
    if (s != std::to_string(v))
      vf::violation(e + "/output/text", "mismatch", "got \"" + s + "\" want \"" + std::to_string(v) + "\"");
  auto r = fcppt::extract_from_string<T>(s);
  if constexpr (sizeof(T) == 1)
  {
    // iostreams treat char types as characters (and wide streams cannot extract them at all):
    // only "the same value or nothing" is required
    VF_COUNT("text/char-types");
    if (r.has_value() && r.get_unsafe() != v)
      vf::violation(e + "/roundtrip/different-value", "mismatch", "value " + std::to_string(static_cast<int>(v)));
  }
  else
  {
    std::wstring w = fcppt::output_to_std_wstring(v);
    auto r2 = fcppt::extract_from_string<T>(w);
    if (!r.has_value() || r.get_unsafe() != v)
      vf::violation(e + "/roundtrip", "mismatch", "value " + std::to_string(v) + " text \"" + s + "\"");
    if (!r2.has_value() || r2.get_unsafe() != v)
      vf::violation(e + "/wide-roundtrip", "mismatch", "value " + std::to_string(v));
  }
}
template <class T>
void text_ints(char const *tn)
{
  std::string e = std::string("text<") + tn + ">";
  if (!vf::entry_enabled(e))
    return;
  vf::set_entry(e);
  std::vector<T> vals;
  if constexpr (sizeof(T) <= 2)
    for (i128 v = std::numeric_limits<T>::min(); v <= static_cast<i128>(std::numeric_limits<T>::max()); ++v)
      vals.push_back(static_cast<T>(v));
  else
  {
    vals = int_lattice<T>();
    vf::rng g(vf::seed_for(e));
    std::size_t n = vf::tier<std::size_t>(5000, 500000);
    for (std::size_t i = 0; i < n; ++i)
      vals.push_back(static_cast<T>(g.next() >> g.below(sizeof(T) * 8)));
  }
  std::size_t const chunk = 1024;
  for (std::size_t c = 0, ci = 0; c < vals.size(); c += chunk, ++ci)
  {
    if (!vf::mine(ci))
      continue;
    std::size_t end = std::min(vals.size(), c + chunk);
    if (!vf::begin_case("chunk=%zu first=%lld", ci, static_cast<long long>(vals[c])))
      continue;
    vf::sample_case(1);
    vf::add_evals(end - c - 1);
    vf::note_distinct(vf::hash_mix(vf::hash_str(e), vf::hash_bytes(&vals[c], (end - c) * sizeof(T))));
    for (std::size_t i = c; i < end; ++i)
    {
      vf::operands(static_cast<long long>(vals[i]));
      text_one<T>(vals[i], e);
    }
  }
  // non-numbers and overflowing digit strings must be rejected, never converted to some value
  if (vf::mine(vf::hash_str(e)) && vf::begin_case("malformed texts"))
  {
    if constexpr (sizeof(T) > 1)
      for (std::string const &s : {std::string(""), std::string("x"), std::string("-"), std::string("+"), std::string("12x"), std::string("1 2"),
                                   std::string("99999999999999999999999999"), std::string("-99999999999999999999999999"), std::string("1.5")})
      {
        VF_COUNT("text/malformed");
        auto r = fcppt::extract_from_string<T>(s);
        if (r.has_value())
          vf::violation(e + "/malformed-accepted", "mismatch", "\"" + s + "\" converted to " + std::to_string(r.get_unsafe()));
      }
  }
}

// The same round trip while the program's GLOBAL locale groups digits ("1,000"): writer and reader both take their locale from
// the same place, so whatever the writer produces the reader must take back. (Custom numpunct facets: no system locale needed.)
template <class Ch>
struct grouping_punct : std::numpunct<Ch>
{
  Ch do_thousands_sep() const override { return Ch(','); }
  std::string do_grouping() const override { return "\3"; }
};
template <class T>
void text_grouping_locale(char const *tn)
{
  std::string e = std::string("text-under-grouping-global-locale<") + tn + ">";
  if (!vf::entry_enabled(e) || !vf::mine(vf::hash_str(e)))
    return;
  vf::set_entry(e);
  if (!vf::begin_case("lattice and 2000 seeded values"))
    return;
  vf::note_distinct(vf::hash_str(e));
  std::vector<T> vals = int_lattice<T>();
  vf::rng g(vf::seed_for(e));
  for (int i = 0; i < 2000; ++i)
    vals.push_back(static_cast<T>(g.next() >> g.below(sizeof(T) * 8)));
  struct restore
  {
    std::locale old;
    ~restore() { std::locale::global(old); }
  } guard{std::locale::global(std::locale(std::locale(std::locale::classic(), new grouping_punct<char>), new grouping_punct<wchar_t>))};
  // the explicit-locale variants, independent of the global locale: written and read with the SAME locale object
  // (classic - while the global locale groups digits - and a second grouping locale object)
  {
    std::locale const grouping(std::locale(std::locale::classic(), new grouping_punct<char>), new grouping_punct<wchar_t>);
    for (T v : vals)
      for (std::locale const &loc : {std::locale::classic(), grouping})
      {
        vf::add_evals(1);
        std::string const s = fcppt::output_to_string_locale<std::string>(v, loc);
        std::wstring const w = fcppt::output_to_string_locale<std::wstring>(v, loc);
        auto const r = fcppt::extract_from_string_locale<T>(s, loc);
        auto const r2 = fcppt::extract_from_string_locale<T>(w, loc);
        if (!r.has_value() || r.get_unsafe() != v || !r2.has_value() || r2.get_unsafe() != v)
          vf::violation(e + "/explicit-locale-roundtrip", "mismatch", "value " + std::to_string(v) + " written as \"" + s + "\"");
        VF_COUNT("text/explicit-locale-roundtrips");
      }
  }
  for (T v : vals)
  {
    vf::add_evals(1);
    std::string const s = fcppt::output_to_std_string(v);
    std::wstring const w = fcppt::output_to_std_wstring(v);
    if (s.find(',') != std::string::npos)
      VF_COUNT("text/grouping-locale/written-with-separator");
    else
      VF_COUNT("text/grouping-locale/written-without-separator");
    auto const r = fcppt::extract_from_string<T>(s);
    auto const r2 = fcppt::extract_from_string<T>(w);
    if (!r.has_value() || r.get_unsafe() != v)
      vf::violation(e + "/roundtrip", "mismatch", "value " + std::to_string(v) + " was written as \"" + s + "\" and did not read back");
    if (!r2.has_value() || r2.get_unsafe() != v)
      vf::violation(e + "/wide-roundtrip", "mismatch", "value " + std::to_string(v));
  }
}

// ------------------------------------------------------------------ enums
template <class E>
void enum_roundtrip(char const *en, std::vector<std::string> const &non_names)
{
  std::string e = std::string("enum<") + en + ">";
  if (!vf::entry_enabled(e) || !vf::mine(vf::hash_str(e)))
    return;
  vf::set_entry(e);
  if (!vf::begin_case("all enumerators"))
    return;
  vf::sample_case(1);
  vf::note_distinct(vf::hash_str(e));
  auto names = fcppt::enum_::names<E>();
  std::size_t idx = 0;
  for (E v : fcppt::enum_::make_range<E>())
  {
    VF_COUNT("enum/roundtrips");
    vf::add_evals(1);
    std::string s{fcppt::enum_::to_string(v)};
    auto r = fcppt::enum_::from_string<E>(s);
    if (!r.has_value() || r.get_unsafe() != v)
      vf::violation(e + "/from_string(to_string)", "mismatch", "enumerator " + s);
    if (std::string{names[v]} != s)
      vf::violation(e + "/names", "mismatch", "names()[" + std::to_string(idx) + "]");
    {
      std::ostringstream os;
      fcppt::enum_::output(os, v);
      if (os.str() != s)
        vf::violation(e + "/output", "mismatch", "wrote \"" + os.str() + "\" want \"" + s + "\"");
      std::istringstream is(os.str());
      E x{};
      fcppt::enum_::input(is, x);
      if (is.fail() || x != v)
        vf::violation(e + "/stream-roundtrip", "mismatch", "enumerator " + s);
    }
    {
      std::wostringstream os;
      fcppt::enum_::output(os, v);
      std::wistringstream is(os.str());
      E x{};
      fcppt::enum_::input(is, x);
      if (is.fail() || x != v)
        vf::violation(e + "/wide-stream-roundtrip", "mismatch", "enumerator " + s);
    }
    ++idx;
  }
  for (std::string const &s : non_names)
  {
    VF_COUNT("enum/non-names");
    if (fcppt::enum_::from_string<E>(s).has_value())
      vf::violation(e + "/from_string/non-name-accepted", "mismatch", "\"" + s + "\"");
    std::istringstream is(s);
    E x{};
    fcppt::enum_::input(is, x);
    if (!is.fail())
      vf::violation(e + "/input/non-name-accepted", "mismatch", "\"" + s + "\"");
  }
}

// ------------------------------------------------------------------ vector / dim
template <std::size_t N>
void vector_roundtrip()
{
  std::string e = "vector-dim<" + std::to_string(N) + ">";
  if (!vf::entry_enabled(e) || !vf::mine(vf::hash_str(e)))
    return;
  vf::set_entry(e);
  if (!vf::begin_case("all vectors and dims over {-2..2}^%zu", N))
    return;
  vf::sample_case(1);
  vf::note_distinct(vf::hash_str(e));
  using V = fcppt::math::vector::static_<int, N>;
  using D = fcppt::math::dim::static_<int, N>;
  std::size_t total = 1;
  for (std::size_t i = 0; i < N; ++i)
    total *= 5;
  for (std::size_t code = 0; code < total; ++code)
  {
    int c[3] = {0, 0, 0};
    std::size_t x = code;
    std::string want = "(";
    for (std::size_t i = 0; i < N; ++i, x /= 5)
    {
      c[i] = static_cast<int>(x % 5) - 2;
      want += std::to_string(c[i]) + (i + 1 < N ? "," : "");
    }
    want += ")";
    VF_COUNT("vector/roundtrips");
    vf::add_evals(1);
    auto run = [&](auto v, auto zero, char const *what) {
      std::ostringstream os;
      os << v;
      if (os.str() != want)
        vf::violation(e + "/" + what + "/output", "mismatch", "wrote \"" + os.str() + "\" want \"" + want + "\"");
      std::istringstream is(os.str());
      is >> zero;
      if (is.fail() || !(zero == v))
        vf::violation(e + "/" + what + "/roundtrip", "mismatch", "text " + os.str());
      std::wostringstream wos;
      wos << v;
      std::wistringstream wis(wos.str());
      auto z2 = zero;
      wis >> z2;
      if (wis.fail() || !(z2 == v))
        vf::violation(e + "/" + what + "/wide-roundtrip", "mismatch", "text " + os.str());
      // ONE read-write stream used as a queue: write a value, read it back to the present end, write the next, read it.
      // Reading a value consumes exactly its text - the closing parenthesis is the last character touched - so the
      // stream is still good() for the next write (a reader that looks behind the value hits the end and sets eofbit)
      {
        std::stringstream q;
        bool good = true;
        for (int k = 0; k < 3 && good; ++k)
        {
          q << v;
          auto back = zero;
          q >> back;
          good = !q.fail() && back == v && q.good();
        }
        VF_COUNT("vector/one-stream-as-a-queue");
        if (!good)
          vf::violation(e + "/" + what + "/write-read-write-read-on-one-stream", "mismatch",
                        "text " + os.str() + ": after reading a value back to the end of the stream the stream is " + (q.eof() ? "at eof" : q.fail() ? "failed" : "good") +
                            " (a later write / read pair is lost)");
      }
      // several values in ONE stream, as streams are used: separated by a blank, a line break, a tab, or padded by a
      // field width (the padding lands in front of the value); every one of them reads back
      {
        std::ostringstream seq;
        seq << v << ' ' << v << '\n' << v << "\t " << std::setw(static_cast<int>(want.size()) + 3) << v;
        std::istringstream in(seq.str());
        for (int k = 0; k < 4; ++k)
        {
          auto z = zero;
          in >> z;
          if (in.fail() || !(z == v))
          {
            vf::violation(e + "/" + what + "/sequence-in-one-stream", "mismatch", "value number " + std::to_string(k + 1) + " of \"" + seq.str() + "\" did not read back");
            break;
          }
        }
        VF_COUNT("vector/sequences-in-one-stream");
      }
      // writer and reader configured alike with a non-default integer base (the components are formatted by the
      // stream the caller handed in, with its flags): components 0..400, so that digits beyond 9 / 7 occur
      for (int base = 0; base < 3; ++base)
      {
        auto big = v;
        for (std::size_t i = 0; i < N; ++i)
          big.get_unsafe(i) = (v.get_unsafe(i) + 2) * 100;
        auto const conf = [base](std::ios_base &st) {
          st.setf(base == 0 ? std::ios_base::hex : std::ios_base::oct, std::ios_base::basefield);
          if (base == 2)
            st.setf(std::ios_base::showbase);
        };
        std::ostringstream hos;
        conf(hos);
        hos << big;
        std::istringstream his(hos.str());
        conf(his);
        auto z = zero;
        his >> z;
        if (his.fail() || !(z == big))
          vf::violation(e + "/" + what + "/non-decimal-base-roundtrip", "mismatch", "wrote \"" + hos.str() + "\" under " + (base == 0 ? "hex" : base == 1 ? "oct" : "oct+showbase"));
        VF_COUNT("vector/non-decimal-base-roundtrips");
      }
    };
    if constexpr (N == 1)
    {
      run(V(c[0]), V(99), "vector");
      run(D(c[0]), D(99), "dim");
    }
    else if constexpr (N == 2)
    {
      run(V(c[0], c[1]), V(99, 99), "vector");
      run(D(c[0], c[1]), D(99, 99), "dim");
    }
    else
    {
      run(V(c[0], c[1], c[2]), V(99, 99, 99), "vector");
      run(D(c[0], c[1], c[2]), D(99, 99, 99), "dim");
    }
  }
  // malformed texts -> failbit
  for (std::string const &s : {std::string(""), std::string("("), std::string("(1"), std::string("1,2)"), std::string("(a)"), std::string("(1;2;3)"), std::string("[1,2,3]")})
  {
    VF_COUNT("vector/malformed");
    std::istringstream is(s);
    if constexpr (N == 1)
    {
      V v(0);
      is >> v;
    }
    else if constexpr (N == 2)
    {
      V v(0, 0);
      is >> v;
    }
    else
    {
      V v(0, 0, 0);
      is >> v;
    }
    if (!is.fail())
      vf::violation(e + "/vector/malformed-accepted", "mismatch", "\"" + s + "\"");
  }
}

// ------------------------------------------------------------------ UTF-8 conversions
struct utf_checker
{
  std::locale loc{"C.utf8"};
  std::string e;
  void check(std::wstring const &w, std::string const &u)
  {
    VF_COUNT("utf8/strings");
    std::size_t multi = u.size() - w.size();
    if (multi > 0 && w.size() > 0)
    {
      // output grows beyond the initial buffer (one element per input element)
      if (u.size() >= 4 * w.size())
        VF_COUNT("utf8/narrow-growth/x4");
      else if (u.size() >= 2 * w.size())
        VF_COUNT("utf8/narrow-growth/x2-3");
      else
        VF_COUNT("utf8/narrow-growth/lt-x2");
    }
    auto n = fcppt::narrow_locale(w, loc);
    if (!n.has_value())
      vf::violation(e + "/narrow/nothing-for-valid-text", "mismatch", cps(w));
    else if (n.get_unsafe() != u)
      vf::violation(e + (n.get_unsafe().size() < u.size() ? "/narrow/truncated" : "/narrow/wrong"), "mismatch",
                    cps(w) + "-> " + hexs(n.get_unsafe()) + " want " + hexs(u));
    try
    {
      std::wstring back = fcppt::widen_locale(u, loc);
      if (back != w)
        vf::violation(e + (back.size() < w.size() ? "/widen/truncated" : "/widen/wrong"), "mismatch", hexs(u) + " -> " + cps(back) + "want " + cps(w));
    }
    catch (std::runtime_error const &)
    {
      vf::violation(e + "/widen/exception-for-valid-text", "mismatch", hexs(u));
    }
  }
  // the locale-less overloads use std::locale("") = the environment (LC_ALL=C.utf8 set by the driver)
  void check_env(std::wstring const &w, std::string const &u)
  {
    VF_COUNT("utf8/env-locale-strings");
    auto n = fcppt::narrow(w);
    if (!n.has_value() || n.get_unsafe() != u)
      vf::violation(e + "/narrow(env-locale)", "mismatch", cps(w));
    if (fcppt::widen(u) != w)
      vf::violation(e + "/widen(env-locale)", "mismatch", hexs(u));
    auto f = fcppt::from_std_wstring(w);
    if (!f.has_value() || f.get_unsafe() != u)
      vf::violation(e + "/from_std_wstring", "mismatch", cps(w));
    if (fcppt::to_std_wstring(u) != w)
      vf::violation(e + "/to_std_wstring", "mismatch", hexs(u));
    auto f2 = fcppt::from_std_wstring_locale(w, loc);
    if (!f2.has_value() || f2.get_unsafe() != u)
      vf::violation(e + "/from_std_wstring_locale", "mismatch", cps(w));
    if (fcppt::to_std_wstring_locale(u, loc) != w)
      vf::violation(e + "/to_std_wstring_locale", "mismatch", hexs(u));
  }
};

bool env_is_utf8()
{
  try
  {
    std::locale l("");
    auto const &cv = std::use_facet<std::codecvt<wchar_t, char, std::mbstate_t>>(l);
    return cv.max_length() >= 4;
  }
  catch (...)
  {
    return false;
  }
}

void utf8_scalars()
{
  std::string e = "utf8/scalars";
  if (!vf::entry_enabled(e))
    return;
  vf::set_entry(e);
  utf_checker c;
  c.e = "utf8";
  bool env = env_is_utf8();
  if (!env)
    vf::observation("environment locale is not UTF-8: the locale-less overloads (narrow/widen/to_std_wstring/from_std_wstring) were not exercised");
  // every scalar value singly, in blocks of 4096
  std::uint64_t blk = 0;
  for (char32_t base = 0; base <= 0x10FFFF; base += 4096, ++blk)
  {
    if (!vf::mine(blk))
      continue;
    if (!vf::begin_case("scalars U+%04X..U+%04X singly and padded", static_cast<unsigned>(base), static_cast<unsigned>(base + 4095)))
      continue;
    vf::sample_case(1);
    vf::note_distinct(vf::hash_mix(vf::hash_str(e), base));
    for (char32_t cp = base; cp < base + 4096 && cp <= 0x10FFFF; ++cp)
    {
      if (cp == 0 || (cp >= 0xD800 && cp <= 0xDFFF))
        continue;
      vf::operands(static_cast<long long>(cp));
      vf::add_evals(1);
      std::wstring w(1, static_cast<wchar_t>(cp));
      std::string u = utf8(cp);
      c.check(w, u);
      VF_COUNT("utf8/scalars-singly");
      if (cp % 61 == 0 || cp < 0x900)
      {
        // with ASCII neighbours: the multi-byte character arrives when the buffer is nearly full
        c.check(L"a" + w, "a" + u);
        c.check(w + L"a", u + "a");
        c.check(L"a" + w + L"b" + w, "a" + u + "b" + u);
        if (env)
          c.check_env(L"a" + w + L"b", "a" + u + "b");
      }
    }
  }
}

// Wide strings containing code units that are NOT characters (surrogates, values beyond U+10FFFF, negative wchar_t such
// as WEOF): "conversions never silently truncate: they return the complete result or report failure".  Model-free
// oracle: narrow returns nothing, or a string that widens back to exactly the input.
void utf8_invalid_wide()
{
  std::string e = "utf8/invalid-wide-code-units";
  if (!vf::entry_enabled(e))
    return;
  vf::set_entry(e);
  std::locale const loc{"C.utf8"};
  bool const env = env_is_utf8();
  std::vector<unsigned long> const bad{0xD800UL, 0xDBFFUL, 0xDC00UL, 0xDFFFUL, 0x110000UL, 0x7FFFFFFFUL, 0x80000000UL, 0x80000042UL, 0xFFFFFF41UL,
                                       0xFFFFFFFEUL, 0xFFFFFFFFUL};
  std::vector<std::wstring> const contexts{L"", L"a", L"abc", L"\u00e9", L"a\u20acb", std::wstring(70, L'q')};
  std::uint64_t idx = 0;
  for (unsigned long b : bad)
    for (std::wstring const &pre : contexts)
      for (std::wstring const &post : contexts)
      {
        if (!vf::mine(idx++))
          continue;
        std::wstring w = pre;
        w += static_cast<wchar_t>(static_cast<std::int32_t>(static_cast<std::uint32_t>(b)));
        w += post;
        if (!vf::begin_case("code unit 0x%lX between %zu and %zu characters", b, pre.size(), post.size()))
          continue;
        vf::sample_case(1);
        vf::note_distinct(vf::hash_mix(vf::hash_str(e), vf::hash_bytes(w.data(), w.size() * sizeof(wchar_t))));
        auto const judge = [&](fcppt::optional::object<std::string> const &n, char const *fn) {
          if (!n.has_value())
          {
            VF_COUNT("utf8/invalid-wide/reported-as-failure");
            return;
          }
          bool same = false;
          try
          {
            same = fcppt::widen_locale(n.get_unsafe(), loc) == w;
          }
          catch (std::runtime_error const &)
          {
          }
          if (!same)
            vf::violation(std::string("utf8/") + fn + "/invalid-code-unit-silently-converted", "mismatch",
                          cps(w) + "-> " + hexs(n.get_unsafe()) + " (does not widen back to the input)");
          else
            VF_COUNT("utf8/invalid-wide/converted-and-round-trips");
        };
        judge(fcppt::narrow_locale(w, loc), "narrow_locale");
        judge(fcppt::from_std_wstring_locale(w, loc), "from_std_wstring_locale");
        if (env)
        {
          judge(fcppt::narrow(w), "narrow");
          judge(fcppt::from_std_wstring(w), "from_std_wstring");
        }
      }
}

// A codecvt facet that KEEPS STATE between calls: the wide side is UTF-16 (surrogate pairs), a high surrogate is consumed
// into the mbstate_t and the 4 output bytes are produced when the low surrogate arrives.  When the output buffer fills
// exactly in between, the conversion is resumed by the library with the state the facet left behind.  (The state of the
// glibc locales is always initial between characters, so they cannot show how the state is carried.)
struct utf16_state_facet : std::codecvt<wchar_t, char, std::mbstate_t>
{
  using base = std::codecvt<wchar_t, char, std::mbstate_t>;
  utf16_state_facet() : base() {}
  result do_out(state_type &st, intern_type const *from, intern_type const *from_end, intern_type const *&from_next, extern_type *to,
                extern_type *to_end, extern_type *&to_next) const override
  {
    from_next = from;
    to_next = to;
    auto const put = [&to_next](char32_t cp) {
      std::string const u = utf8(cp);
      for (char ch : u)
        *to_next++ = ch;
    };
    while (from_next != from_end)
    {
      char32_t const u = static_cast<char32_t>(*from_next);
      if (st.__count != 0)
      {
        if (u < 0xDC00 || u > 0xDFFF)
          return error;
        if (to_end - to_next < 4)
          return partial;
        put(0x10000 + ((static_cast<char32_t>(st.__value.__wch) - 0xD800) << 10) + (u - 0xDC00));
        st = state_type{};
        ++from_next;
        continue;
      }
      if (u >= 0xD800 && u <= 0xDBFF)
      {
        st.__count = 1;
        st.__value.__wch = static_cast<unsigned>(u);
        ++from_next;
        continue;
      }
      if ((u >= 0xDC00 && u <= 0xDFFF) || u > 0xFFFF)
        return error;
      std::ptrdiff_t const need = u < 0x80 ? 1 : u < 0x800 ? 2 : 3;
      if (to_end - to_next < need)
        return partial;
      put(u);
      ++from_next;
    }
    return ok;
  }
  result do_in(state_type &, extern_type const *from, extern_type const *, extern_type const *&from_next, intern_type *to, intern_type *,
               intern_type *&to_next) const override
  {
    from_next = from;
    to_next = to;
    return error;
  }
  result do_unshift(state_type &, extern_type *to, extern_type *, extern_type *&to_next) const override
  {
    to_next = to;
    return noconv;
  }
  int do_encoding() const noexcept override { return 0; }
  bool do_always_noconv() const noexcept override { return false; }
  int do_length(state_type &, extern_type const *from, extern_type const *end, std::size_t max) const override
  {
    return static_cast<int>(std::min<std::size_t>(max, static_cast<std::size_t>(end - from)));
  }
  int do_max_length() const noexcept override { return 4; }
};

void stateful_facet()
{
  std::string e = "utf8/stateful-codecvt-facet";
  if (!vf::entry_enabled(e))
    return;
  vf::set_entry(e);
  std::locale const loc(std::locale::classic(), new utf16_state_facet);
  std::uint64_t idx = 0;
  // ASCII / 2-byte / 3-byte prefixes of every length 0..40, then 1..3 surrogate pairs, then a suffix
  for (unsigned prefix_kind = 0; prefix_kind < 3; ++prefix_kind)
    for (std::size_t plen = 0; plen <= 40; ++plen)
      for (unsigned pairs = 1; pairs <= 3; ++pairs)
        for (unsigned suffix = 0; suffix < 2; ++suffix)
        {
          if (!vf::mine(idx++))
            continue;
          std::wstring w;
          std::string want;
          char32_t const pc = prefix_kind == 0 ? U'a' : prefix_kind == 1 ? char32_t{0xE9} : char32_t{0x20AC};
          for (std::size_t k = 0; k < plen; ++k)
          {
            w += static_cast<wchar_t>(pc);
            want += utf8(pc);
          }
          for (unsigned k = 0; k < pairs; ++k)
          {
            char32_t const cp = 0x1F600 + k;
            w += static_cast<wchar_t>(0xD800 + ((cp - 0x10000) >> 10));
            w += static_cast<wchar_t>(0xDC00 + ((cp - 0x10000) & 0x3FF));
            want += utf8(cp);
          }
          if (suffix)
          {
            w += L'z';
            want += 'z';
          }
          if (!vf::begin_case("prefix %zu x U+%04X, %u surrogate pair(s)%s", plen, static_cast<unsigned>(pc), pairs, suffix ? ", suffix z" : ""))
            continue;
          vf::sample_case(1);
          vf::note_distinct(vf::hash_mix(vf::hash_str(e), vf::hash_str(want)));
          auto const n = fcppt::narrow_locale(w, loc);
          VF_COUNT("utf8/stateful-facet/strings");
          if (!n.has_value())
            vf::violation("utf8/narrow_locale/stateful-facet/nothing-for-valid-text", "mismatch", cps(w) + "want " + hexs(want));
          else if (n.get_unsafe() != want)
            vf::violation("utf8/narrow_locale/stateful-facet/wrong", "mismatch", cps(w) + "-> " + hexs(n.get_unsafe()) + " want " + hexs(want));
          // a string that ENDS inside a pair is incomplete: failure, never a truncated success
          std::wstring cut = w.substr(0, plen + 1);
          if (fcppt::narrow_locale(cut, loc).has_value())
            vf::violation("utf8/narrow_locale/stateful-facet/incomplete-input-accepted", "mismatch", cps(cut));
        }
}

void utf8_random_strings()
{
  std::string e = "utf8/random-strings";
  if (!vf::entry_enabled(e))
    return;
  vf::set_entry(e);
  utf_checker c;
  c.e = "utf8";
  bool env = env_is_utf8();
  std::uint64_t per = vf::tier<std::uint64_t>(20000, 3000000) / vf::opts().nparts + 1;
  for (std::uint64_t h = 0; h < per; ++h)
  {
    vf::rng g(vf::seed_for(e, h));
    std::size_t len = g.below(40) + 1;
    std::wstring w;
    std::string u;
    unsigned bias = static_cast<unsigned>(g.below(4)); // some strings mostly ASCII, some mostly 4-byte
    for (std::size_t i = 0; i < len; ++i)
    {
      char32_t cp;
      unsigned k = static_cast<unsigned>(g.below(4));
      if (g.chance(1, 2))
        k = bias;
      switch (k)
      {
      case 0: cp = static_cast<char32_t>(g.range(1, 0x7F)); break;
      case 1: cp = static_cast<char32_t>(g.range(0x80, 0x7FF)); break;
      case 2:
        cp = static_cast<char32_t>(g.range(0x800, 0xFFFF));
        if (cp >= 0xD800 && cp <= 0xDFFF)
          cp = 0x20AC;
        break;
      default: cp = static_cast<char32_t>(g.range(0x10000, 0x10FFFF)); break;
      }
      w += static_cast<wchar_t>(cp);
      u += utf8(cp);
    }
    if (!vf::begin_case("seed=%" PRIu64 " part=%u h=%" PRIu64 " %s", vf::opts().seed, vf::opts().part, h, cps(w).c_str()))
      continue;
    vf::sample_case(1);
    vf::note_distinct(vf::hash_mix(vf::hash_str(e), vf::hash_str(u)));
    c.check(w, u);
    if (env && h % 4 == 0)
      c.check_env(w, u);
    // invalid / incomplete UTF-8: cut the encoded text inside a multi-byte character, or corrupt a lead byte
    if (u.size() > w.size())
    {
      std::size_t cut = 0;
      for (std::size_t i = u.size(); i-- > 0;)
        if ((static_cast<unsigned char>(u[i]) & 0xC0) == 0x80)
        {
          cut = i;
          break;
        }
      if (cut > 0)
      {
        std::string bad = u.substr(0, cut); // ends inside a character
        VF_COUNT("utf8/incomplete-input");
        try
        {
          std::wstring r = fcppt::widen_locale(bad, c.loc);
          vf::violation("utf8/widen/incomplete-input-accepted", "mismatch", hexs(bad) + " -> " + cps(r));
        }
        catch (std::runtime_error const &)
        {
        }
      }
      std::string bad2 = u;
      for (char &ch : bad2)
        if ((static_cast<unsigned char>(ch) & 0xC0) == 0xC0)
        {
          ch = static_cast<char>(0xFF);
          break;
        }
      VF_COUNT("utf8/invalid-input");
      try
      {
        std::wstring r = fcppt::widen_locale(bad2, c.loc);
        vf::violation("utf8/widen/invalid-input-accepted", "mismatch", hexs(bad2) + " -> " + cps(r));
      }
      catch (std::runtime_error const &)
      {
      }
    }
  }
}

// io::widen_string / narrow_string work character by character through ctype: ASCII round trip
void io_string_wrappers()
{
  std::string e = "io::widen_string/narrow_string";
  if (!vf::entry_enabled(e) || !vf::mine(vf::hash_str(e)))
    return;
  vf::set_entry(e);
  if (!vf::begin_case("all printable ASCII strings of length <= 2 plus long ones"))
    return;
  vf::note_distinct(vf::hash_str(e));
  std::vector<std::string> texts{""};
  for (char a = 32; a < 127; ++a)
  {
    texts.push_back(std::string(1, a));
    texts.push_back(std::string(1, a) + "z");
  }
  texts.push_back(std::string(300, 'q'));
  for (std::string const &s : texts)
  {
    VF_COUNT("io-string/roundtrips");
    vf::add_evals(1);
    std::wostringstream wos;
    wos << fcppt::io::widen_string(s);
    std::wstring w = wos.str();
    if (w.size() != s.size())
    {
      vf::violation(e + "/widen/length", "mismatch", "\"" + s + "\"");
      continue;
    }
    auto n = fcppt::io::narrow_string(wos, std::wstring_view{w});
    if (!n.has_value() || n.get_unsafe() != s)
      vf::violation(e + "/roundtrip", "mismatch", "\"" + s + "\"");
  }
}

// The locale-less wrappers (narrow, widen, from/to_std_wstring) use std::locale("") - the environment AT THE TIME OF THE
// CALL (string.doxygen).  The very first conversions of this process run while the environment names the C locale; the
// environment is then switched back to the UTF-8 locale the driver set, and every later env-locale check must see it.
void first_conversions_under_another_environment()
{
  char const *const old = std::getenv("LC_ALL");
  std::string const saved = old ? old : "";
  ::setenv("LC_ALL", "C", 1);
  auto const n = fcppt::narrow(std::wstring(L"plain ascii"));
  std::wstring const w = fcppt::widen("plain ascii");
  if (!n.has_value() || n.get_unsafe() != "plain ascii" || w != L"plain ascii")
    vf::violation("utf8/env-locale/ascii-under-the-C-locale", "mismatch", "");
  if (old)
    ::setenv("LC_ALL", saved.c_str(), 1);
  else
    ::unsetenv("LC_ALL");
  vf::count("utf8/env-locale/first-conversions-under-LC_ALL=C");
}

void body()
{
  first_conversions_under_another_environment();
  for (char const *b : {"io/write-read", "vector/sequences-in-one-stream", "vector/non-decimal-base-roundtrips", "io/read-from-failed-stream", "io/write-to-full-device", "text/conversions-after-a-flag-changing-or-nested-conversion", "utf8/invalid-wide/reported-as-failure", "utf8/stateful-facet/strings", "text/grouping-locale/written-with-separator", "text/roundtrips", "text/char-types", "text/malformed", "enum/roundtrips", "enum/non-names",
                        "vector/roundtrips", "vector/malformed", "utf8/strings", "utf8/scalars-singly", "utf8/narrow-growth/x4",
                        "utf8/narrow-growth/x2-3", "utf8/narrow-growth/lt-x2", "utf8/incomplete-input", "utf8/invalid-input",
                        "utf8/env-locale-strings", "io-string/roundtrips"})
    vf::require_bucket(b);
  binary_ints<std::int8_t>("i8");
  binary_ints<std::uint8_t>("u8");
  binary_ints<std::int16_t>("i16");
  binary_ints<std::uint16_t>("u16");
  binary_ints<std::int32_t>("i32");
  binary_ints<std::uint32_t>("u32");
  binary_ints<std::int64_t>("i64");
  binary_ints<std::uint64_t>("u64");
  binary_floats<float>("float");
  binary_floats<double>("double");
  text_ints<signed char>("schar");
  text_ints<unsigned char>("uchar");
  text_ints<short>("short");
  text_ints<unsigned short>("ushort");
  text_ints<int>("int");
  text_ints<unsigned>("unsigned");
  text_ints<long>("long");
  text_ints<unsigned long>("ulong");
  text_ints<long long>("llong");
  text_ints<unsigned long long>("ullong");
  text_grouping_locale<short>("short");
  text_grouping_locale<unsigned short>("ushort");
  text_grouping_locale<int>("int");
  text_grouping_locale<unsigned>("unsigned");
  text_grouping_locale<long>("long");
  text_grouping_locale<unsigned long long>("ullong");
  enum_roundtrip<E1>("E1", {"", "onl", "onlyx", "Only"});
  enum_roundtrip<E5>("E5", {"", "alph", "alphax", "a", "ALPHA", "eps", "bet"});
  enum_roundtrip<E9>("E9", {"", "n", "n9", "n00", "8"});
  enum_roundtrip<E4packed>("E4packed", {"", "re", "redg", "redgreen", "greenblue", "gre-tail", "bluegre"});
  vector_roundtrip<1>();
  vector_roundtrip<2>();
  vector_roundtrip<3>();
  utf8_scalars();
  utf8_random_strings();
  utf8_invalid_wide();
  stateful_facet();
  io_string_wrappers();
}
}

VF_MAIN(body)
