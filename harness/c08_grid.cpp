// C08: grid positions, offsets and ranges form an exact row-major bijection.
//
// Oracle: literal nested for-loops over std::array<long long, N> (x fastest, last component slowest)
// and a std::map<position, index/value> as the grid model.  Nothing below calls a library function to
// compute the expected value of that same function.
//
// Judged  : offset (in-range positions), math::dim::contents / object::content, the whole-grid position
//           range (set, multiplicity and order), sub-ranges (set, multiplicity, size()), pos_ref_range
//           (positions, referenced cells), at_optional, the function constructor of object (it is how
//           every result grid is built), resize, map, apply, fill, clamped_min/sup/sup_signed.
// Observed: order inside sub-ranges, in_range/in_range_dim, min_less_sup, range_dim, range_size,
//           end_position, next_position when called directly, offset of out-of-range positions.
#include <vf.hpp>

#include <fcppt/make_cref.hpp>
#include <fcppt/reference_impl.hpp>
#include <fcppt/container/grid/apply.hpp>
#include <fcppt/container/grid/at_optional.hpp>
#include <fcppt/container/grid/clamped_min.hpp>
#include <fcppt/container/grid/clamped_sup.hpp>
#include <fcppt/container/grid/clamped_sup_signed.hpp>
#include <fcppt/container/grid/dim.hpp>
#include <fcppt/container/grid/end_position.hpp>
#include <fcppt/container/grid/fill.hpp>
#include <fcppt/container/grid/in_range.hpp>
#include <fcppt/container/grid/in_range_dim.hpp>
#include <fcppt/container/grid/make_pos_range.hpp>
#include <fcppt/container/grid/make_pos_range_start_end.hpp>
#include <fcppt/container/grid/make_pos_ref_crange.hpp>
#include <fcppt/container/grid/make_pos_ref_crange_start_end.hpp>
#include <fcppt/container/grid/make_pos_ref_range.hpp>
#include <fcppt/container/grid/make_pos_ref_range_start_end.hpp>
#include <fcppt/container/grid/map.hpp>
#include <fcppt/container/grid/min.hpp>
#include <fcppt/container/grid/min_less_sup.hpp>
#include <fcppt/container/grid/next_position.hpp>
#include <fcppt/container/grid/object.hpp>
#include <fcppt/container/grid/offset.hpp>
#include <fcppt/container/grid/pos.hpp>
#include <fcppt/container/grid/pos_range.hpp>
#include <fcppt/container/grid/pos_ref_range.hpp>
#include <fcppt/container/grid/pos_reference.hpp>
#include <fcppt/container/grid/range_dim.hpp>
#include <fcppt/container/grid/range_size.hpp>
#include <fcppt/container/grid/resize.hpp>
#include <fcppt/container/grid/sup.hpp>
#include <fcppt/math/size_constant.hpp>
#include <fcppt/math/size_type.hpp>
#include <fcppt/math/dim/comparison.hpp>
#include <fcppt/math/dim/contents.hpp>
#include <fcppt/math/dim/init.hpp>
#include <fcppt/math/dim/object_impl.hpp>
#include <fcppt/math/vector/comparison.hpp>
#include <fcppt/math/vector/init.hpp>
#include <fcppt/math/vector/object_impl.hpp>
#include <fcppt/optional/object_impl.hpp>
#include <fcppt/optional/reference.hpp>

#include <algorithm>
#include <array>
#include <cstddef>
#include <cstdint>
#include <iterator>
#include <limits>
#include <map>
#include <string>
#include <type_traits>
#include <utility>
#include <vector>

namespace
{
namespace fg = fcppt::container::grid;
using ll = long long;
template <std::size_t N>
using P = std::array<ll, N>;

// ------------------------------------------------------------------ the model
template <class F>
void for_box(P<1> const &lo, P<1> const &hi, F const &f)
{
  for (ll x = lo[0]; x < hi[0]; ++x)
    f(P<1>{x});
}
template <class F>
void for_box(P<2> const &lo, P<2> const &hi, F const &f)
{
  for (ll y = lo[1]; y < hi[1]; ++y)
    for (ll x = lo[0]; x < hi[0]; ++x)
      f(P<2>{x, y});
}
template <class F>
void for_box(P<3> const &lo, P<3> const &hi, F const &f)
{
  for (ll z = lo[2]; z < hi[2]; ++z)
    for (ll y = lo[1]; y < hi[1]; ++y)
      for (ll x = lo[0]; x < hi[0]; ++x)
        f(P<3>{x, y, z});
}
// all positions p with lo <= p < hi (component-wise), x fastest
template <std::size_t N>
std::vector<P<N>> box(P<N> const &lo, P<N> const &hi)
{
  std::vector<P<N>> r;
  for_box(lo, hi, [&r](P<N> const &p) { r.push_back(p); });
  return r;
}
template <std::size_t N>
P<N> all(ll v)
{
  P<N> r;
  r.fill(v);
  return r;
}
template <std::size_t N>
P<N> plus1(P<N> p)
{
  for (ll &c : p)
    ++c;
  return p;
}
template <std::size_t N>
bool inside(P<N> const &p, P<N> const &lo, P<N> const &hi)
{
  for (std::size_t i = 0; i < N; ++i)
    if (p[i] < lo[i] || p[i] >= hi[i])
      return false;
  return true;
}
template <std::size_t N>
std::string show(P<N> const &p)
{
  std::string r = "(";
  for (std::size_t i = 0; i < N; ++i)
    r += (i ? "," : "") + std::to_string(p[i]);
  return r + ")";
}
template <std::size_t N>
std::string show(std::vector<P<N>> const &v, std::size_t max = 8)
{
  std::string r = "[";
  for (std::size_t i = 0; i < v.size() && i < max; ++i)
    r += show(v[i]);
  if (v.size() > max)
    r += "...";
  return r + "](" + std::to_string(v.size()) + ")";
}
template <std::size_t N>
ll enc(P<N> const &p) // for vf::operands: decimal digits of (component + 1)
{
  ll r = 0;
  for (std::size_t i = N; i-- > 0;)
    r = r * 10 + (p[i] % 10 + 11) % 10;
  return r;
}
template <std::size_t N>
std::uint64_t hp(P<N> const &p, std::uint64_t h)
{
  for (ll c : p)
    h = vf::hash_mix(h, static_cast<std::uint64_t>(c));
  return h;
}
// the value a cell at position p carries
template <std::size_t N>
std::uint32_t code(P<N> const &p)
{
  std::uint32_t r = 0x1000000U;
  for (std::size_t i = 0; i < N; ++i)
    r |= (static_cast<std::uint32_t>(p[i] + 1) & 0xffU) << (8U * static_cast<unsigned>(i));
  return r;
}
template <std::size_t N>
std::map<P<N>, std::size_t> index_map(std::vector<P<N>> const &v)
{
  std::map<P<N>, std::size_t> m;
  for (std::size_t i = 0; i < v.size(); ++i)
    m[v[i]] = i;
  return m;
}

struct cell
{
  std::uint32_t code;
  std::uint32_t tag;
  bool operator==(cell const &o) const { return code == o.code && tag == o.tag; }
};
std::string show(cell const &c)
{
  char b[48];
  std::snprintf(b, sizeof b, "{%x,tag=%u}", c.code, c.tag);
  return b;
}
std::string show(std::uint64_t v) { return std::to_string(v); }
std::string show(std::string const &s) { return '"' + s + '"'; }

template <class T>
char const *tn()
{
  if constexpr (std::is_same_v<T, std::uint8_t>)
    return "u8";
  else if constexpr (std::is_same_v<T, std::uint16_t>)
    return "u16";
  else if constexpr (std::is_same_v<T, unsigned>)
    return "u32";
  else if constexpr (std::is_same_v<T, std::size_t>)
    return "u64";
  else if constexpr (std::is_same_v<T, std::int8_t>)
    return "i8";
  else if constexpr (std::is_same_v<T, std::int16_t>)
    return "i16";
  else if constexpr (std::is_same_v<T, int>)
    return "i32";
  else if constexpr (std::is_same_v<T, long>)
    return "i64";
  else
    return "?";
}
template <class ST, std::size_t N>
std::string inst()
{
  return "N=" + std::to_string(N) + "," + tn<ST>();
}

// ------------------------------------------------------------------ conversions model <-> fcppt
template <class ST, std::size_t N>
fg::pos<ST, N> to_pos(P<N> const &a)
{
  return fcppt::math::vector::init<fg::pos<ST, N>>(
      [&a]<fcppt::math::size_type I>(fcppt::math::size_constant<I>) { return static_cast<ST>(a[I]); });
}
template <class ST, std::size_t N>
fg::dim<ST, N> to_dim(P<N> const &a)
{
  return fcppt::math::dim::init<fg::dim<ST, N>>(
      [&a]<fcppt::math::size_type I>(fcppt::math::size_constant<I>) { return static_cast<ST>(a[I]); });
}
template <std::size_t N, class V>
P<N> from_vec(V const &v)
{
  P<N> r;
  for (std::size_t i = 0; i < N; ++i)
  {
    using T = std::remove_cvref_t<decltype(v.get_unsafe(i))>;
    // narrow unsigned values keep their value (255 stays 255); 64-bit values above 2^63 show as negative numbers
    r[i] = static_cast<ll>(static_cast<std::conditional_t<std::is_signed_v<T>, ll, unsigned long long>>(v.get_unsafe(i)));
  }
  return r;
}

// extents run over 0..E; the quantifier of the property is E = 4 (quick covers it completely), thorough adds E = 5
ll E() { return vf::tier<ll>(4, 5); }
std::uint64_t g_item = 0; // enumeration index for the partition filter
bool my_item() { return vf::mine(g_item++); }

// Callbacks handed to the library count their invocations.  A position range inside the library that does not
// terminate (broken end test) would otherwise call them forever; the budget turns that into a classified
// violation ".../runaway" instead of a hang that eats memory.  This is the only try/catch in the harness.
struct runaway_error
{
};
std::size_t g_budget = ~std::size_t{0};
inline void tick()
{
  if (g_budget == 0)
    throw runaway_error{};
  --g_budget;
}
template <class F>
bool guarded(std::string const &key, std::string const &what, std::size_t calls, F const &f)
{
  g_budget = calls + 600;
  try
  {
    f();
    g_budget = ~std::size_t{0};
    return true;
  }
  catch (runaway_error const &)
  {
    g_budget = ~std::size_t{0};
    vf::violation(key + "/runaway", "mismatch",
                  what + ": the callback was invoked more than " + std::to_string(calls + 600) + " times where " + std::to_string(calls) + " cells exist (the iteration inside the library does not terminate)");
    return false;
  }
}
template <std::size_t N>
std::size_t cells(P<N> const &s)
{
  std::size_t n = 0;
  for_box(all<N>(0), s, [&n](P<N> const &) { ++n; });
  return n;
}

void surprise(std::string const &what)
{
  vf::count("observed/surprises");
  vf::observation(what + " (observed only; not judged by C08)");
}

// ------------------------------------------------------------------ judging a visited sequence
// got: what the library range produced; want: model box in row-major order.
template <std::size_t N>
bool judge_visit(
    std::string const &key,
    std::string const &what,
    std::vector<P<N>> const &got,
    std::vector<P<N>> const &want,
    bool runaway,
    bool order_judged)
{
  if (runaway)
  {
    vf::violation(key + "/runaway", "mismatch",
                  what + " did not reach end() after " + std::to_string(got.size()) + " steps; want=" + show(want) +
                      " got=" + show(got, 12));
    return false;
  }
  if (got == want)
  {
    VF_COUNT("visit/exact-row-major");
    return true;
  }
  std::vector<P<N>> g = got, w = want;
  std::sort(g.begin(), g.end());
  std::sort(w.begin(), w.end());
  if (g == w)
  {
    if (order_judged)
      vf::violation(key + "/order", "mismatch", what + " visits the right positions in the wrong order: got=" + show(got, 12) + " want=" + show(want, 12));
    else
    {
      VF_COUNT("observed/subrange-order-not-row-major");
      surprise(what + " visits a sub-range in an order different from x-fastest");
    }
    return !order_judged;
  }
  std::vector<P<N>> dup, missing, extra;
  for (std::size_t i = 1; i < g.size(); ++i)
    if (g[i] == g[i - 1] && (dup.empty() || dup.back() != g[i]))
      dup.push_back(g[i]);
  g.erase(std::unique(g.begin(), g.end()), g.end());
  std::set_difference(w.begin(), w.end(), g.begin(), g.end(), std::back_inserter(missing));
  std::set_difference(g.begin(), g.end(), w.begin(), w.end(), std::back_inserter(extra));
  if (!dup.empty())
    vf::violation(key + "/duplicate", "mismatch", what + " visits twice: " + show(dup) + " got=" + show(got, 12));
  if (!missing.empty())
    vf::violation(key + "/missing", "mismatch", what + " never visits: " + show(missing) + " got=" + show(got, 12) + " want=" + show(want, 12));
  if (!extra.empty())
    vf::violation(key + "/extra", "mismatch", what + " visits positions outside the range: " + show(extra) + " got=" + show(got, 12) + " want=" + show(want, 12));
  return false;
}

// fast path: nothing is formatted unless there is something to report
template <std::size_t N, class Key, class What>
bool judge_visit_lazy(std::vector<P<N>> const &got, std::vector<P<N>> const &want, bool runaway, bool order_judged, Key const &key, What const &what)
{
  if (!runaway && got == want)
  {
    VF_COUNT("visit/exact-row-major");
    return true;
  }
  return judge_visit<N>(key(), what(), got, want, runaway, order_judged);
}

template <std::size_t N>
void count_carries(std::vector<P<N>> const &seq)
{
  for (std::size_t i = 1; i < seq.size(); ++i)
  {
    if constexpr (N >= 2)
      if (seq[i][1] != seq[i - 1][1])
        VF_COUNT("carry/into-dim1");
    if constexpr (N >= 3)
      if (seq[i][2] != seq[i - 1][2])
        VF_COUNT("carry/into-dim2");
  }
}

// iterates a library range of positions, with a step cap so that a broken end test cannot run forever
template <std::size_t N, class Range>
std::vector<P<N>> walk(Range const &r, std::size_t expected, bool &runaway)
{
  std::vector<P<N>> got;
  runaway = false;
  auto const e = r.end();
  for (auto it = r.begin(); it != e; ++it)
  {
    if (got.size() > expected + 600)
    {
      runaway = true;
      break;
    }
    got.push_back(from_vec<N>(*it));
  }
  return got;
}

template <std::size_t N>
char const *empty_kind(P<N> const &mn, P<N> const &sp)
{
  bool inv = false, eq = false;
  for (std::size_t i = 0; i < N; ++i)
  {
    inv = inv || mn[i] > sp[i];
    eq = eq || mn[i] == sp[i];
  }
  return inv ? "inverted" : eq ? "equal-component" : "nonempty";
}

// ------------------------------------------------------------------ offset
template <class ST, std::size_t N>
void offset_entry()
{
  std::string const e = "offset/" + inst<ST, N>();
  if (!vf::entry_enabled(e))
    return;
  vf::set_entry(e);
  for (P<N> const &s : box<N>(all<N>(0), all<N>(E() + 1)))
  {
    if (!my_item())
      continue;
    if (!vf::begin_case("size=%s all in-range positions; margin [-1,%lld] observed", show(s).c_str(), E() + 1))
      continue;
    vf::sample_case(1);
    std::vector<P<N>> const ps = box<N>(all<N>(0), s);
    auto const dim = to_dim<ST, N>(s);
    // content = number of in-range positions
    {
      ST const c = fcppt::math::dim::contents(dim);
      if (static_cast<unsigned long long>(c) != ps.size())
        vf::violation("contents/" + inst<ST, N>() + "/value", "mismatch",
                      "contents(" + show(s) + ") got=" + std::to_string(static_cast<unsigned long long>(c)) + " want=" + std::to_string(ps.size()));
    }
    if (ps.empty())
    {
      VF_COUNT("offset/size-with-zero-extent");
    }
    else
    {
      vf::note_distinct(hp(s, vf::hash_str(e)));
      vf::add_evals(ps.size() - 1);
    }
    std::vector<char> seen(ps.size(), 0);
    for (std::size_t k = 0; k < ps.size(); ++k)
    {
      vf::operands(enc(ps[k]), static_cast<ll>(k));
      unsigned long long const off = static_cast<unsigned long long>(fg::offset(to_pos<ST, N>(ps[k]), dim));
      VF_COUNT("offset/in-range-evaluated");
      std::string const d = "offset(pos=" + show(ps[k]) + ", size=" + show(s) + ") got=" + std::to_string(off);
      if (off >= ps.size())
        vf::violation(e + "/outside-[0,content)", "mismatch", d + " content=" + std::to_string(ps.size()));
      else
      {
        if (seen[off])
          vf::violation(e + "/not-injective", "mismatch", d + " already taken by another position");
        seen[off] = 1;
      }
      if (off != k)
        vf::violation(e + "/not-row-major", "mismatch", d + " want=" + std::to_string(k));
    }
    // observed: positions around the grid (unsigned wrap of -1): only sanitizer silence
    for_box(all<N>(-1), all<N>(E() + 2), [&](P<N> const &p) {
      if (inside(p, all<N>(0), s))
        return;
      ST const o = fg::offset(to_pos<ST, N>(p), dim);
      (void)o;
      VF_COUNT("observed/offset/out-of-range-calls");
      bool const in = fg::in_range_dim(dim, to_pos<ST, N>(p));
      if (in)
        surprise("in_range_dim<" + inst<ST, N>() + "> true for out-of-range pos=" + show(p) + " size=" + show(s));
    });
    for (P<N> const &p : ps)
      if (!fg::in_range_dim(dim, to_pos<ST, N>(p)))
        surprise("in_range_dim<" + inst<ST, N>() + "> false for in-range pos=" + show(p) + " size=" + show(s));
  }
}

// ------------------------------------------------------------------ pos_range (no grid involved)
template <class ST, std::size_t N>
void observe_helpers(P<N> const &mn, P<N> const &sp, std::vector<P<N>> const &want)
{
  fg::min<ST, N> const lmin{to_pos<ST, N>(mn)};
  fg::sup<ST, N> const lsup{to_pos<ST, N>(sp)};
  VF_COUNT("observed/helpers/calls");
  auto const ctx = [&] { return "<" + inst<ST, N>() + "> min=" + show(mn) + " sup=" + show(sp); };
  if (fg::min_less_sup(lmin, lsup) != !want.empty())
    surprise("min_less_sup" + ctx() + " disagrees with component-wise min < sup");
  if constexpr (sizeof(ST) >= sizeof(int))
  {
    if (static_cast<unsigned long long>(fg::range_size(lmin, lsup)) != want.size())
      surprise("range_size" + ctx() + " differs from the number of positions in the box");

    P<N> wd;
    for (std::size_t i = 0; i < N; ++i)
      wd[i] = want.empty() ? 0 : sp[i] - mn[i];
    if (from_vec<N>(fg::range_dim(lmin, lsup)) != wd)
      surprise("range_dim" + ctx() + " differs from sup-min (or null for an empty range)");
  }
  P<N> const endp = from_vec<N>(fg::end_position(lmin, lsup));
  if (std::find(want.begin(), want.end(), endp) != want.end())
    surprise("end_position" + ctx() + " is a position of the range itself");
  for (std::size_t i = 0; i + 1 < want.size(); ++i)
    if (from_vec<N>(fg::next_position(to_pos<ST, N>(want[i]), lmin, lsup)) != want[i + 1])
    {
      surprise("next_position" + ctx() + " after " + show(want[i]) + " is not the x-fastest successor");
      break;
    }
  if (!want.empty() && from_vec<N>(fg::next_position(to_pos<ST, N>(want.back()), lmin, lsup)) != endp)
    surprise("next_position" + ctx() + " after the last position is not end_position");
}

template <class ST, std::size_t N>
void pos_range_entry()
{
  std::string const e = "pos_range/" + inst<ST, N>();
  if (!vf::entry_enabled(e))
    return;
  vf::set_entry(e);
  ll const M = E() + 1;
  std::vector<P<N>> const corners = box<N>(all<N>(0), all<N>(M + 1));
  for (P<N> const &mn : corners)
  {
    if (!my_item())
      continue;
    if (!vf::begin_case("min=%s sup=every point of [0,%lld]^%zu", show(mn).c_str(), M, N))
      continue;
    vf::sample_case(1);
    vf::note_distinct(hp(mn, vf::hash_str(e)));
    vf::add_evals(corners.size() - 1);
    for (P<N> const &sp : corners)
    {
      vf::operands(enc(mn), enc(sp));
      std::vector<P<N>> const want = box<N>(mn, sp);
      char const *const kind = empty_kind(mn, sp);
      if (kind[0] == 'n')
        VF_COUNT("range/nonempty");
      else if (kind[0] == 'i')
        VF_COUNT("range/inverted");
      else
        VF_COUNT("range/equal-component");
      auto const r = fg::make_pos_range_start_end(fg::min<ST, N>{to_pos<ST, N>(mn)}, fg::sup<ST, N>{to_pos<ST, N>(sp)});
      bool runaway = false;
      std::vector<P<N>> const got = walk<N>(r, want.size(), runaway);
      auto const what = [&] { return "pos_range<" + inst<ST, N>() + ">(min=" + show(mn) + ",sup=" + show(sp) + ")"; };
      auto const key = [&] { return e + "/" + kind; };
      if (judge_visit_lazy<N>(got, want, runaway, false, key, what))
        count_carries<N>(got);
      if constexpr (sizeof(ST) >= sizeof(int)) // size() of narrower types does not compile (promotion in range_dim)
        if (!runaway && static_cast<unsigned long long>(r.size()) != got.size())
          vf::violation(key() + "/size", "mismatch",
                        what() + ".size() got=" + std::to_string(static_cast<unsigned long long>(r.size())) + " visited=" + std::to_string(got.size()) + " box=" + std::to_string(want.size()));
      if (from_vec<N>(r.min().get()) != mn || from_vec<N>(r.sup().get()) != sp)
        surprise(what() + " min()/sup() do not return the constructor arguments");
      observe_helpers<ST, N>(mn, sp, want);
    }
  }
}

// whole-grid position range of a size: order is judged (storage order)
template <class ST, std::size_t N>
void pos_range_whole_entry()
{
  std::string const e = "pos_range_whole/" + inst<ST, N>();
  if (!vf::entry_enabled(e))
    return;
  vf::set_entry(e);
  for (P<N> const &s : box<N>(all<N>(0), all<N>(E() + 1)))
  {
    if (!my_item())
      continue;
    if (!vf::begin_case("make_pos_range(size=%s)", show(s).c_str()))
      continue;
    vf::sample_case(1);
    std::vector<P<N>> const want = box<N>(all<N>(0), s);
    if (want.empty())
      VF_COUNT("range/whole/zero-extent");
    else
    {
      VF_COUNT("range/whole/nonempty");
      vf::note_distinct(hp(s, vf::hash_str(e)));
    }
    auto const r = fg::make_pos_range(to_dim<ST, N>(s));
    bool runaway = false;
    std::vector<P<N>> const got = walk<N>(r, want.size(), runaway);
    std::string const what = "make_pos_range<" + inst<ST, N>() + ">(size=" + show(s) + ")";
    std::string const key = e + (want.empty() ? "/zero-extent" : "/nonempty");
    if (judge_visit<N>(key, what, got, want, runaway, true))
      count_carries<N>(got);
    if constexpr (sizeof(ST) >= sizeof(int))
      if (!runaway && static_cast<unsigned long long>(r.size()) != got.size())
        vf::violation(key + "/size", "mismatch",
                      what + ".size() got=" + std::to_string(static_cast<unsigned long long>(r.size())) + " visited=" + std::to_string(got.size()));
    // the iterators of a range are positions in its sequence: two of them are equal exactly when they were advanced
    // equally far (a saved iterator as a loop sentinel, std::distance between two of them) - not only against end()
    if (!runaway && want.size() <= 40)
    {
      std::vector<decltype(r.begin())> its;
      for (auto it = r.begin(); it != r.end() && its.size() <= want.size(); ++it)
        its.push_back(it);
      its.push_back(r.end());
      bool reported = false;
      for (std::size_t i = 0; i < its.size() && !reported; ++i)
        for (std::size_t j = 0; j < its.size() && !reported; ++j)
        {
          VF_COUNT("range/iterator-comparisons");
          if ((its[i] == its[j]) != (i == j) || (its[i] != its[j]) == (i == j))
          {
            vf::violation(key + "/iterator-equality", "mismatch",
                          what + ": the iterators after " + std::to_string(i) + " and after " + std::to_string(j) + " steps compare " + ((its[i] == its[j]) ? "equal" : "unequal"));
            reported = true;
          }
        }
    }
  }
}

// ------------------------------------------------------------------ checking a result grid cell by cell
// Reads the grid through its storage iterators (k-th stored element <-> k-th position of the model
// enumeration) and through at_optional; both must show the documented value.
template <std::size_t N, class Grid, class Want>
bool check_grid(std::string const &key, std::string const &what, Grid const &g, P<N> const &size, Want const &want_value)
{
  bool ok = true;
  if (from_vec<N>(g.size()) != size)
  {
    vf::violation(key + "/size", "mismatch", what + " result size got=" + show(from_vec<N>(g.size())) + " want=" + show(size));
    return false;
  }
  std::vector<P<N>> const ps = box<N>(all<N>(0), size);
  if (static_cast<std::size_t>(std::distance(g.begin(), g.end())) != ps.size() || g.content() != ps.size() ||
      g.empty() != ps.empty())
  {
    vf::violation(key + "/content", "mismatch",
                  what + " size=" + show(size) + " stored=" + std::to_string(std::distance(g.begin(), g.end())) +
                      " content()=" + std::to_string(g.content()) + " empty()=" + std::to_string(g.empty()) + " want=" + std::to_string(ps.size()));
    return false;
  }
  auto it = g.begin();
  for (std::size_t k = 0; k < ps.size(); ++k, ++it)
  {
    auto const w = want_value(ps[k]);
    if (!(*it == w))
    {
      if (ok)
        vf::violation(key + "/cell", "mismatch", what + " cell " + show(ps[k]) + " (storage index " + std::to_string(k) + ") got=" + show(*it) + " want=" + show(w));
      ok = false;
    }
    auto const o = fg::at_optional(g, to_pos<std::size_t, N>(ps[k]));
    if (!o.has_value())
    {
      if (ok)
        vf::violation(key + "/cell-absent", "mismatch", what + " at_optional(" + show(ps[k]) + ") is empty inside size " + show(size));
      ok = false;
    }
    else if (!(o.get_unsafe().get() == w))
    {
      if (ok)
        vf::violation(key + "/cell-by-position", "mismatch", what + " at_optional(" + show(ps[k]) + ") got=" + show(o.get_unsafe().get()) + " want=" + show(w));
      ok = false;
    }
  }
  return ok;
}

constexpr std::uint32_t tag_a = 1, tag_b = 2, tag_init = 3, tag_fill = 4;

template <std::size_t N>
fcppt::optional::object<fg::object<cell, N>> make_grid(P<N> const &s, std::uint32_t tag)
{
  using G = fg::object<cell, N>;
  G g;
  if (!guarded("object/N=" + std::to_string(N) + "/ctor-function", "object(size=" + show(s) + ", function)", cells(s), [&] {
        g = G(to_dim<std::size_t, N>(s), [tag](typename G::pos const &p) {
          tick();
          return cell{code<N>(from_vec<N>(p)), tag};
        });
      }))
    return fcppt::optional::object<G>{};
  return fcppt::optional::object<G>{std::move(g)};
}

// ------------------------------------------------------------------ object: construction, storage order, at_optional
// swap (member and free function) and the assignments between grids of DIFFERENT sizes: afterwards each grid is, cell
// by cell and in its size, what the other one was (offsets, at_optional and the position range are then judged on it)
template <std::size_t N>
void swap_assign_entry()
{
  std::string const e = "swap-assign/N=" + std::to_string(N);
  if (!vf::entry_enabled(e))
    return;
  vf::set_entry(e);
  using G = fg::object<cell, N>;
  std::vector<P<N>> const sizes = box<N>(all<N>(0), all<N>(3));
  for (P<N> const &s1 : sizes)
  {
    if (!my_item())
      continue;
    if (!vf::begin_case("size %s against every size with extents in [0,2]", show(s1).c_str()))
      continue;
    vf::note_distinct(hp(s1, vf::hash_str(e)));
    for (P<N> const &s2 : sizes)
    {
      vf::operands(enc(s1), enc(s2));
      vf::add_evals(1);
      auto const fa = [](P<N> const &p) { return cell{code<N>(p), tag_a}; };
      auto const fb = [](P<N> const &p) { return cell{code<N>(p) ^ 0x2aaU, tag_b}; };
      for (int how = 0; how < 4; ++how)
      {
        auto oa = make_grid<N>(s1, tag_a);
        if (!oa.has_value())
          continue;
        G a = std::move(oa.get_unsafe());
        G b(to_dim<std::size_t, N>(s2), [&fb](typename G::pos const &p) { return fb(from_vec<N>(p)); });
        char const *what = "";
        switch (how)
        {
        case 0:
          what = "a.swap(b)";
          a.swap(b);
          break;
        case 1:
        {
          what = "swap(a, b)";
          using std::swap;
          swap(a, b);
          break;
        }
        case 2:
          what = "copy assignment a = b";
          a = std::as_const(b);
          break;
        default:
          what = "move assignment a = std::move(b), then b = a";
          a = std::move(b);
          b = std::as_const(a);
          {
            // a grid move-assigned to ITSELF (what v[w++] = std::move(v[r]) does while w == r) is what it was
            G &self = a;
            a = std::move(self);
            VF_COUNT("grid/self-move-assign");
          }
          break;
        }
        std::string const w = std::string(what) + " with sizes " + show(s1) + " and " + show(s2);
        if (how < 2)
        {
          check_grid<N>(e + "/swap/first", w, a, s2, fb);
          check_grid<N>(e + "/swap/second", w, b, s1, fa);
          VF_COUNT("grid/swap");
        }
        else
        {
          check_grid<N>(e + "/assign/target", w, a, s2, fb);
          check_grid<N>(e + "/assign/source", w, b, s2, fb);
          VF_COUNT("grid/assign");
        }
      }
    }
  }
}

// A cell whose copy construction / copy assignment throws when an armed countdown reaches zero: an assignment between
// grids that is interrupted by an exception leaves SOME grid behind - and that grid is still a grid: its content() is
// the product of its size and the number of cells it stores, every in-range position has a cell (at_optional), every
// other position has none.  (Which values it holds is not judged: the assignment did not complete.)
struct copy_fault
{
};
long g_copy_countdown = -1; // < 0: not armed
struct fcell
{
  std::uint32_t code = 0;
  fcell() = default;
  explicit fcell(std::uint32_t c) : code(c) {}
  fcell(fcell const &o) : code(o.code) { maybe_throw(); }
  fcell(fcell &&o) noexcept : code(o.code) {}
  fcell &operator=(fcell const &o)
  {
    maybe_throw();
    code = o.code;
    return *this;
  }
  fcell &operator=(fcell &&o) noexcept
  {
    code = o.code;
    return *this;
  }
  ~fcell() = default;
  static void maybe_throw()
  {
    if (g_copy_countdown == 0)
    {
      g_copy_countdown = -1;
      throw copy_fault{};
    }
    if (g_copy_countdown > 0)
      --g_copy_countdown;
  }
};

template <std::size_t N>
void interrupted_assign_entry()
{
  std::string const e = "interrupted-assign/N=" + std::to_string(N);
  if (!vf::entry_enabled(e))
    return;
  vf::set_entry(e);
  using G = fg::object<fcell, N>;
  std::vector<P<N>> const sizes = box<N>(all<N>(0), all<N>(3));
  for (P<N> const &s1 : sizes)
  {
    if (!my_item())
      continue;
    if (!vf::begin_case("target size %s, every source size with extents in [0,2], a cell copy throws at every point", show(s1).c_str()))
      continue;
    vf::note_distinct(hp(s1, vf::hash_str(e)));
    for (P<N> const &s2 : sizes)
    {
      std::size_t const n2 = cells(s2);
      for (std::size_t k = 0; k < n2; ++k)
      {
        vf::operands(enc(s1), enc(s2), static_cast<long long>(k));
        vf::add_evals(1);
        G a(to_dim<std::size_t, N>(s1), [](typename G::pos const &p) { return fcell(code<N>(from_vec<N>(p))); });
        G const b(to_dim<std::size_t, N>(s2), [](typename G::pos const &p) { return fcell(code<N>(from_vec<N>(p)) ^ 0x2aaU); });
        bool thrown = false;
        g_copy_countdown = static_cast<long>(k);
        try
        {
          a = b;
        }
        catch (copy_fault const &)
        {
          thrown = true;
        }
        g_copy_countdown = -1;
        if (thrown)
          VF_COUNT("grid/assign-interrupted-by-exception");
        else
          VF_COUNT("grid/assign-not-interrupted");
        std::string const w = "copy assignment " + show(s1) + " <- " + show(s2) + " interrupted at cell copy " + std::to_string(k);
        P<N> const sz = from_vec<N>(a.size());
        std::size_t const want = cells(sz);
        std::size_t const stored = static_cast<std::size_t>(std::distance(a.begin(), a.end()));
        if (stored != want || a.content() != want || a.empty() != (want == 0))
        {
          vf::violation(e + "/size-disagrees-with-stored-cells", "mismatch",
                        w + ": size()=" + show(sz) + " (" + std::to_string(want) + " cells), stored=" + std::to_string(stored) + " content()=" + std::to_string(a.content()));
          continue;
        }
        // every in-range position yields a stored cell (the reference is dereferenced: ASan judges the address)
        std::uint64_t sum = 0;
        for (P<N> const &p : box<N>(all<N>(0), sz))
        {
          auto const o = fg::at_optional(a, to_pos<std::size_t, N>(p));
          if (!o.has_value())
          {
            vf::violation(e + "/cell-absent", "mismatch", w + ": at_optional(" + show(p) + ") is empty inside size " + show(sz));
            break;
          }
          sum += o.get_unsafe().get().code;
        }
        (void)sum;
        if (!thrown)
        {
          // not interrupted (the copy count of this path is below k): then it is b
          auto bi = b.begin();
          bool same = from_vec<N>(a.size()) == s2;
          for (auto ai = a.begin(); same && ai != a.end(); ++ai, ++bi)
            same = ai->code == bi->code;
          if (!same)
            vf::violation(e + "/completed-assignment-differs", "mismatch", w);
        }
      }
    }
  }
}

template <std::size_t N>
void object_entry()
{
  swap_assign_entry<N>();
  interrupted_assign_entry<N>();
  std::string const e = "object/N=" + std::to_string(N);
  if (!vf::entry_enabled(e))
    return;
  vf::set_entry(e);
  using G = fg::object<cell, N>;
  for (P<N> const &s : box<N>(all<N>(0), all<N>(E() + 1)))
  {
    if (!my_item())
      continue;
    if (!vf::begin_case("size=%s ctor(function), ctor(value), at_optional over [-1,%lld]^%zu (mutable and const)", show(s).c_str(), E() + 1, N))
      continue;
    vf::sample_case(1);
    vf::note_distinct(hp(s, vf::hash_str(e)));
    std::vector<P<N>> const ps = box<N>(all<N>(0), s);
    if (ps.empty())
      VF_COUNT("object/zero-extent");
    else
      VF_COUNT("object/nonempty");
    std::vector<P<N>> calls;
    G g;
    if (!guarded(e + "/ctor-function", "object(size=" + show(s) + ", function)", ps.size(), [&] {
          g = G(to_dim<std::size_t, N>(s), [&calls](typename G::pos const &p) {
            tick();
            calls.push_back(from_vec<N>(p));
            return cell{code<N>(from_vec<N>(p)), tag_a};
          });
        }))
      continue;
    // "Calls function for every position in the grid" - set and multiplicity judged, order observed
    judge_visit<N>(e + "/ctor-function-calls", "object<N=" + std::to_string(N) + ">(size=" + show(s) + ", function)", calls, ps, false, false);
    check_grid<N>(e + "/ctor-function", "object(size, function)", g, s, [](P<N> const &p) { return cell{code<N>(p), tag_a}; });
    {
      G const v(to_dim<std::size_t, N>(s), cell{7U, tag_b});
      check_grid<N>(e + "/ctor-value", "object(size, value)", v, s, [](P<N> const &) { return cell{7U, tag_b}; });
    }
    G const &cg = g;
    cell *const base = ps.empty() ? nullptr : &*g.begin();
    std::map<P<N>, std::size_t> const index = index_map<N>(ps);
    for_box(all<N>(-1), all<N>(E() + 2), [&](P<N> const &p) {
      vf::operands(enc(p));
      vf::add_evals(2);
      bool const want = inside(p, all<N>(0), s);
      bool wrapped = false, x_in = p[0] >= 0 && p[0] < s[0];
      for (ll c : p)
        wrapped = wrapped || c < 0;
      if (want)
        VF_COUNT("at_optional/present");
      else if (wrapped)
        VF_COUNT("at_optional/absent-wrapped-negative");
      else
        VF_COUNT("at_optional/absent-beyond");
      if (!want && x_in && N > 1)
        VF_COUNT("at_optional/absent-although-x-in-range");
      auto const lp = to_pos<std::size_t, N>(p);
      std::string const d = "at_optional(size=" + show(s) + ", pos=" + show(p) + ")";
      auto const om = fg::at_optional(g, lp);
      auto const oc = fg::at_optional(cg, lp);
      for (int c = 0; c < 2; ++c)
      {
        bool const has = c ? oc.has_value() : om.has_value();
        std::string const k = e + (c ? "/at_optional-const" : "/at_optional");
        if (has && !want)
          vf::violation(k + "/present-out-of-range", "mismatch", d + " yields an element");
        else if (!has && want)
          vf::violation(k + "/absent-in-range", "mismatch", d + " yields nothing");
        else if (has)
        {
          cell const *const a = c ? &oc.get_unsafe().get() : &om.get_unsafe().get();
          if (a != base + index.at(p))
            vf::violation(k + "/wrong-element", "mismatch",
                          d + " refers to storage index " + std::to_string(a - base) + " want=" + std::to_string(index.at(p)));
          else if (!(*a == cell{code<N>(p), tag_a}))
            vf::violation(k + "/wrong-value", "mismatch", d + " got=" + show(*a) + " want=" + show(cell{code<N>(p), tag_a}));
        }
      }
      if (fg::in_range(cg, lp) != want)
        surprise("in_range(size=" + show(s) + ", pos=" + show(p) + ") disagrees with component-wise pos < size");
    });
  }
}

// ------------------------------------------------------------------ pos_ref_range
// One in-grid (min,sup) on a grid: positions visited, cells referenced, (mutable) writes land where they should.
template <std::size_t N>
void ref_range_one(
    std::string const &e,
    fg::object<cell, N> &g,
    P<N> const &s,
    std::vector<P<N>> const &ps,
    std::map<P<N>, std::size_t> const &index,
    P<N> const &mn,
    P<N> const &sp,
    std::uint32_t stamp)
{
  using G = fg::object<cell, N>;
  std::vector<P<N>> const want = box<N>(mn, sp);
  char const *const kind = empty_kind(mn, sp);
  if (kind[0] == 'n')
    VF_COUNT("ref_range/nonempty");
  else if (kind[0] == 'i')
    VF_COUNT("ref_range/inverted");
  else
    VF_COUNT("ref_range/equal-component");
  fg::min<std::size_t, N> const lmin{to_pos<std::size_t, N>(mn)};
  fg::sup<std::size_t, N> const lsup{to_pos<std::size_t, N>(sp)};
  cell *const base = ps.empty() ? nullptr : &*g.begin();
  for (int c = 0; c < 2; ++c)
  {
    auto const key = [&] { return e + (c ? "/const/" : "/mutable/") + kind; };
    auto const what = [&] { return std::string(c ? "pos_ref_crange" : "pos_ref_range") + "(size=" + show(s) + ",min=" + show(mn) + ",sup=" + show(sp) + ")"; };
    std::vector<P<N>> got;
    bool runaway = false, bad_cell = false;
    auto visit = [&](auto const &range) {
      auto const end = range.end();
      for (auto it = range.begin(); it != end; ++it)
      {
        if (got.size() > want.size() + 600)
        {
          runaway = true;
          break;
        }
        auto const ref = *it;
        P<N> const p = from_vec<N>(ref.pos());
        got.push_back(p);
        auto const f = index.find(p);
        if (f == index.end())
          continue; // outside the grid: reported as "extra" below; the reference is not touched
        cell const *const a = &ref.value();
        if (a != base + f->second)
        {
          if (!bad_cell)
            vf::violation(key() + "/wrong-cell", "mismatch",
                          what() + " at pos " + show(p) + " refers to storage index " + std::to_string(a - base) + " want=" + std::to_string(f->second));
          bad_cell = true;
        }
        else if (a->code != code<N>(p))
        {
          if (!bad_cell)
            vf::violation(key() + "/wrong-value", "mismatch", what() + " at pos " + show(p) + " got=" + show(*a));
          bad_cell = true;
        }
        if constexpr (!std::is_const_v<std::remove_reference_t<decltype(ref.value())>>)
          ref.value().tag = stamp;
      }
      if (!runaway && static_cast<unsigned long long>(range.size()) != got.size())
        vf::violation(key() + "/size", "mismatch",
                      what() + ".size() got=" + std::to_string(static_cast<unsigned long long>(range.size())) + " visited=" + std::to_string(got.size()));
    };
    if (c == 0)
      visit(fg::make_pos_ref_range_start_end(g, lmin, lsup));
    else
      visit(fg::make_pos_ref_crange_start_end(static_cast<G const &>(g), lmin, lsup));
    if (judge_visit_lazy<N>(got, want, runaway, false, key, what))
      count_carries<N>(got);
    if (c == 0)
    {
      // writes through the references: exactly the cells of the box carry the stamp now
      auto it = g.begin();
      for (std::size_t k = 0; k < ps.size(); ++k, ++it)
      {
        bool const in = inside(ps[k], mn, sp);
        if ((it->tag == stamp) != in)
        {
          vf::violation(key() + "/write-misplaced", "mismatch",
                        what() + " cell " + show(ps[k]) + (in ? " was not written" : " was written although outside the range"));
          break;
        }
      }
    }
  }
}

// A range object that outlives a change of its grid's size: the range refers to the grid, so what it pairs with a
// position is the grid's CURRENT cell at that position (as long as the range still lies inside the grid).
template <std::size_t N>
void ref_range_after_reassign()
{
  std::string const e = "pos_ref_range-after-reassign/N=" + std::to_string(N);
  if (!vf::entry_enabled(e))
    return;
  vf::set_entry(e);
  using G = fg::object<cell, N>;
  for (P<N> const &s1 : box<N>(all<N>(1), all<N>(4)))
    for (P<N> const &grow : box<N>(all<N>(0), all<N>(3)))
    {
      if (!my_item())
        continue;
      P<N> s2 = s1;
      bool differs = false;
      for (std::size_t i = 0; i < N; ++i)
      {
        s2[i] += grow[i];
        differs = differs || grow[i] != 0;
      }
      if (!differs)
        continue;
      if (!vf::begin_case("size %s, ranges made, grid assigned size %s, ranges iterated", show(s1).c_str(), show(s2).c_str()))
        continue;
      vf::note_distinct(hp(s1, hp(s2, vf::hash_str(e))));
      auto og = make_grid<N>(s1, tag_a);
      auto og2 = make_grid<N>(s2, tag_a);
      if (!og.has_value() || !og2.has_value())
        continue;
      G &g = og.get_unsafe();
      fg::min<std::size_t, N> const lmin{to_pos<std::size_t, N>(all<N>(0))};
      fg::sup<std::size_t, N> const lsup{to_pos<std::size_t, N>(s1)};
      auto const whole = fg::make_pos_ref_range(g);
      auto const sub = fg::make_pos_ref_range_start_end(g, lmin, lsup);
      auto const csub = fg::make_pos_ref_crange_start_end(static_cast<G const &>(g), lmin, lsup);
      g = std::move(og2.get_unsafe());
      auto judge = [&](auto const &range, char const *which, bool whole_grid) {
        std::size_t n = 0;
        for (auto it = range.begin(); it != range.end() && n < 2000; ++it, ++n)
        {
          auto const ref = *it;
          P<N> const p = from_vec<N>(ref.pos());
          bool inside_new = true;
          for (std::size_t i = 0; i < N; ++i)
            inside_new = inside_new && p[i] >= 0 && p[i] < s2[i];
          if (!inside_new)
          {
            vf::violation(e + "/" + which + "/position-outside-grid", "mismatch", "position " + show(p));
            return;
          }
          cell const *const want = &g.get_unsafe(to_pos<std::size_t, N>(p));
          if (&ref.value() != want || ref.value().code != code<N>(p))
          {
            vf::violation(e + "/" + which + "/stale-cell", "mismatch",
                          "after the grid was assigned size " + show(s2) + " the range made for size " + show(s1) + " pairs position " + show(p) + " with another cell");
            return;
          }
        }
        (void)whole_grid;
        VF_COUNT("ref_range/iterated-after-grid-reassigned");
      };
      vf::add_evals(2);
      judge(sub, "start_end", false);
      judge(csub, "const_start_end", false);
      judge(whole, "whole", true);
    }
}

template <std::size_t N>
void pos_ref_range_entry()
{
  ref_range_after_reassign<N>();
  std::string const e = "pos_ref_range/N=" + std::to_string(N);
  if (!vf::entry_enabled(e))
    return;
  vf::set_entry(e);
  using G = fg::object<cell, N>;
  for (P<N> const &s : box<N>(all<N>(0), all<N>(E() + 1)))
  {
    std::vector<P<N>> const ps = box<N>(all<N>(0), s);
    std::map<P<N>, std::size_t> const index = index_map<N>(ps);
    P<N> s1 = s;
    for (ll &c : s1)
      ++c;
    // one case per (size, min); sup runs over every in-grid corner
    for (P<N> const &mn : box<N>(all<N>(0), s1))
    {
      if (!my_item())
        continue;
      if (!vf::begin_case("size=%s min=%s sup=every point of [0,size]", show(s).c_str(), show(mn).c_str()))
        continue;
      vf::sample_case(1);
      vf::note_distinct(hp(mn, hp(s, vf::hash_str(e))));
      auto og = make_grid<N>(s, tag_a);
      if (!og.has_value())
        continue;
      G &g = og.get_unsafe();
      std::uint32_t stamp = 100;
      for_box(all<N>(0), s1, [&](P<N> const &sp) {
        vf::operands(enc(mn), enc(sp));
        vf::add_evals(2);
        ref_range_one<N>(e, g, s, ps, index, mn, sp, ++stamp);
      });
    }
    // whole grid: make_pos_ref_range / make_pos_ref_crange, order judged (storage order)
    if (!my_item())
      continue;
    if (!vf::begin_case("size=%s make_pos_ref_range / make_pos_ref_crange of the whole grid", show(s).c_str()))
      continue;
    auto og = make_grid<N>(s, tag_a);
    if (!og.has_value())
      continue;
    G &g = og.get_unsafe();
    cell *const base = ps.empty() ? nullptr : &*g.begin();
    for (int c = 0; c < 2; ++c)
    {
      std::string const key = e + (c ? "/whole-const" : "/whole-mutable");
      std::string const what = std::string(c ? "make_pos_ref_crange" : "make_pos_ref_range") + "(size=" + show(s) + ")";
      std::vector<P<N>> got;
      bool runaway = false;
      auto visit = [&](auto const &range) {
        auto const end = range.end();
        for (auto it = range.begin(); it != end; ++it)
        {
          if (got.size() > ps.size() + 600)
          {
            runaway = true;
            break;
          }
          auto const ref = *it;
          P<N> const p = from_vec<N>(ref.pos());
          got.push_back(p);
          auto const f = index.find(p);
          if (f != index.end() && &ref.value() != base + f->second)
            vf::violation(key + "/wrong-cell", "mismatch", what + " at pos " + show(p) + " refers to storage index " + std::to_string(&ref.value() - base));
        }
        if (!runaway && static_cast<unsigned long long>(range.size()) != got.size())
          vf::violation(key + "/size", "mismatch", what + ".size() got=" + std::to_string(static_cast<unsigned long long>(range.size())) + " visited=" + std::to_string(got.size()));
      };
      if (c == 0)
        visit(fg::make_pos_ref_range(g));
      else
        visit(fg::make_pos_ref_crange(g));
      judge_visit<N>(key, what, got, ps, runaway, true);
      vf::count(ps.empty() ? "ref_range/whole/zero-extent" : "ref_range/whole/nonempty");
    }
  }
}

// ------------------------------------------------------------------ clamp helpers
template <class T>
std::vector<ll> lattice()
{
  std::vector<ll> r{-2, -1, 0, 1, 2, 3, 4, 5, 6};
  r.push_back(static_cast<ll>(std::numeric_limits<T>::max()));
  r.push_back(static_cast<ll>(std::numeric_limits<T>::max()) - 1);
  if constexpr (std::is_signed_v<T>)
  {
    r.push_back(static_cast<ll>(std::numeric_limits<T>::min()));
    r.push_back(static_cast<ll>(std::numeric_limits<T>::min()) + 1);
  }
  else
  {
    r.erase(r.begin(), r.begin() + 2);
    if (sizeof(T) == 8) // LLONG_MAX-ish values do not fit the model type; use 2^63-1 and 2^63-2
    {
      r.erase(r.end() - 2, r.end());
      r.push_back(std::numeric_limits<ll>::max());
      r.push_back(std::numeric_limits<ll>::max() - 1);
    }
  }
  return r;
}
// every position with components from the lattice (x fastest)
template <std::size_t N>
std::vector<P<N>> lattice_positions(std::vector<ll> const &l)
{
  std::vector<P<N>> r;
  for (P<N> const &ix : box<N>(all<N>(0), all<N>(static_cast<ll>(l.size()))))
  {
    P<N> p;
    for (std::size_t i = 0; i < N; ++i)
      p[i] = l[static_cast<std::size_t>(ix[i])];
    r.push_back(p);
  }
  return r;
}

template <class S, std::size_t N>
void clamp_entry()
{
  using U = std::make_unsigned_t<S>;
  std::string const e = "clamp/" + inst<S, N>();
  if (!vf::entry_enabled(e))
    return;
  vf::set_entry(e);
  std::vector<P<N>> const spos = lattice_positions<N>(lattice<S>());
  std::vector<P<N>> const upos = lattice_positions<N>(lattice<U>());
  // clamped_min: one case
  if (my_item() && vf::begin_case("clamped_min over %zu lattice positions", spos.size()))
  {
    vf::sample_case(1);
    vf::note_distinct(vf::hash_str(e + "/min"));
    vf::add_evals(spos.size() - 1);
    for (P<N> const &p : spos)
    {
      vf::operands(enc(p));
      P<N> w;
      bool neg = false;
      for (std::size_t i = 0; i < N; ++i)
      {
        w[i] = p[i] < 0 ? 0 : p[i];
        neg = neg || p[i] < 0;
      }
      if (neg)
        VF_COUNT("clamped_min/some-negative");
      else
        VF_COUNT("clamped_min/nonnegative");
      P<N> const got = from_vec<N>(fg::clamped_min(to_pos<S, N>(p)).get());
      if (got != w)
        vf::violation("clamped_min/" + inst<S, N>() + "/value", "mismatch", "clamped_min(" + show(p) + ") got=" + show(got) + " want=" + show(w));
    }
  }
  for (P<N> const &s : box<N>(all<N>(0), all<N>(E() + 1)))
  {
    if (!my_item())
      continue;
    if (!vf::begin_case("size=%s clamped_sup over %zu, clamped_sup_signed over %zu lattice positions", show(s).c_str(), upos.size(), spos.size()))
      continue;
    vf::sample_case(1);
    vf::note_distinct(hp(s, vf::hash_str(e)));
    vf::add_evals(upos.size() + spos.size() - 1);
    auto const dim = to_dim<U, N>(s);
    for (P<N> const &p : upos)
    {
      vf::operands(enc(p), 1);
      P<N> w;
      bool cl = false;
      for (std::size_t i = 0; i < N; ++i)
      {
        w[i] = p[i] > s[i] ? s[i] : p[i];
        cl = cl || p[i] > s[i];
      }
      if (cl)
        VF_COUNT("clamped_sup/some-clamped");
      else
        VF_COUNT("clamped_sup/unchanged");
      P<N> const got = from_vec<N>(fg::clamped_sup(to_pos<U, N>(p), dim).get());
      if (got != w)
        vf::violation("clamped_sup/" + inst<U, N>() + "/value", "mismatch", "clamped_sup(" + show(p) + ", size=" + show(s) + ") got=" + show(got) + " want=" + show(w));
    }
    for (P<N> const &p : spos)
    {
      vf::operands(enc(p), 2);
      P<N> w;
      bool lo = false, hi = false;
      for (std::size_t i = 0; i < N; ++i)
      {
        w[i] = p[i] < 0 ? 0 : p[i] > s[i] ? s[i] : p[i];
        lo = lo || p[i] < 0;
        hi = hi || p[i] > s[i];
      }
      if (lo)
        VF_COUNT("clamped_sup_signed/some-negative");
      if (hi)
        VF_COUNT("clamped_sup_signed/some-above-size");
      if (!lo && !hi)
        VF_COUNT("clamped_sup_signed/unchanged");
      P<N> const got = from_vec<N>(fg::clamped_sup_signed(to_pos<S, N>(p), dim).get());
      if (got != w)
        vf::violation("clamped_sup_signed/" + inst<S, N>() + "/value", "mismatch", "clamped_sup_signed(" + show(p) + ", size=" + show(s) + ") got=" + show(got) + " want=" + show(w));
    }
  }
}

// (min,sup) given as signed positions inside and partly outside the grid, brought into the grid with the
// clamp helpers as the documentation shows, then iterated with a const pos ref range.
template <std::size_t N>
struct clamped_ctx
{
  std::string const &e;
  fg::object<cell, N> const &g;
  P<N> const &s;
  std::map<P<N>, std::size_t> const &index;
  cell const *base;
};

template <std::size_t N>
void clamped_range_one(clamped_ctx<N> const &c, P<N> const &a, P<N> const &b)
{
  using G = fg::object<cell, N>;
  P<N> const &s = c.s;
  vf::operands(enc(a), enc(b));
  P<N> mn, sp;
  for (std::size_t i = 0; i < N; ++i)
  {
    mn[i] = a[i] < 0 ? 0 : a[i];
    sp[i] = b[i] < 0 ? 0 : b[i] > s[i] ? s[i] : b[i];
  }
  auto const lmin = fg::clamped_min(to_pos<typename G::difference_type, N>(a));
  auto const lsup = fg::clamped_sup_signed(to_pos<typename G::difference_type, N>(b), c.g.size());
  bool clamp_ok = true;
  if (from_vec<N>(lmin.get()) != mn)
  {
    vf::violation("clamped_min/" + inst<long, N>() + "/value", "mismatch", "clamped_min(" + show(a) + ") got=" + show(from_vec<N>(lmin.get())) + " want=" + show(mn));
    clamp_ok = false;
  }
  if (from_vec<N>(lsup.get()) != sp)
  {
    vf::violation("clamped_sup_signed/" + inst<long, N>() + "/value", "mismatch", "clamped_sup_signed(" + show(b) + ", size=" + show(s) + ") got=" + show(from_vec<N>(lsup.get())) + " want=" + show(sp));
    clamp_ok = false;
  }
  if (!clamp_ok)
    return; // iterating a range that leaves the grid would be the harness's fault
  std::vector<P<N>> const want = box<N>(mn, sp);
  char const *const kind = empty_kind(mn, sp);
  if (kind[0] == 'n')
    VF_COUNT("clamped_range/nonempty");
  else if (kind[0] == 'i')
    VF_COUNT("clamped_range/inverted");
  else
    VF_COUNT("clamped_range/equal-component");
  if (!inside(a, all<N>(0), s) || !inside(b, all<N>(0), plus1(s)))
    VF_COUNT("clamped_range/partly-outside");
  auto const key = [&] { return c.e + "/" + kind; };
  auto const what = [&] {
    return "pos_ref_crange(size=" + show(s) + ",clamped_min" + show(a) + "=" + show(mn) + ",clamped_sup_signed" + show(b) + "=" + show(sp) + ")";
  };
  auto const range = fg::make_pos_ref_crange_start_end(c.g, lmin, lsup);
  std::vector<P<N>> got;
  bool runaway = false;
  auto const end = range.end();
  for (auto it = range.begin(); it != end; ++it)
  {
    if (got.size() > want.size() + 600)
    {
      runaway = true;
      break;
    }
    auto const ref = *it;
    P<N> const p = from_vec<N>(ref.pos());
    got.push_back(p);
    auto const f = c.index.find(p);
    if (f != c.index.end() && &ref.value() != c.base + f->second)
      vf::violation(key() + "/wrong-cell", "mismatch", what() + " at pos " + show(p) + " refers to storage index " + std::to_string(&ref.value() - c.base));
  }
  judge_visit_lazy<N>(got, want, runaway, false, key, what);
  if (!runaway && static_cast<unsigned long long>(range.size()) != got.size())
    vf::violation(key() + "/size", "mismatch", what() + ".size() got=" + std::to_string(static_cast<unsigned long long>(range.size())) + " visited=" + std::to_string(got.size()));
}

template <std::size_t N>
void clamped_range_entry()
{
  std::string const e = "clamped_range/N=" + std::to_string(N);
  if (!vf::entry_enabled(e))
    return;
  vf::set_entry(e);
  using G = fg::object<cell, N>;
  std::vector<P<N>> const margin = box<N>(all<N>(-1), all<N>(E() + 2));
  // N<=2: all pairs of margin positions (also N=3 in the thorough tier); N=3 quick: a seeded sample per size
  bool const exhaustive = N <= 2 || vf::thorough();
  std::uint64_t sidx = 0;
  for (P<N> const &s : box<N>(all<N>(0), all<N>(E() + 1)))
  {
    ++sidx;
    auto const og = make_grid<N>(s, tag_a);
    if (!og.has_value())
      continue;
    G const &g = og.get_unsafe();
    std::vector<P<N>> const ps = box<N>(all<N>(0), s);
    std::map<P<N>, std::size_t> const index = index_map<N>(ps);
    clamped_ctx<N> const ctx{e, g, s, index, ps.empty() ? nullptr : &*g.begin()};
    if (exhaustive)
    {
      for (P<N> const &a : margin)
      {
        if (!my_item())
          continue;
        if (!vf::begin_case("size=%s signed min=%s, signed sup=every point of [-1,%lld]^%zu", show(s).c_str(), show(a).c_str(), E() + 1, N))
          continue;
        vf::sample_case(1);
        vf::add_evals(margin.size() - 1);
        vf::note_distinct(hp(a, hp(s, vf::hash_str(e))));
        for (P<N> const &b : margin)
          clamped_range_one<N>(ctx, a, b);
      }
    }
    else
    {
      if (!my_item())
        continue;
      vf::rng r(vf::seed_for(e, sidx));
      std::size_t const n = 20000;
      if (!vf::begin_case("size=%s %zu seeded signed (min,sup) pairs from [-1,%lld]^%zu rng=seed_for(entry,%llu)", show(s).c_str(), n, E() + 1, N, static_cast<unsigned long long>(sidx)))
        continue;
      vf::sample_case(1);
      vf::add_evals(n - 1);
      std::uint64_t h = hp(s, vf::hash_str(e));
      for (std::size_t i = 0; i < n; ++i)
      {
        P<N> const a = r.pick(margin);
        P<N> const b = r.pick(margin);
        h = hp(b, hp(a, h));
        clamped_range_one<N>(ctx, a, b);
      }
      vf::note_distinct(h);
    }
  }
}

// ------------------------------------------------------------------ fill / map / apply
template <std::size_t N>
std::string code_str(P<N> const &p, char const *prefix)
{
  return prefix + show(p);
}

template <std::size_t N>
void fill_map_apply_entry()
{
  std::string const ns = "N=" + std::to_string(N);
  std::string const e = "fill_map_apply/" + ns;
  if (!vf::entry_enabled(e))
    return;
  vf::set_entry(e);
  using G = fg::object<cell, N>;
  using G64 = fg::object<std::uint64_t, N>;
  using GS = fg::object<std::string, N>;
  std::vector<P<N>> const sizes = box<N>(all<N>(0), all<N>(E() + 1));
  for (std::size_t si = 0; si < sizes.size(); ++si)
  {
    P<N> const &s = sizes[si];
    if (!my_item())
      continue;
    if (!vf::begin_case("size=%s fill, map (lvalue, rvalue), apply with 1-3 grids, apply with unequal sizes", show(s).c_str()))
      continue;
    vf::sample_case(1);
    vf::note_distinct(hp(s, vf::hash_str(e)));
    std::size_t const n = cells(s);
    vf::count(n == 0 ? "fill_map_apply/zero-extent" : "fill_map_apply/nonempty");
    auto const dim = to_dim<std::size_t, N>(s);
    std::string const sz = "size=" + show(s);
    // fill: "Fills a grid using a function" T(pos): every cell holds function(its position)
    {
      G g(dim, cell{0U, tag_b});
      if (guarded("fill/" + ns, "fill(" + sz + ")", n, [&] {
            fg::fill(g, [](typename G::pos const &p) {
              tick();
              return cell{code<N>(from_vec<N>(p)) ^ 0x555U, tag_fill};
            });
          }))
        check_grid<N>("fill/" + ns, "fill(" + sz + ")", g, s, [](P<N> const &p) { return cell{code<N>(p) ^ 0x555U, tag_fill}; });
      vf::add_evals(1);
    }
    // fill assigns CELL BY CELL: a function that reads the grid it is filling sees the cells already assigned in this
    // call (a running number: the cell before it in storage order, plus one), never a snapshot of the old contents
    if (n > 0)
    {
      G64 h(dim, [](typename G64::pos const &) { return std::uint64_t{100000U}; });
      std::uint64_t const *const first_cell = &*h.begin();
      guarded("fill/" + ns, "fill(" + sz + ") with a function reading the grid", n, [&] {
        fg::fill(h, [&h](typename G64::pos const &p) {
          tick();
          auto const off = fg::offset(p, h.size());
          return off == 0 ? std::uint64_t{1} : *(h.begin() + static_cast<std::ptrdiff_t>(off - 1)) + 1U;
        });
      });
      std::uint64_t k = 0;
      bool good = true;
      for (std::uint64_t const v : h)
        good = good && v == ++k;
      if (!good || k != n)
        vf::violation("fill/" + ns + "/function-reading-the-grid", "mismatch",
                      "fill(" + sz + "): a running number computed from the cell before (in storage order) is not 1.." + std::to_string(n));
      if (&*h.begin() != first_cell)
        VF_COUNT("observed/fill/cells-relocated");
      VF_COUNT("fill/function-reading-the-grid");
      vf::add_evals(1);
    }
    auto const og1 = make_grid<N>(s, tag_a);
    if (!og1.has_value())
      continue;
    G const &g1 = og1.get_unsafe();
    G64 g2;
    GS g3;
    if (!guarded("object/" + ns + "/ctor-function", "object(" + sz + ", function)", 2 * n, [&] {
          g2 = G64(dim, [](typename G64::pos const &p) {
            tick();
            return std::uint64_t{1000U} + code<N>(from_vec<N>(p)) * 3U;
          });
          g3 = GS(dim, [](typename GS::pos const &p) {
            tick();
            return code_str<N>(from_vec<N>(p), "s");
          });
        }))
      continue;
    auto v2 = [](P<N> const &p) { return std::uint64_t{1000U} + code<N>(p) * 3U; };
    // map: result[p] = function(source[p]), same size
    {
      G64 r;
      if (guarded("map/" + ns + "/lvalue", "map(" + sz + ")", n, [&] {
            r = fg::map(g1, [](cell const &c) {
              tick();
              return std::uint64_t{c.code} * 7U + c.tag;
            });
          }))
        check_grid<N>("map/" + ns + "/lvalue", "map(" + sz + ")", r, s, [](P<N> const &p) { return std::uint64_t{code<N>(p)} * 7U + tag_a; });
      GS src = g3;
      GS rs;
      if (guarded("map/" + ns + "/rvalue", "map(rvalue, " + sz + ")", n, [&] {
            rs = fg::map(std::move(src), [](std::string &&v) {
              tick();
              return std::string(std::move(v)) + "!";
            });
          }))
        check_grid<N>("map/" + ns + "/rvalue", "map(rvalue, " + sz + ")", rs, s, [](P<N> const &p) { return code_str<N>(p, "s") + "!"; });
      vf::add_evals(2);
    }
    // apply, equal sizes
    {
      G64 r1, r2;
      GS r3;
      if (guarded("apply/" + ns + "/1-grid", "apply(f, g1) " + sz, n, [&] {
            r1 = fg::apply(
                [](cell const &c) {
                  tick();
                  return std::uint64_t{c.code} + 1U;
                },
                g1);
          }))
        check_grid<N>("apply/" + ns + "/1-grid", "apply(f, g1) " + sz, r1, s, [](P<N> const &p) { return std::uint64_t{code<N>(p)} + 1U; });
      if (guarded("apply/" + ns + "/2-grids", "apply(f, g1, g2) " + sz, n, [&] {
            r2 = fg::apply(
                [](cell const &c, std::uint64_t v) {
                  tick();
                  return std::uint64_t{c.code} * 1000003U + v;
                },
                g1, g2);
          }))
        check_grid<N>("apply/" + ns + "/2-grids", "apply(f, g1, g2) " + sz, r2, s, [&v2](P<N> const &p) { return std::uint64_t{code<N>(p)} * 1000003U + v2(p); });
      GS g3m = g3;
      if (guarded("apply/" + ns + "/3-grids", "apply(f, g1, g2, rvalue g3) " + sz, n, [&] {
            r3 = fg::apply(
                [](cell const &c, std::uint64_t v, std::string &&t) {
                  tick();
                  return std::string(std::move(t)) + ":" + std::to_string(c.code) + ":" + std::to_string(v);
                },
                g1, g2, std::move(g3m));
          }))
        check_grid<N>("apply/" + ns + "/3-grids", "apply(f, g1, g2, rvalue g3) " + sz, r3, s, [&v2](P<N> const &p) {
          return code_str<N>(p, "s") + ":" + std::to_string(code<N>(p)) + ":" + std::to_string(v2(p));
        });
      vf::add_evals(3);
      VF_COUNT("apply/equal-sizes");
    }
    // apply, unequal sizes: "If g_1,...g_n are not of the same size, the result is an empty grid."
    {
      std::vector<P<N>> others;
      for (std::size_t i = 0; i < N; ++i)
        for (ll d : {-1, 1})
        {
          P<N> t = s;
          t[i] += d;
          if (t[i] >= 0 && t[i] <= E())
            others.push_back(t);
        }
      {
        P<N> t = s;
        std::reverse(t.begin(), t.end()); // same content, other shape
        others.push_back(t);
        others.push_back(all<N>(0));
        others.push_back(sizes[(si * 7 + 3) % sizes.size()]);
      }
      for (P<N> const &t : others)
      {
        if (t == s)
          continue;
        vf::operands(enc(s), enc(t));
        vf::add_evals(3);
        vf::count(cells(t) == n ? "apply/unequal-sizes-same-content" : "apply/unequal-sizes");
        G64 const o(to_dim<std::size_t, N>(t), std::uint64_t{5});
        std::string const k = "apply/" + ns + "/unequal-sizes";
        std::string const w = "apply(f, g1 " + sz + ", g2 size=" + show(t) + ")";
        // the function must not be called at all; a call could read outside the smaller grid
        bool called = false;
        auto f2 = [&called](cell const &c, std::uint64_t v) {
          called = true;
          tick();
          return std::uint64_t{c.code} + v;
        };
        auto f2r = [&called](std::uint64_t v, cell const &c) {
          called = true;
          tick();
          return std::uint64_t{c.code} + v;
        };
        auto f3 = [&called](cell const &c, std::uint64_t v, std::uint64_t v3) {
          called = true;
          tick();
          return std::uint64_t{c.code} + v + v3;
        };
        G64 r, rr, r3;
        if (guarded(k, w, n, [&] { r = fg::apply(f2, g1, o); }))
          check_grid<N>(k, w, r, all<N>(0), [](P<N> const &) { return std::uint64_t{0}; });
        if (guarded(k, w + " swapped", n, [&] { rr = fg::apply(f2r, o, g1); }))
          check_grid<N>(k, w + " swapped", rr, all<N>(0), [](P<N> const &) { return std::uint64_t{0}; });
        // the odd one out in last position, the first two equal
        if (guarded(k + "/third", w + " third grid differs", n, [&] { r3 = fg::apply(f3, g1, g2, o); }))
          check_grid<N>(k + "/third", w + " third grid differs", r3, all<N>(0), [](P<N> const &) { return std::uint64_t{0}; });
        if (called)
        {
          VF_COUNT("observed/apply/function-called-for-unequal-sizes");
          surprise(w + " calls the function although the sizes differ");
        }
      }
    }
  }
}

// ------------------------------------------------------------------ resize
template <std::size_t N>
void resize_entry()
{
  std::string const e = "resize/N=" + std::to_string(N);
  if (!vf::entry_enabled(e))
    return;
  vf::set_entry(e);
  using G = fg::object<cell, N>;
  using GS = fg::object<std::string, N>;
  std::vector<P<N>> const sizes = box<N>(all<N>(0), all<N>(E() + 1));
  for (std::size_t si = 0; si < sizes.size(); ++si)
  {
    P<N> const &s = sizes[si];
    if (!my_item())
      continue;
    if (!vf::begin_case("old size=%s new size=every size with extents in [0,%lld]", show(s).c_str(), E()))
      continue;
    vf::sample_case(1);
    vf::add_evals(2 * sizes.size() - 1);
    vf::note_distinct(hp(s, vf::hash_str(e)));
    auto const og = make_grid<N>(s, tag_a);
    if (!og.has_value())
      continue;
    G const &g = og.get_unsafe();
    GS gs;
    if (!guarded("object/N=" + std::to_string(N) + "/ctor-function", "object(size=" + show(s) + ", function)", cells(s), [&] {
          gs = GS(to_dim<std::size_t, N>(s), [](typename GS::pos const &p) {
            tick();
            return code_str<N>(from_vec<N>(p), "old");
          });
        }))
      continue;
    for (P<N> const &t : sizes)
    {
      vf::operands(enc(s), enc(t));
      bool grow = false, shrink = false;
      for (std::size_t i = 0; i < N; ++i)
      {
        grow = grow || t[i] > s[i];
        shrink = shrink || t[i] < s[i];
      }
      if (grow && shrink)
        VF_COUNT("resize/mixed");
      else if (grow)
        VF_COUNT("resize/grow");
      else if (shrink)
        VF_COUNT("resize/shrink");
      else
        VF_COUNT("resize/same-size");
      std::size_t kept = 0, fresh = 0;
      for_box(all<N>(0), t, [&](P<N> const &p) { ++(inside(p, all<N>(0), s) ? kept : fresh); });
      static vf::counter c_kept("resize/cells-kept"), c_fresh("resize/cells-init");
      c_kept += kept;
      c_fresh += fresh;
      auto const w = [&] { return "resize(old size=" + show(s) + ", new size=" + show(t) + ")"; };
      std::vector<P<N>> init_calls;
      G r;
      if (guarded(e + "/lvalue", w(), fresh, [&] {
            r = fg::resize(g, to_dim<std::size_t, N>(t), [&init_calls](typename G::pos const &p) {
              tick();
              init_calls.push_back(from_vec<N>(p));
              return cell{code<N>(from_vec<N>(p)), tag_init};
            });
          }))
        check_grid<N>(e + "/lvalue", w(), r, t, [&s](P<N> const &p) { return cell{code<N>(p), inside(p, all<N>(0), s) ? tag_a : tag_init}; });
      for (P<N> const &p : init_calls)
        if (inside(p, all<N>(0), s) && inside(p, all<N>(0), t))
        {
          VF_COUNT("observed/resize/init-called-for-kept-cell");
          surprise(w() + " calls init for a position that exists in the old grid");
          break;
        }
      GS src = gs;
      GS rs;
      if (guarded(e + "/rvalue", w() + " rvalue", fresh, [&] {
            rs = fg::resize(std::move(src), to_dim<std::size_t, N>(t), [](typename GS::pos const &p) {
              tick();
              return code_str<N>(from_vec<N>(p), "new");
            });
          }))
        check_grid<N>(e + "/rvalue", w() + " rvalue", rs, t, [&s](P<N> const &p) { return code_str<N>(p, inside(p, all<N>(0), s) ? "old" : "new"); });
      // a NON-CONST lvalue source of cells whose move is visible: the result is the same and the source keeps its cells
      // (documented: the new grid's shared cells are COPIES of the old grid's cells unless the old grid is an rvalue)
      GS named = gs;
      GS rn;
      if (guarded(e + "/nonconst-lvalue", w() + " non-const lvalue", fresh, [&] {
            rn = fg::resize(named, to_dim<std::size_t, N>(t), [](typename GS::pos const &p) {
              tick();
              return code_str<N>(from_vec<N>(p), "new");
            });
          }))
      {
        check_grid<N>(e + "/nonconst-lvalue", w() + " non-const lvalue", rn, t, [&s](P<N> const &p) { return code_str<N>(p, inside(p, all<N>(0), s) ? "old" : "new"); });
        check_grid<N>(e + "/nonconst-lvalue/source-kept", w() + " source after the call", named, s, [](P<N> const &p) { return code_str<N>(p, "old"); });
        VF_COUNT("resize/nonconst-lvalue-source");
      }
    }
  }
}

template <std::size_t N>
void all_for_n()
{
  offset_entry<unsigned, N>();
  offset_entry<std::size_t, N>();
  offset_entry<std::uint8_t, N>();
  object_entry<N>();
  pos_range_whole_entry<unsigned, N>();
  pos_range_whole_entry<std::size_t, N>();
  pos_range_whole_entry<std::uint8_t, N>();
  pos_range_entry<unsigned, N>();
  pos_range_entry<std::size_t, N>();
  pos_range_entry<std::uint8_t, N>();
  pos_ref_range_entry<N>();
  clamp_entry<int, N>();
  clamp_entry<long, N>();
  clamp_entry<std::int8_t, N>();
  clamped_range_entry<N>();
  fill_map_apply_entry<N>();
  resize_entry<N>();
}

#ifndef VF_SLICE
#define VF_SLICE -2
#endif
#define VF_IN_SLICE(i) (VF_SLICE == (i) || VF_SLICE == -2)
}

#if VF_IN_SLICE(0)
void vf_slice_0() { all_for_n<1>(); }
#endif
#if VF_IN_SLICE(1)
void vf_slice_1() { all_for_n<2>(); }
#endif
#if VF_IN_SLICE(2)
void vf_slice_2() { all_for_n<3>(); }
#endif

#if VF_SLICE < 0
void vf_slice_0();
void vf_slice_1();
void vf_slice_2();
namespace
{
void body()
{
  for (char const *b :
       {"offset/in-range-evaluated", "offset/size-with-zero-extent", "object/zero-extent", "object/nonempty",
        "range/nonempty", "range/inverted", "range/equal-component", "range/whole/zero-extent", "range/whole/nonempty",
        "ref_range/nonempty", "ref_range/inverted", "ref_range/equal-component", "ref_range/whole/zero-extent",
        "ref_range/whole/nonempty", "carry/into-dim1", "carry/into-dim2", "visit/exact-row-major",
        "at_optional/present", "at_optional/absent-beyond", "at_optional/absent-wrapped-negative",
        "at_optional/absent-although-x-in-range", "clamped_min/some-negative", "clamped_min/nonnegative",
        "clamped_sup/some-clamped", "clamped_sup/unchanged", "clamped_sup_signed/some-negative",
        "clamped_sup_signed/some-above-size", "clamped_sup_signed/unchanged", "clamped_range/nonempty",
        "clamped_range/partly-outside", "fill_map_apply/zero-extent", "fill_map_apply/nonempty", "apply/equal-sizes",
        "apply/unequal-sizes", "apply/unequal-sizes-same-content", "resize/grow", "resize/shrink", "resize/mixed",
        "resize/same-size", "resize/cells-kept", "resize/cells-init", "observed/helpers/calls", "grid/assign-interrupted-by-exception"})
    vf::require_bucket(b);
  vf_slice_0();
  vf_slice_1();
  vf_slice_2();
}
}
VF_MAIN(body)
#endif
