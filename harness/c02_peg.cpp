// C02: parser combinators implement ordered-choice (PEG) semantics for every grammar.
// Real side: arbitrary grammar ASTs are assembled AT RUN TIME from the real fcppt.parse combinators
// (every node is wrapped by make_base<Ch,Skipper> and converted to one uniform result type, an
// S-expression string), so alternative_impl / sequence_impl / repetition_impl / ... run underneath.
// Oracle: an independent recursive PEG interpreter over the same AST on (string, index).
// Second monitor: a recording basic_stream that checks the rewind protocol online.
#include <vf.hpp>

#include <fcppt/make_cref.hpp>
#include <fcppt/make_ref.hpp>
#include <fcppt/reference_to_base.hpp>
#include <fcppt/unit.hpp>
#include <fcppt/either/make_failure.hpp>
#include <fcppt/optional/maybe.hpp>
#include <fcppt/parse/base_impl.hpp>
#include <fcppt/parse/base_unique_ptr.hpp>
#include <fcppt/parse/basic_char.hpp>
#include <fcppt/parse/basic_char_set.hpp>
#include <fcppt/parse/basic_literal.hpp>
#include <fcppt/parse/basic_stream_impl.hpp>
#include <fcppt/parse/basic_string.hpp>
#include <fcppt/parse/construct.hpp>
#include <fcppt/parse/convert_const.hpp>
#include <fcppt/parse/epsilon.hpp>
#include <fcppt/parse/error_impl.hpp>
#include <fcppt/parse/fail.hpp>
#include <fcppt/parse/float.hpp>
#include <fcppt/parse/grammar.hpp>
#include <fcppt/parse/grammar_parse_string.hpp>
#include <fcppt/parse/int.hpp>
#include <fcppt/parse/list.hpp>
#include <fcppt/parse/make_base.hpp>
#include <fcppt/parse/make_convert.hpp>
#include <fcppt/parse/make_convert_if.hpp>
#include <fcppt/parse/make_fatal.hpp>
#include <fcppt/parse/make_ignore.hpp>
#include <fcppt/parse/make_lexeme.hpp>
#include <fcppt/parse/named.hpp>
#include <fcppt/parse/not_impl.hpp>
#include <fcppt/parse/optional_impl.hpp>
#include <fcppt/parse/phrase_parse.hpp>
#include <fcppt/parse/phrase_parse_string.hpp>
#include <fcppt/parse/repetition_impl.hpp>
#include <fcppt/parse/repetition_plus_impl.hpp>
#include <fcppt/parse/result.hpp>
#include <fcppt/parse/separator.hpp>
#include <fcppt/parse/uint.hpp>
#include <fcppt/parse/detail/stream_impl.hpp>
#include <fcppt/parse/operators/alternative.hpp>
#include <fcppt/parse/operators/complement.hpp>
#include <fcppt/parse/operators/sequence.hpp>
#include <fcppt/parse/skipper/basic_char_set.hpp>
#include <fcppt/parse/skipper/basic_literal.hpp>
#include <fcppt/parse/skipper/epsilon.hpp>
#include <fcppt/parse/skipper/operators/repetition.hpp>
#include <fcppt/parse/skipper/operators/sequence.hpp>
#include <fcppt/tuple/get.hpp>

#include <cstdio>
#include <cstdlib>
#include <limits>
#include <memory>
#include <new>
#include <optional>
#include <set>
#include <sstream>
#include <string>
#include <vector>

namespace
{
namespace p = fcppt::parse;
using VS = std::string; // canonical value: an S-expression in narrow characters

// ------------------------------------------------------------------ AST
enum class K
{
  Eps, Fail, Char, Lit, Set, Compl, Str, IntS, IntI, IntL, Uint, Float,
  Seq, Alt, Rep, Plus, Opt, Not, Fatal, Lexeme, Sep, List, Named, ConvIf, Construct, Ignore, ConvConst, Ref
};
struct Node
{
  K k;
  char c{}, c2{}, c3{};
  std::string s; // literal string / set members (ASCII)
  unsigned rule = 0;
  std::vector<std::unique_ptr<Node>> ch;
};
using NP = std::unique_ptr<Node>;

std::string show(Node const &n)
{
  auto kid = [&](std::size_t i) { return show(*n.ch[i]); };
  switch (n.k)
  {
  case K::Eps: return "eps";
  case K::Fail: return "fail";
  case K::Char: return "char";
  case K::Lit: return std::string("'") + n.c + "'";
  case K::Set: return "set{" + n.s + "}";
  case K::Compl: return "~set{" + n.s + "}";
  case K::Str: return "\"" + n.s + "\"";
  case K::IntS: return "int<long long>";
  case K::IntI: return "int<int>";
  case K::IntL: return "int<long>";
  case K::Uint: return "uint";
  case K::Float: return "float";
  case K::Seq: return "(" + kid(0) + " >> " + kid(1) + ")";
  case K::Alt: return "(" + kid(0) + " | " + kid(1) + ")";
  case K::Rep: return "*" + kid(0);
  case K::Plus: return "+" + kid(0);
  case K::Opt: return "-" + kid(0);
  case K::Not: return "!" + kid(0);
  case K::Fatal: return "fatal(" + kid(0) + ")";
  case K::Lexeme: return "lexeme(" + kid(0) + ")";
  case K::Sep: return "sep(" + kid(0) + ",'" + n.c + "')";
  case K::List: return std::string("list('") + n.c + "'," + kid(0) + ",'" + n.c2 + "','" + n.c3 + "')";
  case K::Named: return "named(" + kid(0) + ")";
  case K::ConvIf: return "convert_if(" + kid(0) + ")";
  case K::Construct: return "construct(" + kid(0) + ")";
  case K::Ignore: return "ignore(" + kid(0) + ")";
  case K::ConvConst: return "convert_const(" + kid(0) + ")";
  case K::Ref: return "rule" + std::to_string(n.rule);
  }
  return "?";
}
std::string shape(Node const &n)
{
  std::string s = std::to_string(static_cast<int>(n.k)) + "(";
  for (auto const &c : n.ch)
    s += shape(*c);
  return s + ")";
}

struct Grammar
{
  std::vector<NP> rules; // rules[0] is the start rule
};

struct wrapped
{
  VS v;
};

// ------------------------------------------------------------------ skipper kinds
enum class SK
{
  epsilon, space, char_set, literal, rep_literal, seq_literals, rep_set_eps
};
constexpr char const *sk_name(SK s)
{
  switch (s)
  {
  case SK::epsilon: return "epsilon";
  case SK::space: return "space";
  case SK::char_set: return "char_set{sp,_}";
  case SK::literal: return "literal(sp)";
  case SK::rep_literal: return "*literal(sp)";
  case SK::seq_literals: return "literal(sp)>>literal(_)";
  case SK::rep_set_eps: return "*char_set{sp,_}>>epsilon";
  }
  return "?";
}
template <class Ch, SK S>
auto make_skipper()
{
  namespace sk = p::skipper;
  if constexpr (S == SK::epsilon)
    return sk::epsilon{};
  else if constexpr (S == SK::space)
    return *sk::basic_char_set<Ch>{Ch(' '), Ch('\n'), Ch('\t')}; // = skipper::basic_space<Ch>() written out (that helper only compiles for char)
  else if constexpr (S == SK::char_set)
    return sk::basic_char_set<Ch>{Ch(' '), Ch('_')};
  else if constexpr (S == SK::literal)
    return sk::basic_literal<Ch>{Ch(' ')};
  else if constexpr (S == SK::rep_literal)
    return *sk::basic_literal<Ch>{Ch(' ')};
  else if constexpr (S == SK::seq_literals)
    return sk::basic_literal<Ch>{Ch(' ')} >> sk::basic_literal<Ch>{Ch('_')};
  else
    return *sk::basic_char_set<Ch>{Ch(' '), Ch('_')} >> sk::epsilon{};
}
// model of a skipper: position after skipping, or nothing if the skipper fails
std::optional<std::size_t> skip_model(SK s, std::string const &in, std::size_t at)
{
  auto is = [&](std::size_t i, char c) { return i < in.size() && in[i] == c; };
  switch (s)
  {
  case SK::epsilon: return at;
  case SK::space:
    while (at < in.size() && (in[at] == ' ' || in[at] == '\n' || in[at] == '\t'))
      ++at;
    return at;
  case SK::char_set:
    if (is(at, ' ') || is(at, '_'))
      return at + 1;
    return std::nullopt;
  case SK::literal:
    if (is(at, ' '))
      return at + 1;
    return std::nullopt;
  case SK::rep_literal:
    while (is(at, ' '))
      ++at;
    return at;
  case SK::seq_literals:
    if (is(at, ' ') && is(at + 1, '_'))
      return at + 2;
    return std::nullopt;
  case SK::rep_set_eps:
    while (is(at, ' ') || is(at, '_'))
      ++at;
    return at;
  }
  return std::nullopt;
}
std::string skip_fill(SK s, vf::rng &g)
{
  switch (s)
  {
  case SK::epsilon: return "";
  case SK::space: return std::string(g.below(3), ' ');
  case SK::char_set: return g.chance(1, 2) ? " " : "_";
  case SK::literal: return " ";
  case SK::rep_literal: return std::string(g.below(3), ' ');
  case SK::seq_literals: return " _";
  case SK::rep_set_eps:
  {
    std::string r;
    for (std::size_t i = g.below(3); i > 0; --i)
      r += g.chance(1, 2) ? ' ' : '_';
    return r;
  }
  }
  return "";
}

// ------------------------------------------------------------------ reference interpreter
struct R
{
  bool ok;
  bool fatal;
  std::size_t pos;
  VS val;
};
R okr(std::size_t pos, VS v) { return R{true, false, pos, std::move(v)}; }
R failr(bool fatal = false) { return R{false, fatal, 0, VS{}}; }

template <class I>
bool magnitude_fits(std::string const &digits)
{
  unsigned __int128 v = 0;
  for (char c : digits)
  {
    v = v * 10 + static_cast<unsigned>(c - '0');
    if (v > static_cast<unsigned __int128>(std::numeric_limits<I>::max()))
      return false;
  }
  return true;
}

struct interp
{
  Grammar const &g;
  std::string const &in;
  unsigned depth = 0;
  // Work budget: PEG parsing without memoisation is exponential for some grammars (e.g. `!rule0 >> rule0`); the real
  // parser has the same cost. A (grammar, input) pair whose reference evaluation exceeds the budget is skipped (and
  // counted) BEFORE the real parser is run, so that the per-case watchdog only ever fires for genuine hangs.
  std::uint64_t steps = 0;
  bool too_expensive = false;
  static constexpr std::uint64_t budget = 20000;

  std::size_t digits_end(std::size_t at) const
  {
    while (at < in.size() && in[at] >= '0' && in[at] <= '9')
      ++at;
    return at;
  }
  template <class I>
  R integer(std::size_t pos, char tag)
  {
    std::size_t at = pos;
    bool neg = false;
    if (at < in.size() && in[at] == '-')
    {
      neg = true;
      ++at;
    }
    std::size_t e = digits_end(at);
    if (e == at)
      return failr();
    std::string d = in.substr(at, e - at);
    if (!magnitude_fits<I>(d))
      return failr();
    long long v = std::strtoll(d.c_str(), nullptr, 10);
    return okr(e, std::string(1, tag) + std::to_string(neg ? -v : v));
  }

  R ev(Node const &n, std::size_t pos, SK sk)
  {
    if (++steps > budget)
    {
      too_expensive = true;
      return failr(true); // unwinds quickly: a fatal failure stops all backtracking
    }
    auto kid = [&](std::size_t i, std::size_t at, SK s) { return ev(*n.ch[i], at, s); };
    switch (n.k)
    {
    case K::Eps: return okr(pos, "e");
    case K::Fail: return failr();
    case K::Char: return pos < in.size() ? okr(pos + 1, VS("c") + in[pos]) : failr();
    case K::Lit: return pos < in.size() && in[pos] == n.c ? okr(pos + 1, VS("l") + n.c) : failr();
    case K::Set: return pos < in.size() && n.s.find(in[pos]) != std::string::npos ? okr(pos + 1, VS("s") + in[pos]) : failr();
    case K::Compl: return pos < in.size() && n.s.find(in[pos]) == std::string::npos ? okr(pos + 1, VS("n") + in[pos]) : failr();
    case K::Str: return pos + n.s.size() <= in.size() && in.compare(pos, n.s.size(), n.s) == 0 ? okr(pos + n.s.size(), "w" + n.s) : failr();
    case K::IntS: return integer<long long>(pos, 'h');
    case K::IntI: return integer<int>(pos, 'i');
    case K::IntL: return integer<long>(pos, 'j');
    case K::Uint:
    {
      std::size_t e = digits_end(pos);
      if (e == pos)
        return failr();
      std::string d = in.substr(pos, e - pos);
      if (!magnitude_fits<unsigned>(d))
        return failr();
      return okr(e, "u" + std::to_string(std::strtoull(d.c_str(), nullptr, 10)));
    }
    case K::Float:
    {
      std::size_t at = pos;
      bool neg = false;
      if (at < in.size() && in[at] == '-')
      {
        neg = true;
        ++at;
      }
      std::size_t e1 = digits_end(at);
      if (e1 == at || e1 >= in.size() || in[e1] != '.')
        return failr();
      std::size_t e2 = digits_end(e1 + 1);
      if (e2 == e1 + 1)
        return failr();
      double v = std::strtod(in.substr(at, e2 - at).c_str(), nullptr);
      if (v > std::numeric_limits<double>::max())
        return failr();
      char b[64];
      std::snprintf(b, sizeof b, "f%a", neg ? -v : v);
      return okr(e2, b);
    }
    case K::Seq:
    {
      R a = kid(0, pos, sk);
      if (!a.ok)
        return a;
      auto s = skip_model(sk, in, a.pos);
      if (!s)
        return failr();
      R b = kid(1, *s, sk);
      if (!b.ok)
        return b;
      return okr(b.pos, "(" + a.val + " " + b.val + ")");
    }
    case K::Alt:
    {
      R a = kid(0, pos, sk);
      if (a.ok)
        return okr(a.pos, "L" + a.val);
      if (a.fatal)
        return a;
      VF_COUNT("peg/alternative/second-branch-tried");
      R b = kid(1, pos, sk);
      if (b.ok)
        return okr(b.pos, "R" + b.val);
      return failr(b.fatal);
    }
    case K::Rep:
    case K::Plus:
    {
      VS r = "[";
      std::size_t cur = pos;
      if (n.k == K::Plus)
      {
        R a = kid(0, pos, sk);
        if (!a.ok)
          return a;
        auto s = skip_model(sk, in, a.pos);
        if (!s)
          return failr();
        r += a.val + ",";
        cur = *s;
      }
      for (;;)
      {
        R a = kid(0, cur, sk);
        if (!a.ok)
        {
          if (a.fatal)
            return a;
          break;
        }
        auto s = skip_model(sk, in, a.pos);
        if (!s)
        {
          VF_COUNT("peg/repetition/element-dropped-because-skipper-failed");
          break;
        }
        r += a.val + ",";
        cur = *s;
      }
      VF_COUNT("peg/repetition/ended");
      return okr(cur, r + "]");
    }
    case K::Opt:
    {
      R a = kid(0, pos, sk);
      if (a.ok)
        return okr(a.pos, "J" + a.val);
      if (a.fatal)
        return a;
      VF_COUNT("peg/optional/absent");
      return okr(pos, "N");
    }
    case K::Not:
    {
      R a = kid(0, pos, sk);
      if (a.ok)
      {
        VF_COUNT("peg/not/inner-succeeded");
        return failr();
      }
      VF_COUNT("peg/not/inner-failed");
      return okr(pos, "!");
    }
    case K::Fatal:
    {
      R a = kid(0, pos, sk);
      if (!a.ok)
      {
        VF_COUNT("peg/fatal/raised");
        a.fatal = true;
      }
      return a;
    }
    case K::Lexeme: return kid(0, pos, SK::epsilon);
    case K::Sep:
    {
      // -(inner >> *(sep >> inner))
      R a = kid(0, pos, sk);
      if (!a.ok)
      {
        if (a.fatal)
          return a;
        return okr(pos, "<>");
      }
      auto s0 = skip_model(sk, in, a.pos);
      if (!s0)
        return okr(pos, "<>");
      VS r = "<" + a.val + ",";
      std::size_t cur = *s0;
      for (;;)
      {
        if (!(cur < in.size() && in[cur] == n.c))
          break;
        auto s1 = skip_model(sk, in, cur + 1);
        if (!s1)
          break;
        R b = kid(0, *s1, sk);
        if (!b.ok)
        {
          if (b.fatal)
            return b;
          break;
        }
        auto s2 = skip_model(sk, in, b.pos);
        if (!s2)
          break;
        r += b.val + ",";
        cur = *s2;
      }
      return okr(cur, r + ">");
    }
    case K::List:
    {
      // open >> (close | separator(inner, sep) >> close)
      if (!(pos < in.size() && in[pos] == n.c))
        return failr();
      auto s0 = skip_model(sk, in, pos + 1);
      if (!s0)
        return failr();
      std::size_t at = *s0;
      if (at < in.size() && in[at] == n.c3)
        return okr(at + 1, "{}");
      Node view{K::Sep, n.c2, 0, 0, "", 0, {}};
      view.ch.emplace_back(const_cast<Node *>(n.ch[0].get()));
      R sres = ev(view, at, sk);
      view.ch[0].release();
      if (!sres.ok)
        return sres;
      auto s1 = skip_model(sk, in, sres.pos);
      if (!s1)
        return failr();
      if (!(*s1 < in.size() && in[*s1] == n.c3))
        return failr();
      VS inner = sres.val.substr(1, sres.val.size() - 2);
      return okr(*s1 + 1, "{" + inner + "}");
    }
    case K::Named: return kid(0, pos, sk); // only the message changes; the fatal flag survives
    case K::ConvIf:
    {
      R a = kid(0, pos, sk);
      if (!a.ok)
        return a;
      if (a.val.size() % 2 == 1)
        return failr();
      return okr(a.pos, "C" + a.val);
    }
    case K::Construct:
    {
      R a = kid(0, pos, sk);
      if (a.ok)
        a.val = "W" + a.val;
      return a;
    }
    case K::Ignore:
    {
      R a = kid(0, pos, sk);
      if (a.ok)
        a.val = "_";
      return a;
    }
    case K::ConvConst:
    {
      R a = kid(0, pos, sk);
      if (a.ok)
        a.val = "k";
      return a;
    }
    case K::Ref:
    {
      VF_COUNT("peg/recursion/rule-entered");
      return ev(*g.rules[n.rule], pos, sk);
    }
    }
    std::abort();
  }
};

// ------------------------------------------------------------------ real side
template <class Ch>
std::basic_string<Ch> widen_ascii(std::string const &s)
{
  return std::basic_string<Ch>(s.begin(), s.end());
}

template <class Ch, class Sk>
struct builder
{
  using P = p::base_unique_ptr<VS, Ch, Sk>;
  using Str = std::basic_string<Ch>;
  // storage for the rules: the reference to a rule is taken before the rule exists (as in a grammar class)
  struct slot
  {
    alignas(P) unsigned char buf[sizeof(P)];
    bool built = false;
    P &ref() { return *std::launder(reinterpret_cast<P *>(buf)); }
    ~slot()
    {
      if (built)
        ref().~P();
    }
  };
  std::vector<std::unique_ptr<slot>> slots;

  template <class X>
  static auto mk(X &&x)
  {
    return p::make_base<Ch, Sk>(std::forward<X>(x));
  }
  static VS vec(char open, std::vector<VS> const &v, char close)
  {
    VS r(1, open);
    for (auto const &x : v)
      r += x + ",";
    return r + close;
  }

  P build(Node const &n)
  {
    auto kid = [&](std::size_t i) { return build(*n.ch[i]); };
    using set_t = typename p::basic_char_set<Ch>::char_set_type;
    switch (n.k)
    {
    case K::Eps: return mk(p::make_convert(p::epsilon{}, [](fcppt::unit &&) { return VS("e"); }));
    case K::Fail: return mk(p::fail<VS>{});
    case K::Char: return mk(p::make_convert(p::basic_char<Ch>{}, [](Ch &&c) { return VS("c") + static_cast<char>(c); }));
    case K::Lit:
    {
      char c = n.c;
      return mk(p::make_convert(p::basic_literal<Ch>{Ch(c)}, [c](fcppt::unit &&) { return VS("l") + c; }));
    }
    case K::Set:
      return mk(p::make_convert(p::basic_char_set<Ch>{set_t{n.s.begin(), n.s.end()}}, [](Ch &&c) { return VS("s") + static_cast<char>(c); }));
    case K::Compl:
      return mk(p::make_convert(~p::basic_char_set<Ch>{set_t{n.s.begin(), n.s.end()}}, [](Ch &&c) { return VS("n") + static_cast<char>(c); }));
    case K::Str:
    {
      std::string s = n.s;
      return mk(p::make_convert(p::basic_string<Ch>{widen_ascii<Ch>(s)}, [s](fcppt::unit &&) { return "w" + s; }));
    }
    case K::IntS: return mk(p::make_convert(p::int_<long long>{}, [](long long &&v) { return "h" + std::to_string(v); })); // int_<short> does not instantiate (negation promotes to int)
    case K::IntI: return mk(p::make_convert(p::int_<int>{}, [](int &&v) { return "i" + std::to_string(v); }));
    case K::IntL: return mk(p::make_convert(p::int_<long>{}, [](long &&v) { return "j" + std::to_string(v); }));
    case K::Uint: return mk(p::make_convert(p::uint<unsigned>{}, [](unsigned &&v) { return "u" + std::to_string(v); }));
    case K::Float:
      return mk(p::make_convert(p::float_<double>{}, [](double &&v) {
        char b[64];
        std::snprintf(b, sizeof b, "f%a", v);
        return VS(b);
      }));
    case K::Seq:
      return mk(p::make_convert(kid(0) >> kid(1), [](fcppt::tuple::object<VS, VS> &&t) {
        return "(" + fcppt::tuple::get<0>(t) + " " + fcppt::tuple::get<1>(t) + ")";
      }));
    case K::Alt:
      return mk(mk(p::make_convert(kid(0), [](VS &&s) { return "L" + s; })) | mk(p::make_convert(kid(1), [](VS &&s) { return "R" + s; })));
    case K::Rep: return mk(p::make_convert(p::repetition<P>{kid(0)}, [](std::vector<VS> &&v) { return vec('[', v, ']'); }));
    case K::Plus: return mk(p::make_convert(p::repetition_plus<P>{kid(0)}, [](std::vector<VS> &&v) { return vec('[', v, ']'); }));
    case K::Opt:
      return mk(p::make_convert(p::optional<P>{kid(0)}, [](fcppt::optional::object<VS> &&o) {
        return fcppt::optional::maybe(std::move(o), [] { return VS("N"); }, [](VS &&s) { return "J" + s; });
      }));
    case K::Not:
    {
      auto inner = mk(p::make_convert(kid(0), [](VS &&) { return fcppt::unit{}; }));
      using I = decltype(inner);
      return mk(p::make_convert(p::not_<I>{std::move(inner)}, [](fcppt::unit &&) { return VS("!"); }));
    }
    case K::Fatal: return mk(p::make_fatal(kid(0)));
    case K::Lexeme:
    {
      // the body of a lexeme is called with skipper::epsilon: it is built in the epsilon world (one shared
      // instance per grammar, with its own copy of every rule)
      if constexpr (std::is_same_v<Sk, p::skipper::epsilon>)
        return mk(p::make_lexeme(build(*n.ch[0])));
      else
        return mk(p::make_lexeme(eps_world->build(*n.ch[0])));
    }
    case K::Sep:
      return mk(p::make_convert(p::separator{kid(0), p::basic_literal<Ch>{Ch(n.c)}}, [](std::vector<VS> &&v) { return vec('<', v, '>'); }));
    case K::List:
      return mk(p::make_convert(
          p::list{p::basic_literal<Ch>{Ch(n.c)}, kid(0), p::basic_literal<Ch>{Ch(n.c2)}, p::basic_literal<Ch>{Ch(n.c3)}},
          [](std::vector<VS> &&v) { return vec('{', v, '}'); }));
    case K::Named: return mk(p::named<Ch, P>{kid(0), widen_ascii<Ch>("nm")});
    case K::ConvIf:
      return mk(p::make_convert_if(kid(0), [](VS &&s) -> fcppt::either::object<p::error<Ch>, VS> {
        if (s.size() % 2 == 1)
          return fcppt::either::make_failure<VS>(p::error<Ch>{widen_ascii<Ch>("odd")});
        return fcppt::either::object<p::error<Ch>, VS>{"C" + s};
      }));
    case K::Construct: return mk(p::make_convert(p::construct<wrapped>(kid(0)), [](wrapped &&w) { return "W" + w.v; }));
    case K::Ignore: return mk(p::make_convert(p::make_ignore(kid(0)), [](fcppt::unit &&) { return VS("_"); }));
    case K::ConvConst: return mk(p::convert_const{p::make_ignore(kid(0)), VS("k")});
    case K::Ref: return mk(p::make_convert(fcppt::make_cref(std::as_const(slots[n.rule]->ref())), [](VS &&s) { return std::move(s); }));
    }
    std::abort();
  }

  Grammar const *gr = nullptr;
  std::unique_ptr<builder<Ch, p::skipper::epsilon>> eps_world;

  void prepare(Grammar const &g)
  {
    gr = &g;
    for (std::size_t i = 0; i < g.rules.size(); ++i)
      slots.push_back(std::make_unique<slot>());
    if constexpr (!std::is_same_v<Sk, p::skipper::epsilon>)
    {
      eps_world = std::make_unique<builder<Ch, p::skipper::epsilon>>();
      eps_world->prepare(g);
    }
  }
  // builds all rules into their slots (rule bodies may refer to any slot, built or not yet built)
  void finish(Grammar const &g)
  {
    if constexpr (!std::is_same_v<Sk, p::skipper::epsilon>)
      eps_world->finish(g);
    for (std::size_t i = 0; i < g.rules.size(); ++i)
    {
      new (slots[i]->buf) P(build(*g.rules[i]));
      slots[i]->built = true;
    }
  }
  P const &start() { return slots[0]->ref(); }
};

// a grammar class around the runtime rules (exercises fcppt::parse::grammar / grammar_parse_string)
template <class Ch, class Sk>
struct rt_grammar : p::grammar<VS, Ch, Sk>
{
  using base = p::grammar<VS, Ch, Sk>;
  rt_grammar(typename base::template base_type<VS> const &start, Sk &&sk) : base{fcppt::make_cref(start), std::move(sk)} {}
};

// ------------------------------------------------------------------ recording stream
template <class Ch>
struct rec_stream : p::basic_stream<Ch>
{
  std::basic_istringstream<Ch> iss;
  p::detail::stream<Ch> inner;
  std::size_t len;
  std::vector<std::streamoff> handed_out;
  std::uint64_t gets = 0, sets = 0, getpos = 0, rewinds = 0;
  bool protocol_ok = true;
  std::string why;
  explicit rec_stream(std::basic_string<Ch> const &t)
      : iss(t), inner{fcppt::reference_to_base<std::basic_istream<Ch>>(fcppt::make_ref(iss))}, len(t.size())
  {
  }
  fcppt::optional::object<Ch> get_char() override
  {
    ++gets;
    return inner.get_char();
  }
  p::position<Ch> get_position() const override
  {
    auto r = inner.get_position();
    auto *self = const_cast<rec_stream *>(this);
    ++self->getpos;
    std::streamoff o = std::streamoff(r.pos());
    if (o < 0 || static_cast<std::size_t>(o) > len)
    {
      self->protocol_ok = false;
      self->why = "position outside the input";
    }
    self->handed_out.push_back(o);
    return r;
  }
  void set_position(p::position<Ch> const &pos) override
  {
    ++sets;
    std::streamoff o = std::streamoff(pos.pos());
    if (std::find(handed_out.begin(), handed_out.end(), o) == handed_out.end())
    {
      protocol_ok = false;
      why = "set_position with a position that get_position never returned";
    }
    auto cur = std::streamoff(inner.get_position().pos());
    if (o < cur)
      ++rewinds;
    inner.set_position(pos);
  }
};

// ------------------------------------------------------------------ generator
struct gen
{
  vf::rng g;
  unsigned nrules = 1;
  bool any_numeric = false, any_float = false;
  explicit gen(std::uint64_t seed) : g(seed) {}
  unsigned u(unsigned n) { return static_cast<unsigned>(g.below(n)); }
  char ch() { return "ab,"[u(3)]; }

  NP leaf(bool need_consuming)
  {
    auto n = std::make_unique<Node>();
    unsigned k = u(need_consuming ? 10 : 12);
    switch (k)
    {
    case 0: n->k = K::Lit; n->c = ch(); break;
    case 1: n->k = K::Char; break;
    case 2: n->k = K::Set; n->s = u(2) ? "ab" : "a,"; break;
    case 3: n->k = K::Compl; n->s = u(2) ? "a" : ",b"; break;
    case 4: n->k = K::Str; n->s = u(2) ? "ab" : (u(2) ? "a" : "aba"); break;
    case 5: n->k = K::IntI; any_numeric = true; break;
    case 6: n->k = K::Uint; any_numeric = true; break;
    case 7: n->k = K::Float; any_numeric = any_float = true; break;
    case 8: n->k = u(2) ? K::IntS : K::IntL; any_numeric = true; break;
    case 9: n->k = K::Lit; n->c = ch(); break;
    case 10: n->k = K::Eps; break;
    case 11: n->k = K::Fail; break;
    }
    return n;
  }
  // consumed_before: at least one character has certainly been consumed since the enclosing rule was entered
  NP make(unsigned depth, bool need_consuming, bool consumed_before)
  {
    if (depth == 0 || u(5) == 0)
    {
      if (consumed_before && !need_consuming && nrules > 0 && u(3) == 0)
      {
        auto n = std::make_unique<Node>();
        n->k = K::Ref;
        n->rule = u(nrules);
        return n;
      }
      return leaf(need_consuming);
    }
    auto n = std::make_unique<Node>();
    unsigned k = u(need_consuming ? 13 : 17);
    auto sub = [&](bool nc, bool cb) { return make(depth - 1, nc, cb); };
    switch (k)
    {
    case 0:
    {
      n->k = K::Seq;
      bool first = u(2);
      n->ch.push_back(sub(need_consuming && first, consumed_before));
      n->ch.push_back(sub(need_consuming && !first, consumed_before || (need_consuming && first)));
      break;
    }
    case 1: n->k = K::Alt; n->ch.push_back(sub(need_consuming, consumed_before)); n->ch.push_back(sub(need_consuming, consumed_before)); break;
    case 2: n->k = K::Plus; n->ch.push_back(sub(true, consumed_before)); break;
    case 3: n->k = K::Fatal; n->ch.push_back(sub(need_consuming, consumed_before)); break;
    case 4: n->k = K::Lexeme; n->ch.push_back(sub(need_consuming, consumed_before)); break;
    case 5: n->k = K::Named; n->ch.push_back(sub(need_consuming, consumed_before)); break;
    case 6: n->k = K::ConvIf; n->ch.push_back(sub(need_consuming, consumed_before)); break;
    case 7: n->k = K::List; n->c = 'a'; n->c2 = ','; n->c3 = 'b'; n->ch.push_back(sub(true, true)); break;
    case 8: n->k = K::Seq; n->ch.push_back(sub(true, consumed_before)); n->ch.push_back(sub(false, true)); break;
    case 9: n->k = K::Construct; n->ch.push_back(sub(need_consuming, consumed_before)); break;
    case 10: n->k = K::Ignore; n->ch.push_back(sub(need_consuming, consumed_before)); break;
    case 11: n->k = K::ConvConst; n->ch.push_back(sub(need_consuming, consumed_before)); break;
    case 12: n->k = K::Seq; n->ch.push_back(sub(true, consumed_before)); n->ch.push_back(sub(false, true)); break;
    case 13: n->k = K::Rep; n->ch.push_back(sub(true, consumed_before)); break;
    case 14: n->k = K::Opt; n->ch.push_back(sub(false, consumed_before)); break;
    case 15: n->k = K::Not; n->ch.push_back(sub(false, consumed_before)); break;
    case 16: n->k = K::Sep; n->c = ','; n->ch.push_back(sub(true, consumed_before)); break;
    }
    return n;
  }
  Grammar grammar(unsigned depth)
  {
    Grammar G;
    nrules = u(3) == 0 ? 2 : 1;
    for (unsigned i = 0; i < nrules; ++i)
      G.rules.push_back(make(depth, false, false));
    return G;
  }
};

bool has_kind(Node const &n, K k)
{
  if (n.k == k)
    return true;
  for (auto const &c : n.ch)
    if (has_kind(*c, k))
      return true;
  return false;
}

// a string that is likely (not certainly) in the language, with skipper filling between sequence parts
std::string sample(Grammar const &G, Node const &n, SK sk, vf::rng &g, unsigned depth)
{
  auto kid = [&](std::size_t i, SK s) { return sample(G, *n.ch[i], s, g, depth); };
  auto digits = [&] {
    std::string d;
    // mostly 1-2 digits; sometimes a magnitude at or beyond the limits of the integer types (the parsers must fail,
    // not wrap, when the magnitude does not fit)
    switch (g.below(12))
    {
    case 0: return std::string("2147483647");
    case 1: return std::string("2147483648");
    case 2: return std::string("4294967296");
    case 3: return std::string("9223372036854775808");
    case 4: return std::string("99999999999999999999");
    default: break;
    }
    for (std::size_t i = g.below(2) + 1; i > 0; --i)
      d += static_cast<char>('0' + g.below(10));
    return d;
  };
  switch (n.k)
  {
  case K::Eps: return "";
  case K::Fail: return g.chance(1, 2) ? "" : "x";
  case K::Char: return std::string(1, "ab,x"[g.below(4)]);
  case K::Lit: return std::string(1, n.c);
  case K::Set: return std::string(1, n.s[g.below(n.s.size())]);
  case K::Compl: return std::string(1, n.s.find('b') == std::string::npos ? 'b' : 'x');
  case K::Str: return n.s;
  case K::IntS:
  case K::IntI:
  case K::IntL: return (g.chance(1, 3) ? "-" : "") + digits();
  case K::Uint: return digits();
  case K::Float: return (g.chance(1, 2) ? "-" : "") + digits() + "." + digits();
  case K::Seq: return kid(0, sk) + skip_fill(sk, g) + kid(1, sk);
  case K::Alt: return kid(g.below(2), sk);
  case K::Rep:
  case K::Plus:
  {
    std::string r;
    for (std::size_t i = g.below(3) + (n.k == K::Plus ? 1 : 0); i > 0; --i)
      r += kid(0, sk) + skip_fill(sk, g);
    return r;
  }
  case K::Opt: return g.chance(1, 2) ? kid(0, sk) : "";
  case K::Not: return "";
  case K::Lexeme: return kid(0, SK::epsilon);
  case K::Sep:
  {
    std::string r;
    std::size_t k = g.below(3);
    for (std::size_t i = 0; i < k; ++i)
      r += (i ? std::string(1, n.c) + skip_fill(sk, g) : std::string()) + kid(0, sk) + skip_fill(sk, g);
    return r;
  }
  case K::List:
  {
    std::string r(1, n.c);
    r += skip_fill(sk, g);
    std::size_t k = g.below(3);
    for (std::size_t i = 0; i < k; ++i)
      r += (i ? std::string(1, n.c2) + skip_fill(sk, g) : std::string()) + kid(0, sk) + skip_fill(sk, g);
    return r + n.c3;
  }
  case K::Ref: return depth > 0 ? sample(G, *G.rules[n.rule], sk, g, depth - 1) : std::string();
  default: return kid(0, sk);
  }
}

// ------------------------------------------------------------------ world: one (Ch, skipper) combination
template <class Ch, SK S>
void run_world(char const *chname)
{
  using Sk = decltype(make_skipper<Ch, S>());
  using Str = std::basic_string<Ch>;
  std::string e = std::string("peg<") + chname + "," + sk_name(S) + ">";
  if (!vf::entry_enabled(e))
    return;
  vf::set_entry(e);
  std::uint64_t ngram = vf::tier<std::uint64_t>(48, 800) / vf::opts().nparts + 1;
  std::size_t budget = vf::tier<std::size_t>(500, 4000);
  std::set<std::uint64_t> shapes;
  for (std::uint64_t gi = 0; gi < ngram; ++gi)
  {
    gen G(vf::seed_for(e, gi));
    Grammar gr = G.grammar(vf::tier<unsigned>(4, 5));
    std::string desc;
    for (std::size_t i = 0; i < gr.rules.size(); ++i)
      desc += (i ? " ; rule" + std::to_string(i) + " = " : "rule0 = ") + show(*gr.rules[i]);
    if (!vf::begin_case("grammar#%" PRIu64 " seed=%" PRIu64 " part=%u %s", gi, vf::opts().seed, vf::opts().part, desc.c_str()))
      continue;
    vf::sample_case(1);
    std::uint64_t gh = vf::hash_str(desc, vf::hash_str(e));
    for (auto const &r : gr.rules)
      shapes.insert(vf::hash_str(shape(*r)));
    // real parser
    builder<Ch, Sk> B;
    B.prepare(gr);
    B.finish(gr);
    auto const &real = B.start();
    rt_grammar<Ch, Sk> as_grammar(real, make_skipper<Ch, S>());
    Sk const skipper = make_skipper<Ch, S>();
    // inputs: all short strings over the grammar's alphabet + samples and their mutations
    std::string alpha = "ab,x ";
    if (S == SK::char_set || S == SK::seq_literals || S == SK::rep_set_eps)
      alpha += '_';
    if (G.any_numeric)
      alpha += "1-";
    if (G.any_float)
      alpha += '.';
    std::vector<std::string> inputs;
    {
      std::size_t total = 1, len = 0;
      std::vector<std::string> level{""};
      inputs.push_back("");
      while (true)
      {
        if (total * alpha.size() + inputs.size() > budget)
          break;
        std::vector<std::string> next;
        for (auto const &s : level)
          for (char c : alpha)
            next.push_back(s + c);
        total = next.size();
        inputs.insert(inputs.end(), next.begin(), next.end());
        level.swap(next);
        ++len;
      }
      vf::count_max("max/peg/exhaustive-input-length", len);
      vf::rng &rg = G.g;
      std::size_t nsamples = vf::tier<std::size_t>(40, 200);
      for (std::size_t i = 0; i < nsamples; ++i)
      {
        std::string s = sample(gr, *gr.rules[0], S, rg, 3);
        if (s.size() > 24)
          s.resize(24);
        inputs.push_back(s);
        // mutations: insert / delete / replace / truncate / extend
        for (int m = 0; m < 4; ++m)
        {
          std::string t = s;
          std::size_t at = t.empty() ? 0 : rg.below(t.size() + 1);
          switch (rg.below(5))
          {
          case 0: t.insert(at, 1, alpha[rg.below(alpha.size())]); break;
          case 1: if (!t.empty()) t.erase(std::min(at, t.size() - 1), 1); break;
          case 2: if (!t.empty()) t[std::min(at, t.size() - 1)] = alpha[rg.below(alpha.size())]; break;
          case 3: t.resize(at); break;
          case 4: t.insert(at, skip_fill(S, rg) + " "); break;
          }
          inputs.push_back(t);
        }
      }
    }
    // line breaks and tabs around the input (what a line-oriented caller hands over): the string entry points succeed
    // only when EVERYTHING was consumed, whatever the left-over character is
    {
      std::size_t const n0 = inputs.size();
      for (std::size_t i = 0; i < n0; ++i)
        if (inputs[i].size() <= 2 || i + 5 * vf::tier<std::size_t>(40, 200) >= n0)
        {
          if (i % 3 == 0)
            inputs.push_back(inputs[i] + "\n");
          else if (i % 3 == 1)
            inputs.push_back(inputs[i] + "\t");
          else
            inputs.push_back("\n" + inputs[i] + "\n\n");
        }
      VF_COUNT("peg/inputs/with-line-breaks-or-tabs-around");
    }
    vf::add_evals(inputs.size());
    std::size_t ii = 0;
    for (auto const &in : inputs)
    {
      ++ii;
      vf::note_distinct(vf::hash_str(in, gh));
      Str win = widen_ascii<Ch>(in);
      // reference
      interp I{gr, in};
      R ref = failr();
      {
        auto s0 = skip_model(S, in, 0);
        if (s0)
        {
          ref = I.ev(*gr.rules[0], *s0, S);
          if (ref.ok && ref.pos != in.size())
          {
            VF_COUNT("peg/outcome/leftover-input");
            ref = R{false, false, ref.pos, VS{}};
          }
        }
      }
      if (I.too_expensive)
      {
        VF_COUNT("peg/skipped/pair-over-work-budget");
        continue;
      }
      // real: string entry point (alternating between phrase_parse_string and grammar_parse_string)
      auto rr = (ii % 2 == 0) ? p::phrase_parse_string(*real, Str(win), skipper) : p::grammar_parse_string(Str(win), as_grammar);
      bool rok = rr.has_success();
      bool rfatal = !rok && rr.get_failure_unsafe().is_fatal();
      if (rok)
        VF_COUNT("peg/outcome/success");
      else if (rfatal)
        VF_COUNT("peg/outcome/fatal-failure");
      else
        VF_COUNT("peg/outcome/failure");
      bool bad = rok != ref.ok || (rok && rr.get_success_unsafe() != ref.val) || (!rok && rfatal != ref.fatal);
      if (bad)
      {
        std::string cls = rok != ref.ok ? (rok ? "accepts-what-the-semantics-rejects" : "rejects-what-the-semantics-accepts")
                                        : (rok ? "wrong-value" : "wrong-fatal-flag");
        vf::violation(std::string("peg/") + cls, "mismatch",
                      "grammar: " + desc + " | skipper: " + sk_name(S) + " | input: \"" + in + "\" | real: " +
                          (rok ? "ok " + rr.get_success_unsafe() : (rfatal ? "FATAL" : "fail")) + " | reference: " +
                          (ref.ok ? "ok " + ref.val : (ref.fatal ? "FATAL" : "fail")));
      }
      // recording stream pass on every 4th input: protocol + final offset on success
      if (ii % 4 == 0)
      {
        rec_stream<Ch> rs(win);
        auto r2 = p::phrase_parse(*real, rs, skipper);
        VF_COUNT("peg/stream/recorded-runs");
        vf::count("peg/stream/get_char-events", rs.gets);
        vf::count("peg/stream/set_position-events", rs.sets);
        vf::count("peg/stream/get_position-events", rs.getpos);
        vf::count("peg/stream/rewinds", rs.rewinds);
        if (!rs.protocol_ok)
          vf::violation("peg/stream-protocol", "mismatch", rs.why + " | grammar: " + desc + " | input: \"" + in + "\"");
        // phrase_parse does not require the whole input to be consumed: compare with the reference before that check
        interp I2{gr, in};
        auto s0 = skip_model(S, in, 0);
        R ref2 = s0 ? I2.ev(*gr.rules[0], *s0, S) : failr();
        if (I2.too_expensive)
          continue;
        if (r2.has_success() != ref2.ok)
          vf::violation("peg/stream-entry-point/outcome", "mismatch", "grammar: " + desc + " | input: \"" + in + "\"");
        else if (ref2.ok)
        {
          std::size_t fin = static_cast<std::size_t>(std::streamoff(rs.inner.get_position().pos()));
          if (fin != ref2.pos || r2.get_success_unsafe() != ref2.val)
            vf::violation("peg/stream-entry-point/final-offset-or-value", "mismatch",
                          "grammar: " + desc + " | input: \"" + in + "\" | final offset " + std::to_string(fin) + " want " + std::to_string(ref2.pos));
        }
      }
    }
    VF_COUNT("peg/grammars");
    if (gr.rules.size() > 1 || has_kind(*gr.rules[0], K::Ref))
      VF_COUNT("peg/grammars-with-recursion");
  }
  vf::count("peg/distinct-ast-shapes(per-partition)", shapes.size());
}

#ifndef VF_SLICE
#define VF_SLICE -2
#endif
#define VF_IN_SLICE(i) (VF_SLICE == (i) || VF_SLICE == -2)
}

#define VF_WORLD(i, Ch, name, S)                                                                             \
  void vf_slice_##i() { run_world<Ch, S>(name); }

#if VF_IN_SLICE(0)
VF_WORLD(0, char, "char", SK::epsilon)
#endif
#if VF_IN_SLICE(1)
VF_WORLD(1, char, "char", SK::space)
#endif
#if VF_IN_SLICE(2)
VF_WORLD(2, char, "char", SK::char_set)
#endif
#if VF_IN_SLICE(3)
VF_WORLD(3, char, "char", SK::literal)
#endif
#if VF_IN_SLICE(4)
VF_WORLD(4, char, "char", SK::rep_literal)
#endif
#if VF_IN_SLICE(5)
VF_WORLD(5, char, "char", SK::seq_literals)
#endif
#if VF_IN_SLICE(6)
VF_WORLD(6, char, "char", SK::rep_set_eps)
#endif
#if VF_IN_SLICE(7)
VF_WORLD(7, wchar_t, "wchar_t", SK::epsilon)
#endif
#if VF_IN_SLICE(8)
VF_WORLD(8, wchar_t, "wchar_t", SK::space)
#endif
#if VF_IN_SLICE(9)
VF_WORLD(9, wchar_t, "wchar_t", SK::literal)
#endif
#if VF_IN_SLICE(10)
VF_WORLD(10, wchar_t, "wchar_t", SK::rep_set_eps)
#endif

#if VF_SLICE < 0
void vf_slice_0();
void vf_slice_1();
void vf_slice_2();
void vf_slice_3();
void vf_slice_4();
void vf_slice_5();
void vf_slice_6();
void vf_slice_7();
void vf_slice_8();
void vf_slice_9();
void vf_slice_10();
namespace
{
void body()
{
  for (char const *b : {"peg/grammars", "peg/grammars-with-recursion", "peg/outcome/success", "peg/outcome/failure",
                        "peg/outcome/fatal-failure", "peg/outcome/leftover-input", "peg/alternative/second-branch-tried",
                        "peg/optional/absent", "peg/repetition/ended", "peg/repetition/element-dropped-because-skipper-failed",
                        "peg/not/inner-succeeded", "peg/not/inner-failed", "peg/fatal/raised", "peg/recursion/rule-entered",
                        "peg/stream/recorded-runs", "peg/stream/rewinds", "peg/stream/set_position-events"})
    vf::require_bucket(b);
  vf_slice_0();
  vf_slice_1();
  vf_slice_2();
  vf_slice_3();
  vf_slice_4();
  vf_slice_5();
  vf_slice_6();
  vf_slice_7();
  vf_slice_8();
  vf_slice_9();
  vf_slice_10();
}
}
VF_MAIN(body)
#endif
