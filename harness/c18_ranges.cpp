// C18: ranges and iterators enumerate exactly their documented sequence.
//
// Oracle: __int128 arithmetic and explicit point sets written from the documentation / the property text.
//
// Judged  : make_int_range(b,e) (sequence b..e-1, nothing if e <= b) and make_int_range_count(n) (0..n-1) for
//           plain, narrow and strong-typedef'd integers, enumerated by pre-increment, post-increment and
//           range-for; int_range::size() ONLY when the number of elements is representable in the range's own
//           integer type (side condition of the statement); enum::make_range_start_end / make_range_start /
//           make_range (every enumerator of the closed sub-range once, in order); cyclic_iterator: advance(n),
//           +=, +, n+it, -=, -, [] equal |n| single ++/-- steps, every single step and every result stays
//           inside the boundary, the boundary itself is never changed; grid spiral range (set = Manhattan
//           ball, no duplicates, non-decreasing distance, terminates); neumann/moore neighbours (as sets);
//           iterator::range / make_range / adapt_range (begin, end, elements by address).
// Observed: int_range::size() when the count is NOT representable (only for types narrower than int, where
//           calling it is not undefined; for wider types it is not called at all), enum_::range::size(),
//           the empty enum range [s, s-1], cyclic iterator difference and ordering, range::size,
//           math::int_range_count, the iterator::base operator set through a user-defined iterator and the
//           standard algorithms.
#include <vf.hpp>

#include <fcppt/cyclic_iterator_impl.hpp>
#include <fcppt/int_iterator_impl.hpp>
#include <fcppt/int_range_impl.hpp>
#include <fcppt/make_int_range.hpp>
#include <fcppt/make_int_range_count.hpp>
#include <fcppt/make_literal_strong_typedef.hpp>
#include <fcppt/make_strong_typedef.hpp>
#include <fcppt/strong_typedef.hpp>
#include <fcppt/tag_type.hpp>
#include <fcppt/algorithm/loop.hpp>
#include <fcppt/algorithm/loop_break_mpl.hpp>
#include <fcppt/container/grid/make_spiral_range.hpp>
#include <fcppt/container/grid/moore_neighbors.hpp>
#include <fcppt/container/grid/neumann_neighbors.hpp>
#include <fcppt/container/grid/pos.hpp>
#include <fcppt/container/grid/spiral_range_impl.hpp>
#include <fcppt/enum/make_range.hpp>
#include <fcppt/enum/make_range_start.hpp>
#include <fcppt/enum/make_range_start_end.hpp>
#include <fcppt/enum/size_type_impl.hpp>
#include <fcppt/enum/range_impl.hpp>
#include <fcppt/iterator/adapt_range.hpp>
#include <fcppt/iterator/base_impl.hpp>
#include <fcppt/iterator/make_range.hpp>
#include <fcppt/iterator/range_impl.hpp>
#include <fcppt/iterator/range_comparison.hpp>
#include <fcppt/iterator/types_from.hpp>
#include <fcppt/math/int_range_count.hpp>
#include <fcppt/math/vector/arithmetic.hpp>
#include <fcppt/math/vector/comparison.hpp>
#include <fcppt/math/vector/object_impl.hpp>
#include <fcppt/range/size.hpp>
#include <fcppt/type_iso/strong_typedef.hpp>

#include <algorithm>
#include <array>
#include <cstdint>
#include <deque>
#include <forward_list>
#include <iterator>
#include <limits>
#include <list>
#include <set>
#include <string>
#include <type_traits>
#include <utility>
#include <vector>

#ifndef VF_SLICE
#define VF_SLICE -2 // single translation unit build: everything
#endif
#define VF_IN_SLICE(i) (VF_SLICE == (i) || VF_SLICE == -2)

namespace
{
using i128 = __int128;

template <class T>
std::string tn()
{
  using U = std::remove_cv_t<T>;
  if constexpr (std::is_same_v<U, std::int8_t>)
    return "i8";
  else if constexpr (std::is_same_v<U, std::uint8_t>)
    return "u8";
  else if constexpr (std::is_same_v<U, std::int16_t>)
    return "i16";
  else if constexpr (std::is_same_v<U, std::uint16_t>)
    return "u16";
  else if constexpr (std::is_same_v<U, std::int32_t>)
    return "i32";
  else if constexpr (std::is_same_v<U, std::uint32_t>)
    return "u32";
  else if constexpr (std::is_same_v<U, std::int64_t>)
    return "i64";
  else if constexpr (std::is_same_v<U, std::uint64_t>)
    return "u64";
  else if constexpr (std::is_same_v<U, long long>)
    return "llong";
  else if constexpr (std::is_same_v<U, unsigned long long>)
    return "ullong";
  else
    return "?";
}

std::string s128(i128 v)
{
  if (v == 0)
    return "0";
  bool neg = v < 0;
  std::string r;
  unsigned __int128 u = neg ? -static_cast<unsigned __int128>(v) : static_cast<unsigned __int128>(v);
  while (u)
  {
    r.insert(r.begin(), static_cast<char>('0' + static_cast<int>(u % 10)));
    u /= 10;
  }
  return neg ? "-" + r : r;
}
template <class T>
constexpr i128 lo()
{
  return static_cast<i128>(std::numeric_limits<T>::min());
}
template <class T>
constexpr i128 hi()
{
  return static_cast<i128>(std::numeric_limits<T>::max());
}
template <class T>
bool fits(i128 v)
{
  return v >= lo<T>() && v <= hi<T>();
}
std::uint64_t h128(i128 v) { return vf::hash_bytes(&v, sizeof v); }

std::string show_seq(std::vector<i128> const &v, std::size_t max = 8)
{
  std::string r = "[";
  for (std::size_t i = 0; i < v.size() && i < max; ++i)
    r += (i ? "," : "") + s128(v[i]);
  if (v.size() > max)
    r += ",...(" + std::to_string(v.size()) + ")";
  return r + "]";
}

// ------------------------------------------------------------------ integer-like types
template <class T>
struct plain
{
  using raw = T;
  using type = T;
  static type make(raw v) { return v; }
  static raw get(type v) { return v; }
  static std::string name() { return tn<T>(); }
};
template <class S>
struct strong
{
  using raw = typename S::value_type;
  using type = S;
  static type make(raw v) { return S{v}; }
  static raw get(type const &v) { return v.get(); }
  static std::string name() { return "strong<" + tn<raw>() + ">"; }
};
FCPPT_MAKE_STRONG_TYPEDEF(std::int8_t, s_i8);
FCPPT_MAKE_STRONG_TYPEDEF(std::uint8_t, s_u8);
FCPPT_MAKE_STRONG_TYPEDEF(std::uint16_t, s_u16);
FCPPT_MAKE_STRONG_TYPEDEF(std::int32_t, s_i32);
FCPPT_MAKE_STRONG_TYPEDEF(std::uint32_t, s_u32);
FCPPT_MAKE_STRONG_TYPEDEF(std::int64_t, s_i64);

// ------------------------------------------------------------------ bounded enumeration of a range
enum class walk
{
  preinc,   // for (it = begin; it != end; ++it) *it
  postinc,  // while (it != end) *it++
  rangefor  // for (auto v : r)
};
char const *walk_name(walk w) { return w == walk::preinc ? "preinc" : w == walk::postinc ? "postinc" : "rangefor"; }

// Appends at most `cap` elements of r (converted by `conv`) to out; true = the end was reached.
template <class Range, class Conv>
bool collect(walk w, Range const &r, std::size_t cap, std::vector<i128> &out, Conv const &conv)
{
  out.clear();
  switch (w)
  {
  case walk::preinc:
    for (auto it = r.begin(); it != r.end(); ++it)
    {
      if (out.size() >= cap)
        return false;
      out.push_back(conv(*it));
    }
    return true;
  case walk::postinc:
  {
    auto it = r.begin();
    auto const end = r.end();
    while (it != end)
    {
      if (out.size() >= cap)
        return false;
      out.push_back(conv(*it++));
    }
    return true;
  }
  case walk::rangefor:
    for (auto const v : r)
    {
      if (out.size() >= cap)
        return false;
      out.push_back(conv(v));
    }
    return true;
  }
  return true;
}

// Compares an enumeration with first, first+1, ..., first+count-1.  When count > prefix only the first
// `prefix` elements are enumerated (and judged).  Returns false on a violation.
// key = "<entry>/sequence/<class>"
template <class Range, class Conv>
bool judge_arith_sequence(std::string const &key, walk w, Range const &r, i128 first, i128 count, std::size_t prefix,
                          Conv const &conv)
{
  static std::vector<i128> out;
  bool const full = count <= static_cast<i128>(prefix);
  std::size_t const want = full ? static_cast<std::size_t>(count) : prefix;
  std::size_t const cap = full ? want + 1 : want;
  bool const ended = collect(w, r, cap, out, conv);
  std::string const wn = walk_name(w);
  for (std::size_t i = 0; i < out.size() && i < want; ++i)
    if (out[i] != first + static_cast<i128>(i))
    {
      vf::violation(key + "/wrong-element", "mismatch",
                    wn + ": element #" + std::to_string(i) + " got=" + s128(out[i]) + " want=" + s128(first + static_cast<i128>(i)) +
                        " seq=" + show_seq(out));
      return false;
    }
  if (out.size() > want)
  {
    vf::violation(key + "/too-long", "mismatch",
                  wn + ": " + s128(count) + " elements expected, the range yields more: seq=" + show_seq(out));
    return false;
  }
  if (ended && out.size() < want)
  {
    vf::violation(key + "/too-short", "mismatch",
                  wn + ": " + s128(count) + " elements expected, got " + std::to_string(out.size()) + ": seq=" + show_seq(out));
    return false;
  }
  if (full && !ended)
  { // cannot happen (cap = want + 1), kept for completeness
    vf::violation(key + "/too-long", "mismatch", wn + ": end not reached");
    return false;
  }
  return true;
}

// ------------------------------------------------------------------ A: make_int_range / make_int_range_count
template <class W>
void judge_int_range(std::string const &e, fcppt::int_range<typename W::type> const &r, i128 first, i128 count,
                     char const *cls, std::size_t prefix)
{
  using raw = typename W::raw;
  auto conv = [](typename W::type const &v) { return static_cast<i128>(W::get(v)); };
  std::string const key = e + "/sequence/" + cls;
  bool const full = count <= static_cast<i128>(prefix);
  judge_arith_sequence(key, walk::preinc, r, first, count, prefix, conv);
  if (full)
  {
    // the iterators of the range: equal exactly when advanced equally far, whichever operand stands left (end != it)
    {
      std::vector<decltype(r.begin())> its;
      for (auto it = r.begin(); !(it == r.end()) && its.size() <= static_cast<std::size_t>(count); ++it)
        its.push_back(it);
      its.push_back(r.end());
      bool reported = false;
      for (std::size_t i = 0; i < its.size() && !reported; ++i)
        for (std::size_t j = 0; j < its.size() && !reported; ++j)
        {
          VF_COUNT("int_range/iterator-comparisons");
          if ((its[i] == its[j]) != (i == j) || (its[i] != its[j]) == (i == j))
          {
            vf::violation(e + "/iterator-equality", "mismatch",
                          "the iterators after " + std::to_string(i) + " and after " + std::to_string(j) + " steps compare " + ((its[i] == its[j]) ? "equal" : "unequal"));
            reported = true;
          }
        }
    }
    VF_COUNT("int_range/enumerated-completely");
    judge_arith_sequence(key, walk::postinc, r, first, count, prefix, conv);
    judge_arith_sequence(key, walk::rangefor, r, first, count, prefix, conv);
  }
  else
    VF_COUNT("int_range/prefix-only(count>prefix)");
  // size(): side condition of the statement
  if (fits<raw>(count))
  {
    VF_COUNT("int_range/size/judged");
    i128 const s = static_cast<i128>(r.size());
    if (s != count)
      vf::violation(e + "/size/" + cls, "mismatch", "size() got=" + s128(s) + " want=" + s128(count));
  }
  else if constexpr (sizeof(raw) < sizeof(int))
  {
    // not judged; the subtraction happens in int, so calling it is well defined
    VF_COUNT("int_range/size/observed-unrepresentable");
    i128 const s = static_cast<i128>(r.size());
    static bool said = false;
    if (!said)
    {
      said = true;
      vf::observation("int_range<" + W::name() + ">::size() with " + s128(count) +
                      " elements (not representable, not judged) returns " + s128(s));
    }
  }
  else
    VF_COUNT("int_range/size/not-called-unrepresentable(UB)");
}

char const *range_class(i128 b, i128 e, i128 tmin, i128 tmax)
{
  if (e < b)
    return "inverted";
  if (e == b)
    return "empty";
  if (e == tmax && b == tmin)
    return "min-to-max";
  if (e == tmax)
    return "ends-at-max";
  if (b == tmin)
    return "starts-at-min";
  return "inner";
}

template <class W>
void one_pair(std::string const &e, i128 b, i128 en, std::size_t prefix)
{
  using raw = typename W::raw;
  vf::operands(static_cast<long long>(b), static_cast<long long>(en));
  char const *cls = range_class(b, en, lo<raw>(), hi<raw>());
  vf::count(std::string("int_range/class/") + cls);
  i128 const count = en > b ? en - b : 0;
  auto const r = fcppt::make_int_range(W::make(static_cast<raw>(b)), W::make(static_cast<raw>(en)));
  judge_int_range<W>(e, r, b, count, cls, prefix);
}

// every (b,e) of an 8 bit type
template <class W>
void int_range_exhaustive()
{
  using raw = typename W::raw;
  static_assert(sizeof(raw) == 1);
  std::string const e = "make_int_range<" + W::name() + ">";
  if (!vf::entry_enabled(e))
    return;
  vf::set_entry(e);
  std::uint64_t row = 0;
  for (i128 b = lo<raw>(); b <= hi<raw>(); ++b, ++row)
  {
    if (!vf::mine(row))
      continue;
    if (!vf::begin_case("b=%d e=all 256 values (e is the second operand)", static_cast<int>(b)))
      continue;
    vf::sample_case(1);
    vf::add_evals(255);
    vf::note_distinct(vf::hash_mix(vf::hash_str(e), h128(b)));
    for (i128 en = lo<raw>(); en <= hi<raw>(); ++en)
      one_pair<W>(e, b, en, 256);
    VF_COUNT("int_range/exhaustive-rows");
  }
}

template <class T>
std::vector<i128> lattice()
{
  std::vector<i128> r;
  auto add = [&](i128 v) {
    if (fits<T>(v))
      r.push_back(v);
  };
  for (int d = 0; d <= 3; ++d)
  {
    add(lo<T>() + d);
    add(hi<T>() - d);
  }
  for (int v = -3; v <= 3; ++v)
    add(v);
  for (int k : {7, 8, 15, 16, 31, 32, 63})
    for (int d = -1; d <= 1; ++d)
    {
      add((static_cast<i128>(1) << k) + d);
      add(-(static_cast<i128>(1) << k) + d);
    }
  std::sort(r.begin(), r.end());
  r.erase(std::unique(r.begin(), r.end()), r.end());
  return r;
}

// boundary pairs and random short spans of a wider type
template <class W>
void int_range_boundary()
{
  using raw = typename W::raw;
  std::string const e = "make_int_range<" + W::name() + ">";
  if (!vf::entry_enabled(e))
    return;
  vf::set_entry(e);
  std::size_t const prefix = vf::tier<std::size_t>(40, 300);
  std::vector<std::pair<i128, i128>> pairs;
  auto const lat = lattice<raw>();
  for (i128 b : lat)
    for (i128 en : lat)
      pairs.emplace_back(b, en);
  {
    // the generator must not depend on the partition: every partition sees the same list and takes its share
    std::uint64_t s = vf::hash_mix(vf::hash_mix(vf::opts().seed, vf::hash_str(e)), 0x18);
    vf::rng g(s);
    std::size_t const n = vf::tier<std::size_t>(4000, 300000);
    i128 const span = static_cast<i128>(prefix) + 8;
    while (pairs.size() < lat.size() * lat.size() + n)
    {
      i128 b = g.chance(3, 4) ? g.pick(lat) + g.range(-static_cast<long long>(span), static_cast<long long>(span))
                              : static_cast<i128>(static_cast<raw>(g.next()));
      i128 en = b + g.range(-static_cast<long long>(span), static_cast<long long>(span));
      if (g.chance(1, 16))
        en = static_cast<i128>(static_cast<raw>(g.next()));
      if (fits<raw>(b) && fits<raw>(en))
        pairs.emplace_back(b, en);
    }
  }
  if (vf::thorough() && sizeof(raw) == 2)
  {
    // every begin value of a 16 bit type with the ends next to it and at the limits of the type
    for (i128 b = lo<raw>(); b <= hi<raw>(); ++b)
      for (i128 en : {b - 1, b, b + 1, b + 3, lo<raw>(), hi<raw>()})
        if (fits<raw>(en))
          pairs.emplace_back(b, en);
  }
  std::size_t const chunk = 64;
  for (std::size_t c = 0, ci = 0; c < pairs.size(); c += chunk, ++ci)
  {
    if (!vf::mine(ci))
      continue;
    std::size_t const end = std::min(pairs.size(), c + chunk);
    if (!vf::begin_case("chunk=%zu pairs=%zu first=(%s,%s) prefix=%zu", ci, end - c, s128(pairs[c].first).c_str(),
                        s128(pairs[c].second).c_str(), prefix))
      continue;
    vf::sample_case(1);
    vf::add_evals(end - c - 1);
    std::uint64_t h = vf::hash_str(e);
    for (std::size_t i = c; i < end; ++i)
      h = vf::hash_mix(h, vf::hash_mix(h128(pairs[i].first), h128(pairs[i].second)));
    vf::note_distinct(h);
    for (std::size_t i = c; i < end; ++i)
      one_pair<W>(e, pairs[i].first, pairs[i].second, prefix);
  }
}

template <class W>
void int_range_count()
{
  using raw = typename W::raw;
  std::string const e = "make_int_range_count<" + W::name() + ">";
  if (!vf::entry_enabled(e))
    return;
  vf::set_entry(e);
  std::size_t const prefix = sizeof(raw) == 1 ? 256 : vf::tier<std::size_t>(40, 300);
  std::vector<i128> ns;
  if constexpr (sizeof(raw) == 1)
    for (i128 n = lo<raw>(); n <= hi<raw>(); ++n)
      ns.push_back(n);
  else
  {
    ns = lattice<raw>();
    for (i128 n = -static_cast<i128>(prefix) - 2; n <= static_cast<i128>(prefix) + 2; ++n)
      if (fits<raw>(n))
        ns.push_back(n);
    vf::rng g(vf::hash_mix(vf::hash_mix(vf::opts().seed, vf::hash_str(e)), 0x19));
    for (int i = 0; i < 200; ++i)
      ns.push_back(static_cast<i128>(static_cast<raw>(g.next() >> g.below(sizeof(raw) * 8))));
  }
  std::size_t const chunk = 16;
  for (std::size_t c = 0, ci = 0; c < ns.size(); c += chunk, ++ci)
  {
    if (!vf::mine(ci))
      continue;
    std::size_t const end = std::min(ns.size(), c + chunk);
    if (!vf::begin_case("chunk=%zu counts=%zu first n=%s prefix=%zu", ci, end - c, s128(ns[c]).c_str(), prefix))
      continue;
    vf::sample_case(1);
    vf::add_evals(end - c - 1);
    std::uint64_t h = vf::hash_str(e);
    for (std::size_t i = c; i < end; ++i)
      h = vf::hash_mix(h, h128(ns[i]));
    vf::note_distinct(h);
    for (std::size_t i = c; i < end; ++i)
    {
      i128 const n = ns[i];
      vf::operands(static_cast<long long>(n));
      char const *cls = n < 0 ? "negative-count" : n == 0 ? "zero-count" : n == hi<raw>() ? "max-count" : "positive-count";
      vf::count(std::string("int_range_count/class/") + cls);
      auto const r = fcppt::make_int_range_count(W::make(static_cast<raw>(n)));
      judge_int_range<W>(e, r, 0, n > 0 ? n : 0, cls, prefix);
    }
  }
}

// ------------------------------------------------------------------ B: enum ranges
// scoped enums with a fixed underlying type: every value of the underlying type is a valid enum value,
// the enumerators are first = 0 .. fcppt_maximum = N-1 (contiguous, as fcppt.enum requires)
template <class U, unsigned N>
struct scoped_enum
{
  enum class type : U
  {
    first = 0,
    fcppt_maximum = N - 1
  };
};
// an enum that fills uint8_t AND says so: fcppt::enum_::size_type_impl is specialised to a wider counting type, so that
// size<E> = 256 and the whole range are representable (the customisation point a user of such an enum would reach for)
enum class wide256 : std::uint8_t
{
  first = 0,
  fcppt_maximum = 255
};
}
namespace fcppt::enum_
{
template <>
struct size_type_impl<wide256>
{
  using type = unsigned;
};
}
namespace
{
// plain enums with named enumerators (no fixed underlying type: -fsanitize=enum guards the value range)
struct named1 { enum type { a, fcppt_maximum = a }; };
struct named2 { enum type { a, b, fcppt_maximum = b }; };
struct named3 { enum type { a, b, c, fcppt_maximum = c }; };
struct named4 { enum type { a, b, c, d, fcppt_maximum = d }; };
struct named5 { enum type { a, b, c, d, e, fcppt_maximum = e }; };
struct named6 { enum type { a, b, c, d, e, f, fcppt_maximum = f }; };
struct named7 { enum type { a, b, c, d, e, f, g, fcppt_maximum = g }; };
struct named8 { enum type { a, b, c, d, e, f, g, h, fcppt_maximum = h }; };
struct named9 { enum type { a, b, c, d, e, f, g, h, i, fcppt_maximum = i }; };
enum class named_class3
{
  x,
  y,
  z,
  fcppt_maximum = z
};

std::uint64_t enum_type_counter = 0;

// pts: the start / end values to combine (empty: all of 0 .. N-1)
template <class E, unsigned N>
void enum_ranges(std::string const &ename, std::vector<unsigned> pts = {})
{
  if (pts.empty())
    for (unsigned q = 0; q < N; ++q)
      pts.push_back(q);
  std::string const e = "enum_range<" + ename + ">";
  std::uint64_t const my_index = enum_type_counter++;
  if (!vf::entry_enabled(e))
    return;
  vf::set_entry(e);
  if (!vf::mine(my_index))
    return;
  if (!vf::begin_case("%u enumerators: all closed sub-ranges [s,e], all make_range_start(s), make_range()", N))
    return;
  vf::sample_case(1);
  auto conv = [](E v) { return static_cast<i128>(static_cast<std::underlying_type_t<E>>(v)); };
  auto const all_walks = {walk::preinc, walk::postinc, walk::rangefor};
  unsigned evals = 0;
  for (unsigned const s : pts)
  {
    for (unsigned const en : pts)
    {
      if (en < s)
        continue;
      vf::operands(s, en);
      ++evals;
      vf::note_distinct(vf::hash_mix(vf::hash_str(e), s * 1024 + en));
      // An enum that fills its underlying type has one enumerator more than its size_type can count (fcppt::enum_::size<E>
      // itself is 0 then): the half-open pair (begin, end) cannot tell its WHOLE range from the empty one.  Following the
      // statement's side condition for sizes, sub-ranges are judged when their enumerator count is representable.
      using enum_size_type = decltype(std::declval<fcppt::enum_::range<E> const &>().size());
      if (static_cast<i128>(en) - s + 1 > static_cast<i128>(std::numeric_limits<enum_size_type>::max()))
      {
        VF_COUNT("enum_range/observed/count-not-representable-in-size_type(not judged)");
        continue;
      }
      fcppt::enum_::range<E> const r = fcppt::enum_::make_range_start_end(static_cast<E>(s), static_cast<E>(en));
      char const *cls = s == en ? "single" : (s == 0 && en == N - 1) ? "whole" : en == N - 1 ? "ends-at-max" : "inner";
      vf::count(std::string("enum_range/class/") + cls);
      for (walk w : all_walks)
        judge_arith_sequence(e + "/make_range_start_end/sequence/" + cls, w, r, s, static_cast<i128>(en) - s + 1, 16, conv);
      // size() of an enum range: the statement spells the size clause out for integer ranges; for an enum range the number
      // of enumerators of a closed sub-range always fits, and "the value of size()" is what the property observes - judged
      // (an enum that fills its underlying type: the whole range has one enumerator more than size()'s type can hold)
      // (size() is not CALLED for an enum that fills its underlying type: an implementation may compute it from
      // fcppt::enum_::size<E>, which does not exist for such an enum - a harness that does not compile decides nothing)
      if constexpr (static_cast<i128>(N) > static_cast<i128>(std::numeric_limits<enum_size_type>::max()))
        VF_COUNT("enum_range/size/full-width-enum-not-judged");
      else
      {
        VF_COUNT("enum_range/size/judged");
        if (static_cast<i128>(r.size()) != static_cast<i128>(en) - s + 1)
          vf::violation(e + "/make_range_start_end/size/" + cls, "mismatch",
                      "size() of [" + std::to_string(s) + "," + std::to_string(en) + "] is " + s128(static_cast<i128>(r.size())) + ", the range enumerates " +
                          std::to_string(en - s + 1) + " enumerators");
      }
    }
    if (static_cast<i128>(N) - s <= static_cast<i128>(std::numeric_limits<decltype(std::declval<fcppt::enum_::range<E> const &>().size())>::max()))
    {
      vf::operands(s, N - 1, 1);
      ++evals;
      fcppt::enum_::range<E> const r = fcppt::enum_::make_range_start(static_cast<E>(s));
      VF_COUNT("enum_range/make_range_start");
      for (walk w : all_walks)
        judge_arith_sequence(e + "/make_range_start/sequence", w, r, s, static_cast<i128>(N) - s, 16, conv);
      if constexpr (static_cast<i128>(N) <= static_cast<i128>(std::numeric_limits<decltype(r.size())>::max()))
        if (static_cast<i128>(r.size()) != static_cast<i128>(N) - s)
          vf::violation(e + "/make_range_start/size", "mismatch", "size() is " + s128(static_cast<i128>(r.size())) + " for " + std::to_string(N - s) + " enumerators");
    }
    if (s > 0)
    {
      // observed: [s, s-1] is not a closed sub-range; by the arithmetic of the constructor it is empty
      VF_COUNT("enum_range/observed-empty[s,s-1]");
      fcppt::enum_::range<E> const r = fcppt::enum_::make_range_start_end(static_cast<E>(s), static_cast<E>(s - 1));
      std::vector<i128> out;
      if (!collect(walk::preinc, r, 4, out, conv) || !out.empty())
        vf::observation("enum range [s,s-1] over " + ename + " is not empty (observed only)");
    }
  }
  if (static_cast<i128>(N) <= static_cast<i128>(std::numeric_limits<decltype(std::declval<fcppt::enum_::range<E> const &>().size())>::max()))
  {
    vf::operands(0, N - 1, 2);
    ++evals;
    fcppt::enum_::range<E> const r = fcppt::enum_::make_range<E>();
    VF_COUNT("enum_range/make_range");
    for (walk w : all_walks)
      judge_arith_sequence(e + "/make_range/sequence", w, r, 0, N, 16, conv);
  }
  vf::add_evals(evals - 1);
  vf::count("enum_range/enum-types");
}

template <class U>
void enum_ranges_underlying()
{
  std::string const u = tn<U>();
  enum_ranges<typename scoped_enum<U, 1>::type, 1>("scoped<" + u + ",1>");
  enum_ranges<typename scoped_enum<U, 2>::type, 2>("scoped<" + u + ",2>");
  enum_ranges<typename scoped_enum<U, 3>::type, 3>("scoped<" + u + ",3>");
  enum_ranges<typename scoped_enum<U, 4>::type, 4>("scoped<" + u + ",4>");
  enum_ranges<typename scoped_enum<U, 5>::type, 5>("scoped<" + u + ",5>");
  enum_ranges<typename scoped_enum<U, 6>::type, 6>("scoped<" + u + ",6>");
  enum_ranges<typename scoped_enum<U, 7>::type, 7>("scoped<" + u + ",7>");
  enum_ranges<typename scoped_enum<U, 8>::type, 8>("scoped<" + u + ",8>");
  enum_ranges<typename scoped_enum<U, 9>::type, 9>("scoped<" + u + ",9>");
}

#if VF_IN_SLICE(1)
void enum_ranges_all()
{
  enum_ranges_underlying<std::int32_t>();
  enum_ranges_underlying<std::uint8_t>();
  enum_ranges_underlying<std::int8_t>();
  enum_ranges_underlying<std::uint16_t>();
  enum_ranges_underlying<std::uint32_t>();
  enum_ranges_underlying<std::int64_t>();
  enum_ranges_underlying<std::uint64_t>();
  enum_ranges<named1::type, 1>("named1");
  enum_ranges<named2::type, 2>("named2");
  enum_ranges<named3::type, 3>("named3");
  enum_ranges<named4::type, 4>("named4");
  enum_ranges<named5::type, 5>("named5");
  enum_ranges<named6::type, 6>("named6");
  enum_ranges<named7::type, 7>("named7");
  enum_ranges<named8::type, 8>("named8");
  enum_ranges<named9::type, 9>("named9");
  enum_ranges<named_class3, 3>("named_class3");
  // enums that use the FULL width of their underlying type: the exclusive end of a sub-range that ends at the maximum
  // is not a value of the type (it wraps to 0)
  std::vector<unsigned> const pts8{0, 1, 2, 127, 128, 129, 250, 253, 254, 255};
  enum_ranges<typename scoped_enum<std::uint8_t, 256>::type, 256>("scoped<u8,256>(full width)", pts8);
  enum_ranges<wide256, 256>("wide256(u8, size_type_impl -> unsigned)", pts8);
  std::vector<unsigned> const pts7{0, 1, 2, 63, 64, 120, 125, 126, 127};
  enum_ranges<typename scoped_enum<std::int8_t, 128>::type, 128>("scoped<i8,128>(full positive width)", pts7);
  std::vector<unsigned> const pts16{0, 1, 255, 256, 32767, 32768, 65530, 65534, 65535};
  enum_ranges<typename scoped_enum<std::uint16_t, 65536>::type, 65536>("scoped<u16,65536>(full width)", pts16);
}
#endif

// ------------------------------------------------------------------ C: cyclic iterator
long floor_mod(long a, long m)
{
  long r = a % m;
  return r < 0 ? r + m : r;
}

std::vector<long> step_counts()
{
  std::vector<long> ns;
  long const w = vf::tier<long>(24, 120);
  for (long n = -w; n <= w; ++n)
    ns.push_back(n);
  for (long n : {60L, 64L, 100L, 120L, 300L, 720L, 1000L, 1001L, 4096L})
  {
    ns.push_back(n);
    ns.push_back(-n);
  }
  return ns;
}

std::uint64_t cyclic_case_counter = 0;

// position of a raw iterator inside the storage (index from storage.begin()), -1 if it is not a position of it
template <class Storage, class It>
long position_in(Storage &st, It const &it)
{
  long i = 0;
  for (auto c = st.begin();; ++c, ++i)
  {
    if (c == it)
      return i;
    if (c == st.end())
      return -1;
  }
}

// Random access: Storage is any container with random access iterators (or an array wrapper), It the raw iterator type
template <class It, class Storage>
void cyclic_random_access(std::string const &kind, Storage &st_, unsigned pad_lo, unsigned len)
{
  using cyc = fcppt::cyclic_iterator<It>;
  std::string const e = "cyclic_iterator<" + kind + ">";
  if (!vf::entry_enabled(e))
    return;
  vf::set_entry(e);
  It const sb = st_.begin();
  It const first = sb + pad_lo;
  It const second = first + len;
  long const total = static_cast<long>(st_.end() - st_.begin());
  static std::vector<long> const ns = step_counts();
  for (unsigned start = 0; start < len; ++start)
  {
    std::uint64_t const my_index = cyclic_case_counter++;
    if (!vf::mine(my_index))
      continue;
    if (!vf::begin_case("len=%u pad_lo=%u storage=%ld start=%u n in [%ld..%ld]+multiples (%zu values)", len, pad_lo, total, start,
                        ns.front(), ns[ns.size() - 19], ns.size()))
      continue;
    vf::sample_case(1);
    vf::add_evals(ns.size() - 1);
    vf::note_distinct(vf::hash_mix(vf::hash_str(e), (len * 16 + pad_lo) * 16 + start));
    typename cyc::boundary const bd{first, second};
    cyc const origin(first + start, bd);
    auto pos_of = [&](cyc const &c) { return static_cast<long>(c.get() - first); };
    auto inside = [&](cyc const &c) {
      long const p = pos_of(c);
      return p >= 0 && p < static_cast<long>(len);
    };
    auto boundary_intact = [&](cyc const &c) {
      return fcppt::tuple::get<0>(c.get_boundary()) == first && fcppt::tuple::get<1>(c.get_boundary()) == second;
    };
    for (long n : ns)
    {
      vf::operands(n, start, len);
      long const want = floor_mod(static_cast<long>(start) + n, static_cast<long>(len));
      // reference: |n| single steps, each judged against the documented wrap-around
      cyc ref(origin);
      bool ref_ok = true;
      for (long k = 1; k <= (n < 0 ? -n : n) && ref_ok; ++k)
      {
        if (n > 0)
          ++ref;
        else
          --ref;
        VF_COUNT("cyclic/single-steps");
        long const w = floor_mod(static_cast<long>(start) + (n > 0 ? k : -k), static_cast<long>(len));
        if (w == 0 && n > 0)
          VF_COUNT("cyclic/step-wraps-forward");
        if (w == static_cast<long>(len) - 1 && n < 0)
          VF_COUNT("cyclic/step-wraps-backward");
        if (!inside(ref))
        {
          vf::violation(e + (n > 0 ? "/increment/left-boundary" : "/decrement/left-boundary"), "mismatch",
                        "after " + std::to_string(k) + " steps position " + std::to_string(pos_of(ref)) + " not in [0," +
                            std::to_string(len) + ")");
          ref_ok = false;
        }
        else if (pos_of(ref) != w)
        {
          vf::violation(e + (n > 0 ? "/increment/wrong-position" : "/decrement/wrong-position"), "mismatch",
                        "after " + std::to_string(k) + " steps position " + std::to_string(pos_of(ref)) + " want " + std::to_string(w));
          ref_ok = false;
        }
      }
      if (!ref_ok)
        continue;
      if (!boundary_intact(ref))
        vf::violation(e + "/steps/boundary-changed", "mismatch", "n=" + std::to_string(n));
      auto judge = [&](char const *op, cyc const &got) {
        VF_COUNT("cyclic/advance-forms-judged");
        if (!inside(got))
          vf::violation(e + "/" + op + "/left-boundary", "mismatch",
                        "n=" + std::to_string(n) + " start=" + std::to_string(start) + " len=" + std::to_string(len) +
                            " position " + std::to_string(pos_of(got)) + " not in [0," + std::to_string(len) + ")");
        else if (pos_of(got) != pos_of(ref) || pos_of(got) != want)
          vf::violation(e + "/" + op + "/differs-from-single-steps", "mismatch",
                        "n=" + std::to_string(n) + " start=" + std::to_string(start) + " len=" + std::to_string(len) +
                            " position " + std::to_string(pos_of(got)) + " single steps give " + std::to_string(pos_of(ref)));
        else
        {
          if (!(got == ref) || got != ref)
            vf::violation(e + "/" + op + "/not-equal-to-stepped-iterator", "mismatch", "n=" + std::to_string(n));
          if (&*got != &*ref)
            vf::violation(e + "/" + op + "/dereference", "mismatch", "n=" + std::to_string(n));
        }
        if (!boundary_intact(got))
          vf::violation(e + "/" + op + "/boundary-changed", "mismatch", "n=" + std::to_string(n));
      };
      if (n < 0)
        VF_COUNT("cyclic/n-negative");
      else if (n > 0)
        VF_COUNT("cyclic/n-positive");
      else
        VF_COUNT("cyclic/n-zero");
      if ((n < 0 ? -n : n) >= static_cast<long>(len))
        VF_COUNT("cyclic/n-at-least-one-lap");
      if (want == 0 && n != 0)
        VF_COUNT("cyclic/lands-on-first");
      using diff = typename cyc::difference_type;
      {
        cyc a(origin);
        a.advance(static_cast<diff>(n));
        judge("advance", a);
      }
      {
        cyc a(origin);
        cyc &res = (a += static_cast<diff>(n));
        judge("operator+=", a);
        if (&res != &a)
          vf::violation(e + "/operator+=/result-not-self", "mismatch", "");
      }
      judge("operator+", origin + static_cast<diff>(n));
      judge("n+iterator", static_cast<diff>(n) + origin);
      {
        cyc a(origin);
        a -= static_cast<diff>(-n);
        judge("operator-=", a);
      }
      judge("operator-", origin - static_cast<diff>(-n));
      {
        // operator[]: the element n steps away
        auto &el = origin[static_cast<diff>(n)];
        if (&el != &*(first + want))
          vf::violation(e + "/operator[]/wrong-element", "mismatch", "n=" + std::to_string(n));
      }
      // observed: difference and ordering are not named by the statement
      {
        VF_COUNT("cyclic/observed/difference-and-order");
        cyc const other = ref;
        auto const d = other - origin;
        if (static_cast<long>(d) != pos_of(other) - pos_of(origin))
          vf::observation("cyclic_iterator difference is not the difference of positions (observed only)");
        bool const lt = origin < other;
        if (lt != (pos_of(origin) < pos_of(other)))
          vf::observation("cyclic_iterator operator< is not the order of positions (observed only)");
      }
    }
    // post-increment / post-decrement: value before, one step after
    {
      cyc a(origin);
      cyc const old = a++;
      if (!(old == origin))
        vf::violation(e + "/post-increment/returns-not-old", "mismatch", "");
      cyc b(origin);
      ++b;
      if (!inside(a) || pos_of(a) != pos_of(b))
        vf::violation(e + "/post-increment/not-one-step", "mismatch", "");
      cyc c(origin);
      cyc const old2 = c--;
      if (!(old2 == origin))
        vf::violation(e + "/post-decrement/returns-not-old", "mismatch", "");
      cyc d(origin);
      --d;
      if (!inside(c) || pos_of(c) != pos_of(d))
        vf::violation(e + "/post-decrement/not-one-step", "mismatch", "");
      VF_COUNT("cyclic/post-inc-dec");
    }
    // a full lap visits every element of the boundary exactly once (in order) and nothing else
    {
      cyc a(origin);
      bool ok = true;
      for (unsigned k = 0; k < len && ok; ++k)
      {
        if (!inside(a) || pos_of(a) != floor_mod(static_cast<long>(start) + k, len))
        {
          vf::violation(e + "/lap/wrong-element", "mismatch", "k=" + std::to_string(k));
          ok = false;
        }
        ++a;
      }
      if (ok && !(a == origin))
        vf::violation(e + "/lap/does-not-return", "mismatch", "");
      VF_COUNT("cyclic/laps");
    }
  }
}

// bidirectional / forward containers: single steps only (advance needs random access)
template <class Storage>
void cyclic_steps_only(std::string const &kind, unsigned pad_lo, unsigned len, unsigned pad_hi, bool backward)
{
  using It = typename Storage::iterator;
  using cyc = fcppt::cyclic_iterator<It>;
  std::string const e = "cyclic_iterator<" + kind + ">";
  if (!vf::entry_enabled(e))
    return;
  vf::set_entry(e);
  Storage st_;
  {
    std::vector<int> v;
    for (unsigned i = 0; i < pad_lo + len + pad_hi; ++i)
      v.push_back(100 + static_cast<int>(i));
    st_ = Storage(v.begin(), v.end());
  }
  It const first = std::next(st_.begin(), pad_lo);
  It const second = std::next(first, len);
  long const steps = vf::tier<long>(20, 50);
  for (unsigned start = 0; start < len; ++start)
  {
    std::uint64_t const my_index = cyclic_case_counter++;
    if (!vf::mine(my_index))
      continue;
    if (!vf::begin_case("len=%u pad_lo=%u pad_hi=%u start=%u steps=%ld forward%s", len, pad_lo, pad_hi, start, steps,
                        backward ? " and backward" : ""))
      continue;
    vf::sample_case(1);
    vf::note_distinct(vf::hash_mix(vf::hash_str(e), ((len * 16 + pad_lo) * 16 + pad_hi) * 16 + start));
    typename cyc::boundary const bd{first, second};
    cyc const origin(std::next(first, start), bd);
    // equality of two cyclic iterators over the same boundary: equal exactly when they denote the same element - in
    // particular against an iterator that lies BEFORE this one (the full-cycle loop  do ++it; while (it != start);)
    for (unsigned other = 0; other < len; ++other)
    {
      cyc const o(std::next(first, other), bd);
      VF_COUNT("cyclic/equality-comparisons");
      if ((origin == o) != (other == start) || (origin != o) == (other == start))
        vf::violation(e + "/equality", "mismatch", "positions " + std::to_string(start) + " and " + std::to_string(other) + " of " + std::to_string(len));
    }
    {
      cyc it(origin);
      unsigned laps = 0;
      do
      {
        ++it;
        ++laps;
      } while (it != origin && laps <= len + 2);
      if (laps != len)
        vf::violation(e + "/full-cycle-loop", "mismatch", "the loop do ++it; while (it != start); ran " + std::to_string(laps) + " steps over " + std::to_string(len) + " elements");
    }
    for (int dir = 1; dir >= (backward ? -1 : 1); dir -= 2)
    {
      cyc a(origin);
      for (long k = 1; k <= steps; ++k)
      {
        vf::operands(dir * k, start, len);
        if (dir > 0)
          ++a;
        else if constexpr (std::is_base_of_v<std::bidirectional_iterator_tag,
                                             typename std::iterator_traits<It>::iterator_category>)
          --a;
        VF_COUNT("cyclic/single-steps");
        long const p = position_in(st_, a.get()) - static_cast<long>(pad_lo);
        long const w = floor_mod(static_cast<long>(start) + dir * k, static_cast<long>(len));
        std::string const op = dir > 0 ? "/increment" : "/decrement";
        if (p < 0 || p >= static_cast<long>(len))
        {
          vf::violation(e + op + "/left-boundary", "mismatch",
                        "after " + std::to_string(k) + " steps position " + std::to_string(p) + " not in [0," + std::to_string(len) + ")");
          break;
        }
        if (p != w)
        {
          vf::violation(e + op + "/wrong-position", "mismatch",
                        "after " + std::to_string(k) + " steps position " + std::to_string(p) + " want " + std::to_string(w));
          break;
        }
        if (*a != 100 + static_cast<int>(pad_lo) + static_cast<int>(w))
          vf::violation(e + op + "/dereference", "mismatch", "");
      }
    }
  }
}

struct int_array
{
  int data[16];
  using iterator = int *;
  int *begin() { return data; }
  int *end() { return data + 16; }
};

// A user-supplied bidirectional iterator whose ++ / -- throw (before moving) when an armed countdown reaches zero.
// "A cyclic iterator ... always stays inside its boundary": also when a step of the underlying iterator fails, the
// cyclic iterator that is left behind denotes an element of [first, second) and keeps cycling from there.
struct step_fault
{
};
long g_step_countdown = -1;
struct faulty_it
{
  using iterator_category = std::bidirectional_iterator_tag;
  using value_type = int;
  using difference_type = std::ptrdiff_t;
  using pointer = int *;
  using reference = int &;
  int *p = nullptr;
  static void tick()
  {
    if (g_step_countdown == 0)
    {
      g_step_countdown = -1;
      throw step_fault{};
    }
    if (g_step_countdown > 0)
      --g_step_countdown;
  }
  int &operator*() const { return *p; }
  int *operator->() const { return p; }
  faulty_it &operator++()
  {
    tick();
    ++p;
    return *this;
  }
  faulty_it operator++(int)
  {
    faulty_it r(*this);
    ++*this;
    return r;
  }
  faulty_it &operator--()
  {
    tick();
    --p;
    return *this;
  }
  faulty_it operator--(int)
  {
    faulty_it r(*this);
    --*this;
    return r;
  }
  friend bool operator==(faulty_it const &a, faulty_it const &b) { return a.p == b.p; }
  friend bool operator!=(faulty_it const &a, faulty_it const &b) { return a.p != b.p; }
};

void cyclic_faulty_steps()
{
  using cyc = fcppt::cyclic_iterator<faulty_it>;
  std::string const e = "cyclic_iterator<throwing-iterator>";
  if (!vf::entry_enabled(e))
    return;
  vf::set_entry(e);
  int storage[12];
  for (int i = 0; i < 12; ++i)
    storage[i] = 100 + i;
  for (unsigned len = 1; len <= 4; ++len)
    for (unsigned pad_lo = 0; pad_lo <= 2; ++pad_lo)
      for (unsigned start = 0; start < len; ++start)
      {
        std::uint64_t const my_index = cyclic_case_counter++;
        if (!vf::mine(my_index))
          continue;
        if (!vf::begin_case("len=%u pad_lo=%u start=%u: every direction pattern of 5 steps, the underlying step throws at every point", len, pad_lo, start))
          continue;
        vf::sample_case(1);
        vf::note_distinct(vf::hash_mix(vf::hash_str(e), (len * 16 + pad_lo) * 16 + start));
        faulty_it const first{storage + pad_lo}, second{storage + pad_lo + len};
        for (unsigned pattern = 0; pattern < 32; ++pattern)
          for (long fault = 0; fault < 8; ++fault)
          {
            vf::operands(pattern, fault, start);
            vf::add_evals(1);
            cyc a(faulty_it{storage + pad_lo + start}, typename cyc::boundary{first, second});
            long model = static_cast<long>(start);
            g_step_countdown = fault;
            bool faulted = false;
            for (unsigned k = 0; k < 5; ++k)
            {
              bool const fwd = ((pattern >> k) & 1U) != 0;
              bool thrown = false;
              try
              {
                if (fwd)
                  ++a;
                else
                  --a;
              }
              catch (step_fault const &)
              {
                thrown = true;
                faulted = true;
                VF_COUNT("cyclic/underlying-step-threw");
              }
              long const p = static_cast<long>(a.get().p - storage) - static_cast<long>(pad_lo);
              if (p < 0 || p >= static_cast<long>(len))
              {
                vf::violation(e + (thrown ? "/left-boundary-after-failed-step" : "/left-boundary"), "mismatch",
                              std::string(fwd ? "++" : "--") + " as step " + std::to_string(k) + ": position " + std::to_string(p) + " not in [0," + std::to_string(len) + ")");
                break;
              }
              if (thrown)
                model = p; // where a failed step leaves the iterator (inside the boundary) is not prescribed
              else
              {
                model = floor_mod(model + (fwd ? 1 : -1), static_cast<long>(len));
                if (p != model)
                {
                  vf::violation(e + "/wrong-position", "mismatch", "step " + std::to_string(k) + ": position " + std::to_string(p) + " want " + std::to_string(model));
                  break;
                }
              }
              if (*a != 100 + static_cast<int>(pad_lo) + static_cast<int>(p))
                vf::violation(e + "/dereference", "mismatch", "");
            }
            g_step_countdown = -1;
            (void)faulted;
          }
      }
}

#if VF_IN_SLICE(2)
void cyclic_all()
{
  cyclic_faulty_steps();
  for (unsigned len = 1; len <= 6; ++len)
    for (unsigned pads = 0; pads < 3; ++pads)
    {
      unsigned const pad_lo = pads == 0 ? 0 : pads == 1 ? 2 : 3;
      unsigned const pad_hi = pads == 0 ? 0 : pads == 1 ? 3 : 0;
      std::vector<int> v;
      for (unsigned i = 0; i < pad_lo + len + pad_hi; ++i)
        v.push_back(100 + static_cast<int>(i));
      {
        std::vector<int> s(v);
        cyclic_random_access<std::vector<int>::iterator>("vector::iterator", s, pad_lo, len);
      }
      {
        std::vector<int> const s(v);
        cyclic_random_access<std::vector<int>::const_iterator>("vector::const_iterator", s, pad_lo, len);
      }
      {
        std::deque<int> s(v.begin(), v.end());
        cyclic_random_access<std::deque<int>::iterator>("deque::iterator", s, pad_lo, len);
      }
      {
        std::string s;
        for (int c : v)
          s.push_back(static_cast<char>(c));
        cyclic_random_access<std::string::iterator>("string::iterator", s, pad_lo, len);
      }
      if (pads != 0)
      {
        // a boundary inside a fixed size array
        int_array a{};
        for (int i = 0; i < 16; ++i)
          a.data[i] = 100 + i;
        cyclic_random_access<int *>("pointer", a, pad_lo, len);
      }
      cyclic_steps_only<std::list<int>>("list::iterator", pad_lo, len, pad_hi, true);
      cyclic_steps_only<std::forward_list<int>>("forward_list::iterator", pad_lo, len, pad_hi, false);
    }
  {
    // whole std::array as boundary
    std::array<int, 5> a{{1, 2, 3, 4, 5}};
    cyclic_random_access<std::array<int, 5>::iterator>("array<5>::iterator", a, 0, 5);
    std::array<int, 1> b{{1}};
    cyclic_random_access<std::array<int, 1>::iterator>("array<1>::iterator", b, 0, 1);
  }
}
#endif

// ------------------------------------------------------------------ D: spiral range
template <class T>
void spiral(std::string const &tname)
{
  using pos = fcppt::container::grid::pos<T, 2>;
  std::string const e = "spiral_range<" + tname + ">";
  if (!vf::entry_enabled(e))
    return;
  vf::set_entry(e);
  long const maxd = vf::tier<long>(6, 10);
  i128 const margin = maxd + 3;
  std::vector<std::pair<i128, i128>> origins;
  for (int x = -2; x <= 2; ++x)
    for (int y = -2; y <= 2; ++y)
      origins.emplace_back(x, y);
  for (auto p : std::vector<std::pair<i128, i128>>{{100, -100},
                                                   {-77, 7},
                                                   {hi<T>() - margin, hi<T>() - margin},
                                                   {lo<T>() + margin, lo<T>() + margin},
                                                   {hi<T>() - margin, lo<T>() + margin},
                                                   {lo<T>() + margin, 0}})
    origins.push_back(p);
  {
    vf::rng g(vf::hash_mix(vf::hash_mix(vf::opts().seed, vf::hash_str(e)), 0x20));
    std::size_t const n = vf::tier<std::size_t>(60, 4000);
    for (std::size_t i = 0; i < n; ++i)
    {
      auto coord = [&]() -> i128 {
        i128 v = static_cast<i128>(static_cast<T>(g.next() >> g.below(sizeof(T) * 8 - 1)));
        if (g.chance(1, 2))
          v = -v;
        if (v > hi<T>() - margin)
          v = hi<T>() - margin;
        if (v < lo<T>() + margin)
          v = lo<T>() + margin;
        return v;
      };
      i128 const x = coord();
      origins.emplace_back(x, coord());
    }
  }
  std::uint64_t idx = 0;
  for (auto const &o : origins)
    for (long d = 0; d <= maxd; ++d, ++idx)
    {
      if (!vf::mine(idx))
        continue;
      if (!vf::begin_case("origin=(%s,%s) dist=%ld", s128(o.first).c_str(), s128(o.second).c_str(), d))
        continue;
      vf::sample_case(1);
      vf::note_distinct(vf::hash_mix(vf::hash_mix(vf::hash_str(e), h128(o.first)), vf::hash_mix(h128(o.second), d)));
      vf::count("spiral/dist=" + std::to_string(d));
      if (o.first < 0 || o.second < 0)
        VF_COUNT("spiral/origin-negative");
      std::size_t const want = static_cast<std::size_t>(2 * d * (d + 1) + 1); // points of the Manhattan ball
      pos const origin(static_cast<T>(o.first), static_cast<T>(o.second));
      for (walk w : {walk::preinc, walk::postinc, walk::rangefor})
      {
        auto const r = fcppt::container::grid::make_spiral_range(origin, static_cast<T>(d));
        std::vector<std::pair<i128, i128>> pts;
        bool ended = true;
        std::size_t const cap = want + 1;
        // bounded walk (a defective state machine may never reach end())
        switch (w)
        {
        case walk::preinc:
          for (auto it = r.begin(); it != r.end(); ++it)
          {
            if (pts.size() >= cap)
            {
              ended = false;
              break;
            }
            pts.emplace_back((*it).x(), (*it).y());
          }
          break;
        case walk::postinc:
        {
          auto it = r.begin();
          while (it != r.end())
          {
            if (pts.size() >= cap)
            {
              ended = false;
              break;
            }
            pos const p = *it++;
            pts.emplace_back(p.x(), p.y());
          }
          break;
        }
        case walk::rangefor:
          for (pos const &p : r)
          {
            if (pts.size() >= cap)
            {
              ended = false;
              break;
            }
            pts.emplace_back(p.x(), p.y());
          }
          break;
        }
        std::string const wn = walk_name(w);
        auto show = [&](std::size_t i) { return "#" + std::to_string(i) + "=(" + s128(pts[i].first) + "," + s128(pts[i].second) + ")"; };
        std::set<std::pair<i128, i128>> seen;
        i128 prev = 0;
        bool bad = false;
        for (std::size_t i = 0; i < pts.size() && !bad; ++i)
        {
          i128 dx = pts[i].first - o.first, dy = pts[i].second - o.second;
          i128 const md = (dx < 0 ? -dx : dx) + (dy < 0 ? -dy : dy);
          if (md > d)
          {
            vf::violation(e + "/left-manhattan-ball", "mismatch", wn + ": point " + show(i) + " has distance " + s128(md));
            bad = true;
          }
          else if (md < prev)
          {
            vf::violation(e + "/distance-decreased", "mismatch", wn + ": point " + show(i) + " distance " + s128(md) + " after " + s128(prev));
            bad = true;
          }
          else if (!seen.insert(pts[i]).second)
          {
            vf::violation(e + "/duplicate-point", "mismatch", wn + ": point " + show(i) + " visited twice");
            bad = true;
          }
          prev = md;
        }
        if (bad)
          continue;
        if (!ended || pts.size() > want)
          vf::violation(e + "/too-long", "mismatch", wn + ": more than " + std::to_string(want) + " points");
        else if (seen.size() != want)
          vf::violation(e + "/missing-points", "mismatch",
                        wn + ": " + std::to_string(seen.size()) + " of " + std::to_string(want) + " points visited");
        else if (i128(pts[0].first) != o.first || i128(pts[0].second) != o.second)
          vf::violation(e + "/first-is-not-origin", "mismatch", wn); // implied: ring 0 is the origin alone
        VF_COUNT("spiral/walks");
        static vf::counter c_pts("spiral/points");
        c_pts += pts.size();
      }
    }
}

// ------------------------------------------------------------------ E: neighbours
template <class T>
void neighbours(std::string const &tname)
{
  using pos = fcppt::container::grid::pos<T, 2>;
  std::string const e = "neighbors<" + tname + ">";
  if (!vf::entry_enabled(e))
    return;
  vf::set_entry(e);
  // "No range checking is performed": coordinates whose +-1 is not representable are outside the statement
  std::vector<i128> cs;
  for (i128 v : lattice<T>())
    if (v > lo<T>() && v < hi<T>())
      cs.push_back(v);
  {
    vf::rng g(vf::hash_mix(vf::hash_mix(vf::opts().seed, vf::hash_str(e)), 0x21));
    for (int i = 0; i < vf::tier<int>(10, 60); ++i)
    {
      i128 v = static_cast<i128>(static_cast<T>(g.next()));
      if (v > lo<T>() && v < hi<T>())
        cs.push_back(v);
    }
  }
  std::uint64_t row = 0;
  for (i128 x : cs)
  {
    if (!vf::mine(row++))
      continue;
    if (!vf::begin_case("x=%s y over %zu values", s128(x).c_str(), cs.size()))
      continue;
    vf::sample_case(1);
    vf::add_evals(2 * cs.size() - 1);
    vf::note_distinct(vf::hash_mix(vf::hash_str(e), h128(x)));
    for (i128 y : cs)
    {
      vf::operands(static_cast<long long>(x), static_cast<long long>(y));
      pos const p(static_cast<T>(x), static_cast<T>(y));
      using pt = std::pair<i128, i128>;
      std::vector<pt> want_n{{x - 1, y}, {x + 1, y}, {x, y - 1}, {x, y + 1}};
      std::vector<pt> want_m;
      for (int dx = -1; dx <= 1; ++dx)
        for (int dy = -1; dy <= 1; ++dy)
          if (dx != 0 || dy != 0)
            want_m.emplace_back(x + dx, y + dy);
      std::sort(want_n.begin(), want_n.end());
      std::sort(want_m.begin(), want_m.end());
      auto as_set = [](auto const &arr) {
        std::vector<pt> r;
        for (auto const &q : arr)
          r.emplace_back(q.x(), q.y());
        std::sort(r.begin(), r.end());
        return r;
      };
      auto show = [](std::vector<pt> const &v) {
        std::string r;
        for (auto const &q : v)
          r += "(" + s128(q.first) + "," + s128(q.second) + ")";
        return r;
      };
      auto const n = as_set(fcppt::container::grid::neumann_neighbors(p));
      VF_COUNT("neighbors/neumann");
      if (n != want_n)
        vf::violation("neumann_neighbors<" + tname + ">/elements", "mismatch", "got=" + show(n) + " want=" + show(want_n));
      auto const m = as_set(fcppt::container::grid::moore_neighbors(p));
      VF_COUNT("neighbors/moore");
      if (m != want_m)
        vf::violation("moore_neighbors<" + tname + ">/elements", "mismatch", "got=" + show(m) + " want=" + show(want_m));
    }
  }
}

// ------------------------------------------------------------------ F: iterator::range, make_range, adapt_range
template <class C>
C make_container(unsigned len)
{
  std::vector<int> v;
  for (unsigned i = 0; i < len; ++i)
    v.push_back(50 + static_cast<int>(i));
  return C(v.begin(), v.end());
}

std::uint64_t itrange_case_counter = 0;

// C may be const qualified: then adapt_range is documented (to_iterator_type) to use const_iterator
template <class C>
void iterator_ranges(std::string const &kind)
{
  using plainC = std::remove_const_t<C>;
  using It = std::conditional_t<std::is_const_v<C>, typename plainC::const_iterator, typename plainC::iterator>;
  std::string const e = "iterator_range<" + kind + ">";
  if (!vf::entry_enabled(e))
    return;
  vf::set_entry(e);
  unsigned const maxlen = vf::tier<unsigned>(6, 10);
  for (unsigned len = 0; len <= maxlen; ++len)
  {
    std::uint64_t const my_index = itrange_case_counter++;
    if (!vf::mine(my_index))
      continue;
    if (!vf::begin_case("len=%u: adapt_range, all sub-ranges [i,j) via range{} and make_range", len))
      continue;
    vf::sample_case(1);
    vf::note_distinct(vf::hash_mix(vf::hash_str(e), len));
    plainC storage = make_container<plainC>(len);
    C &c = storage;
    std::vector<void const *> addr;
    for (auto it = c.begin(); it != c.end(); ++it)
      addr.push_back(static_cast<void const *>(&*it));
    auto elements_ok = [&](auto const &r, unsigned i, unsigned j, std::string const &key) {
      std::vector<void const *> got;
      bool ended = true;
      for (auto it = r.begin(); it != r.end(); ++it)
      {
        if (got.size() > j - i)
        {
          ended = false;
          break;
        }
        got.push_back(static_cast<void const *>(&*it));
      }
      std::vector<void const *> const want(addr.begin() + i, addr.begin() + j);
      if (!ended || got != want)
        vf::violation(key + "/elements", "mismatch",
                      "[" + std::to_string(i) + "," + std::to_string(j) + ") of " + std::to_string(len) + ": got " +
                          std::to_string(got.size()) + (ended ? "" : "+") + " elements, want " + std::to_string(want.size()) +
                          (got.size() == want.size() ? " (other elements)" : ""));
      // range-for as well
      std::size_t k = 0;
      bool same = true;
      for (auto const &el : r)
      {
        if (k >= want.size() || static_cast<void const *>(&el) != want[k])
        {
          same = false;
          break;
        }
        ++k;
      }
      if (!same || k != want.size())
        vf::violation(key + "/elements", "mismatch", "range-for over [" + std::to_string(i) + "," + std::to_string(j) + ")");
    };
    {
      vf::operands(len);
      auto const r = fcppt::iterator::adapt_range(c);
      static_assert(std::is_same_v<std::remove_cv_t<decltype(r)>, fcppt::iterator::range<It>>);
      VF_COUNT("iterator_range/adapt_range");
      if (!(r.begin() == c.begin()) || !(r.end() == c.end()))
        vf::violation("adapt_range<" + kind + ">/begin-end", "mismatch", "len=" + std::to_string(len));
      else
        elements_ok(r, 0, len, "adapt_range<" + kind + ">");
    }
    for (unsigned i = 0; i <= len; ++i)
      for (unsigned j = i; j <= len; ++j)
      {
        vf::operands(len, i, j);
        vf::add_evals(2);
        It const b = std::next(c.begin(), i);
        It const en = std::next(c.begin(), j);
        fcppt::iterator::range<It> const r1(b, en);
        VF_COUNT("iterator_range/range-ctor");
        if (!(r1.begin() == b) || !(r1.end() == en))
          vf::violation("iterator::range<" + kind + ">/begin-end", "mismatch", "");
        else
          elements_ok(r1, i, j, "iterator::range<" + kind + ">");
        auto const r2 = fcppt::iterator::make_range(b, en);
        VF_COUNT("iterator_range/make_range");
        if (!(r2.begin() == b) || !(r2.end() == en))
          vf::violation("iterator::make_range<" + kind + ">/begin-end", "mismatch", "");
        else
          elements_ok(r2, i, j, "iterator::make_range<" + kind + ">");
        if (i == j)
          VF_COUNT("iterator_range/empty-subrange");
        // two ranges denote the same elements exactly when their begins AND their ends agree (range_comparison.hpp):
        // against every other sub-range [p,q) of the same container
        for (unsigned p = 0; p <= len; ++p)
          for (unsigned q = p; q <= len; ++q)
          {
            fcppt::iterator::range<It> const other(std::next(c.begin(), p), std::next(c.begin(), q));
            bool const same = p == i && q == j;
            VF_COUNT("iterator_range/comparisons");
            if ((r1 == other) != same || (r1 != other) == same)
              vf::violation("iterator::range<" + kind + ">/comparison", "mismatch",
                            "[" + std::to_string(i) + "," + std::to_string(j) + ") against [" + std::to_string(p) + "," + std::to_string(q) + "): == gives " +
                                ((r1 == other) ? "true" : "false"));
          }
      }
  }
}

#if VF_IN_SLICE(2)
// adapt_range over a range that yields values (int_range): compare the values
void adapt_int_range()
{
  std::string const e = "adapt_range<int_range<i32>>";
  if (!vf::entry_enabled(e) || !vf::mine(itrange_case_counter++))
    return;
  vf::set_entry(e);
  if (!vf::begin_case("b in [-3,3], e in [-3,5], const and non-const"))
    return;
  vf::note_distinct(vf::hash_str(e));
  auto conv = [](int v) { return static_cast<i128>(v); };
  for (int b = -3; b <= 3; ++b)
    for (int en = -3; en <= 5; ++en)
    {
      vf::operands(b, en);
      vf::add_evals(2);
      fcppt::int_range<int> ir = fcppt::make_int_range(b, en);
      fcppt::int_range<int> const cir = ir;
      auto const r = fcppt::iterator::adapt_range(ir);
      auto const cr = fcppt::iterator::adapt_range(cir);
      VF_COUNT("iterator_range/adapt_range");
      judge_arith_sequence(e + "/sequence", walk::preinc, r, b, en > b ? en - b : 0, 16, conv);
      judge_arith_sequence(e + "/sequence", walk::rangefor, cr, b, en > b ? en - b : 0, 16, conv);
    }
}

// ------------------------------------------------------------------ G: observed only
// a user-defined random access iterator built on iterator::base, compared with the iterator it wraps
class wrapped_iterator;
using wrapped_base =
    fcppt::iterator::base<fcppt::iterator::types_from<wrapped_iterator, std::vector<int>::iterator>>;
class wrapped_iterator : public wrapped_base
{
public:
  using impl_type = std::vector<int>::iterator;
  using reference = wrapped_base::reference;
  using difference_type = wrapped_base::difference_type;
  wrapped_iterator() : impl_{} {}
  explicit wrapped_iterator(impl_type const i) : impl_{i} {}
  [[nodiscard]] reference dereference() const { return *impl_; }
  void increment() { ++impl_; }
  void decrement() { --impl_; }
  [[nodiscard]] bool equal(wrapped_iterator const &o) const { return impl_ == o.impl_; }
  void advance(difference_type const d) { impl_ += d; }
  [[nodiscard]] difference_type distance_to(wrapped_iterator const &o) const { return o.impl_ - impl_; }
  impl_type impl_;
};

void observed()
{
  std::string const e = "observed";
  if (!vf::entry_enabled(e) || !vf::mine(3))
    return;
  vf::set_entry(e);
  if (vf::begin_case("iterator::base operator set through a wrapped vector<int>::iterator, lengths 0..7"))
  {
    unsigned surprises = 0, n = 0;
    auto expect = [&](bool ok, char const *what) {
      ++n;
      if (!ok)
      {
        ++surprises;
        vf::violation(std::string("iterator::base/") + what, "mismatch", std::string("iterator::base: ") + what + " disagrees with the wrapped iterator");
      }
    };
    for (unsigned len = 0; len <= 7; ++len)
    {
      std::vector<int> v;
      for (unsigned i = 0; i < len; ++i)
        v.push_back(static_cast<int>((i * 5 + 3) % 7));
      wrapped_iterator const b(v.begin()), en(v.end());
      expect(std::distance(b, en) == static_cast<std::ptrdiff_t>(len), "std::distance");
      for (unsigned i = 0; i <= len; ++i)
        for (unsigned j = 0; j <= len; ++j)
        {
          auto const di = static_cast<std::ptrdiff_t>(i), dj = static_cast<std::ptrdiff_t>(j);
          wrapped_iterator const x = b + di, y = b + dj;
          expect(x.impl_ == v.begin() + di, "operator+");
          expect((dj + b).impl_ == v.begin() + dj, "n + iterator");
          expect((y - x) == dj - di, "iterator - iterator");
          expect((x < y) == (i < j), "operator<");
          expect((x <= y) == (i <= j), "operator<=");
          expect((x > y) == (i > j), "operator>");
          expect((x >= y) == (i >= j), "operator>=");
          expect((x == y) == (i == j), "operator==");
          expect((x != y) == (i != j), "operator!=");
          expect((x - (di - dj)).impl_ == y.impl_, "operator-(n)");
          if (j < len)
            expect(&x[dj - di] == &v[j], "operator[]");
          wrapped_iterator z = x;
          z -= di;
          expect(z.impl_ == v.begin(), "operator-=");
        }
      if (len > 0)
      {
        wrapped_iterator it = b;
        expect(&*it++ == &v[0] && it.impl_ == v.begin() + 1, "post-increment");
        if (len > 1)
          expect(&*it-- == &v[1] && it.impl_ == v.begin(), "post-decrement");
        wrapped_iterator p(v.begin()), q(v.begin() + (len - 1));
        swap(p, q);
        expect(p.impl_ == v.begin() + (len - 1) && q.impl_ == v.begin(), "swap");
      }
      // standard algorithms on the user-defined iterator
      std::vector<int> sorted(v);
      std::sort(sorted.begin(), sorted.end());
      std::vector<int> w(v);
      std::sort(wrapped_iterator(w.begin()), wrapped_iterator(w.end()));
      expect(w == sorted, "std::sort");
      std::vector<int> rev(v.rbegin(), v.rend());
      std::vector<int> w2(v);
      std::reverse(wrapped_iterator(w2.begin()), wrapped_iterator(w2.end()));
      expect(w2 == rev, "std::reverse");
      std::vector<int> w3(std::make_reverse_iterator(wrapped_iterator(v.end())), std::make_reverse_iterator(wrapped_iterator(v.begin())));
      expect(w3 == rev, "std::reverse_iterator");
      auto lbound = std::lower_bound(wrapped_iterator(w.begin()), wrapped_iterator(w.end()), 3);
      expect(lbound.impl_ == std::lower_bound(w.begin(), w.end(), 3), "std::lower_bound");
    }
    vf::add_evals(n);
    vf::count("observed/iterator_base/comparisons", n);
    vf::count("observed/iterator_base/surprises", surprises);
  }
  if (vf::begin_case("range::size over int_range<i32>, math::int_range_count<0..5>"))
  {
    unsigned n = 0;
    for (int b = -4; b <= 4; ++b)
      for (int en = -4; en <= 6; ++en)
      {
        ++n;
        auto const s = fcppt::range::size(fcppt::make_int_range(b, en));
        if (static_cast<i128>(s) != (en > b ? en - b : 0))
          vf::violation("range::size/make_int_range", "mismatch", "range::size(make_int_range(" + std::to_string(b) + "," + std::to_string(en) + ")) = " +
                          s128(static_cast<i128>(s)));
      }
    auto static_range = [&](auto range, std::vector<i128> const &want) {
      std::vector<i128> got;
      fcppt::algorithm::loop(range, [&](auto tag) { got.push_back(static_cast<i128>(fcppt::tag_type<decltype(tag)>::value)); });
      ++n;
      if (got != want)
        vf::violation("math::int_range_count/sequence", "mismatch", "math::int_range_count<" + std::to_string(want.size()) + "> enumerates " + show_seq(got));
    };
    static_range(fcppt::math::int_range_count<0>{}, {});
    static_range(fcppt::math::int_range_count<1>{}, {0});
    static_range(fcppt::math::int_range_count<2>{}, {0, 1});
    static_range(fcppt::math::int_range_count<3>{}, {0, 1, 2});
    static_range(fcppt::math::int_range_count<5>{}, {0, 1, 2, 3, 4});
    vf::add_evals(n);
    vf::count("observed/range_size+static_int_range", n);
  }
}
#endif

}

#if VF_IN_SLICE(0)
void vf_slice_0()
{
  int_range_exhaustive<plain<std::int8_t>>();
  int_range_exhaustive<plain<std::uint8_t>>();
  int_range_exhaustive<strong<s_i8>>();
  int_range_exhaustive<strong<s_u8>>();
  int_range_boundary<plain<std::int16_t>>();
  int_range_boundary<plain<std::uint16_t>>();
  int_range_boundary<plain<std::int32_t>>();
  int_range_boundary<plain<std::uint32_t>>();
  int_range_boundary<plain<std::int64_t>>();
  int_range_boundary<plain<std::uint64_t>>();
  int_range_boundary<plain<long long>>();
  int_range_boundary<strong<s_u16>>();
  int_range_boundary<strong<s_i32>>();
  int_range_boundary<strong<s_u32>>();
  int_range_boundary<strong<s_i64>>();
}
#endif
#if VF_IN_SLICE(1)
void vf_slice_1()
{
  int_range_count<plain<std::int8_t>>();
  int_range_count<plain<std::uint8_t>>();
  int_range_count<strong<s_i8>>();
  int_range_count<strong<s_u8>>();
  int_range_count<plain<std::int16_t>>();
  int_range_count<plain<std::uint16_t>>();
  int_range_count<plain<std::int32_t>>();
  int_range_count<plain<std::uint32_t>>();
  int_range_count<plain<std::int64_t>>();
  int_range_count<plain<std::uint64_t>>();
  int_range_count<strong<s_u16>>();
  int_range_count<strong<s_i32>>();
  int_range_count<strong<s_u32>>();
  int_range_count<strong<s_i64>>();
  enum_ranges_all();
}
#endif
#if VF_IN_SLICE(2)
void vf_slice_2()
{
  cyclic_all();
  spiral<int>("i32");
  spiral<long>("i64");
  spiral<long long>("llong");
  neighbours<int>("i32");
  neighbours<long>("i64");
  neighbours<unsigned>("u32");
  neighbours<std::size_t>("u64");
  iterator_ranges<std::vector<int>>("vector");
  iterator_ranges<std::vector<int> const>("const_vector");
  iterator_ranges<std::deque<int>>("deque");
  iterator_ranges<std::list<int>>("list");
  iterator_ranges<std::list<int> const>("const_list");
  iterator_ranges<std::set<int> const>("const_set");
  adapt_int_range();
  observed();
}
#endif

#if VF_SLICE < 0
void vf_slice_0();
void vf_slice_1();
void vf_slice_2();
namespace
{
void body()
{
  for (char const *b :
       {"int_range/class/inverted", "int_range/class/empty", "int_range/class/min-to-max", "int_range/class/ends-at-max",
        "int_range/class/starts-at-min", "int_range/class/inner", "int_range/enumerated-completely",
        "int_range/prefix-only(count>prefix)", "int_range/size/judged", "int_range/size/observed-unrepresentable",
        "int_range/size/not-called-unrepresentable(UB)", "int_range/exhaustive-rows", "int_range_count/class/negative-count",
        "int_range_count/class/zero-count", "int_range_count/class/positive-count", "int_range_count/class/max-count",
        "enum_range/class/single", "enum_range/class/whole", "enum_range/class/ends-at-max", "enum_range/class/inner",
        "enum_range/make_range_start", "enum_range/make_range", "enum_range/enum-types", "cyclic/single-steps",
        "cyclic/step-wraps-forward", "cyclic/step-wraps-backward", "cyclic/advance-forms-judged", "cyclic/n-negative",
        "cyclic/n-positive", "cyclic/n-zero", "cyclic/n-at-least-one-lap", "cyclic/lands-on-first", "cyclic/post-inc-dec",
        "cyclic/laps", "spiral/walks", "spiral/dist=0", "spiral/dist=1", "spiral/dist=6", "spiral/origin-negative",
        "neighbors/neumann", "neighbors/moore", "iterator_range/adapt_range", "iterator_range/range-ctor",
        "iterator_range/make_range", "iterator_range/empty-subrange", "observed/iterator_base/comparisons"})
    vf::require_bucket(b);
  vf_slice_0();
  vf_slice_1();
  vf_slice_2();
}
}
VF_MAIN(body)
#endif
