// C01: the safe API is total: no undefined behaviour, crash or hang; failure only via optional/either or the
// documented exception type.
//
// The oracle is process-level: silence of ASan/UBSan/LSan/_GLIBCXX_ASSERTIONS and of the watchdog (an abort is
// attributed to the running case by the framework), plus a classifying catch(...) around every call (c01::guard).
// Return values are only inspected for "is an optional/either and, if present, refers to something valid";
// exact values belong to C06/C16.
//
// One registry entry per function x instantiation; the entry name is the first token of every case.
// The translation unit is compiled in slices (VF_SLICE), every slice includes only the headers it needs.
#include <c01_common.hpp>

namespace
{
using namespace c01;
}

// =================================================================================================== math
#if VF_IN_SLICE(0) || VF_IN_SLICE(1)
#include <fcppt/math/ceil_div.hpp>
#include <fcppt/math/ceil_div_signed.hpp>
#include <fcppt/math/clamp.hpp>
#include <fcppt/math/diff.hpp>
#include <fcppt/math/div.hpp>
#include <fcppt/math/interval_distance.hpp>
#include <fcppt/math/is_power_of_2.hpp>
#include <fcppt/math/log2.hpp>
#include <fcppt/math/mod.hpp>
#include <fcppt/math/next_power_of_2.hpp>
#include <fcppt/math/power_of_2.hpp>
#include <fcppt/optional/is_object.hpp>
#include <fcppt/optional/object.hpp>
#include <fcppt/tuple/object.hpp>

#include <cmath>

namespace
{
template <class O>
constexpr void require_optional(O const &)
{
  static_assert(fcppt::optional::is_object<O>::value, "the registered function must return an optional");
}

// rows: a fixed, b over bs.  One row is one case (unit of partitioning, of the witness and of the distinct count).
template <class A, class B, class F>
void rows(std::string const &e, std::vector<A> const &as, std::vector<B> const &bs, F const &f)
{
  if (!vf::entry_enabled(e))
    return;
  vf::set_entry(e);
  std::uint64_t const bh = hash_values(bs);
  std::uint64_t calls = 0;
  for (std::size_t i = 0; i < as.size(); ++i)
  {
    if (!my_item())
      continue;
    A const a = as[i];
    if (!vf::begin_case("a=%s b=[%zu values, hash %016llx]", std::to_string(a).c_str(), bs.size(),
                        static_cast<unsigned long long>(bh)))
      continue;
    vf::sample_case(1);
    vf::add_evals(bs.size() - 1);
    std::uint64_t ah = 0;
    std::memcpy(&ah, &a, sizeof a);
    vf::note_distinct(vf::hash_mix(vf::hash_mix(vf::hash_str(e), ah), bh));
    for (B const b : bs)
    {
      if constexpr (std::is_integral_v<A> && std::is_integral_v<B>)
        vf::operands(static_cast<long long>(a), static_cast<long long>(b));
      f(a, b);
    }
    calls += bs.size();
  }
  vf::count("calls/" + e, calls);
}

// chunks of unary inputs
template <class T, class F>
void chunks(std::string const &e, std::vector<T> const &vals, F const &f)
{
  if (!vf::entry_enabled(e))
    return;
  vf::set_entry(e);
  std::size_t const chunk = 2048;
  std::uint64_t calls = 0;
  for (std::size_t c = 0; c < vals.size(); c += chunk)
  {
    if (!my_item())
      continue;
    std::size_t const end = std::min(vals.size(), c + chunk);
    if (!vf::begin_case("chunk@%zu first=%s n=%zu", c, std::to_string(vals[c]).c_str(), end - c))
      continue;
    vf::sample_case(1);
    vf::add_evals(end - c - 1);
    vf::note_distinct(vf::hash_mix(vf::hash_str(e), vf::hash_bytes(&vals[c], (end - c) * sizeof(T))));
    for (std::size_t i = c; i < end; ++i)
    {
      if constexpr (std::is_integral_v<T>)
        vf::operands(static_cast<long long>(vals[i]));
      f(vals[i]);
    }
    calls += end - c;
  }
  vf::count("calls/" + e, calls);
}

// binary operand sets for one integer type.
//  8 bit : all x all
// 16 bit : quick (lattice + random)^2 ; thorough additionally full range x lattice and lattice x full range
// 32/64  : (lattice + random)^2
template <class T, class F>
void binary(std::string const &e, F const &f)
{
  std::string const t = tn<T>();
  auto const as = binary_values<T>("binary-a-" + t, vf::tier<std::size_t>(40, 400));
  auto const bs = binary_values<T>("binary-b-" + t, vf::tier<std::size_t>(40, 400));
  rows<T, T>(e, as, bs, f);
  if constexpr (sizeof(T) == 2)
    if (vf::thorough())
    {
      auto const full = full_range<T>();
      auto const lat = lattice<T>();
      rows<T, T>(e, full, lat, f);
      rows<T, T>(e, lat, full, f);
    }
}

template <class T>
std::vector<T> float_values()
{
  using L = std::numeric_limits<T>;
  return {T(0),      -T(0),       T(1),          T(-1),           T(0.5),         T(2.5),          T(-2.5),
          T(3),      L::max(),    L::lowest(),   L::min(),        L::denorm_min(), L::epsilon(),   L::infinity(),
          -L::infinity(), L::quiet_NaN(), T(1e30), T(-1e-30), T(255), T(256), T(65536), T(4294967296.0)};
}

#define C01_OUTCOME(r, name)                                                                                 \
  do                                                                                                         \
  {                                                                                                          \
    if ((r).has_value())                                                                                     \
      VF_COUNT("outcome/" name "/present");                                                                  \
    else                                                                                                     \
      VF_COUNT("outcome/" name "/absent");                                                                   \
  } while (false)

[[maybe_unused]] i128 ceil_div_exact(i128 const a, i128 const b)
{
  i128 q = a / b;
  i128 const r = a % b;
  if (r != 0 && ((r < 0) == (b < 0)))
    ++q;
  return q;
}

// ---------------------------------------------------------------- functions on unsigned types
template <class T>
void unsigned_fns()
{
  static_assert(std::is_unsigned_v<T>);
  std::string const t = tn<T>();
  std::size_t const nrandom = vf::tier<std::size_t>(10000, 1000000);

  chunks<T>("math::log2<" + t + ">", unary_values<T>("log2-" + t, nrandom), [](T const a) {
    if (a == 0) // documented: behaviour is undefined if x is 0
    {
      VF_COUNT("skipped/log2/zero-documented-undefined");
      return;
    }
    if ((a >> (sizeof(T) * 8 - 1)) != 0)
      VF_COUNT("bucket/log2/top-bit-set");
    else
      VF_COUNT("bucket/log2/top-bit-clear");
    guard(wl_none, [&] {
      T const r = fcppt::math::log2(a);
      (void)r;
    });
  });
  chunks<T>("math::next_power_of_2<" + t + ">", unary_values<T>("np2-" + t, nrandom), [](T const a) {
    // exact result: least power of two >= a; representable iff a <= 2^(N-1)
    if (static_cast<i128>(a) > (static_cast<i128>(1) << (sizeof(T) * 8 - 1)))
    {
      VF_COUNT("skipped/next_power_of_2/unrepresentable");
      return;
    }
    VF_COUNT("bucket/next_power_of_2/representable");
    guard(wl_none, [&] {
      T const r = fcppt::math::next_power_of_2(a);
      (void)r;
    });
  });
  chunks<T>("math::is_power_of_2<" + t + ">", unary_values<T>("ip2-" + t, nrandom), [](T const a) {
    guard(wl_none, [&] {
      if (fcppt::math::is_power_of_2(a))
        VF_COUNT("outcome/is_power_of_2/true");
      else
        VF_COUNT("outcome/is_power_of_2/false");
    });
  });
  if constexpr (sizeof(T) >= 4) // ceil_div does not compile for types narrower than int
    binary<T>("math::ceil_div<" + t + ">", [](T const a, T const b) {
      guard(wl_none, [&] {
        auto const r = fcppt::math::ceil_div(a, b);
        require_optional(r);
        C01_OUTCOME(r, "ceil_div");
      });
    });
  binary<T>("math::mod<" + t + ">", [](T const a, T const b) {
    guard(wl_none, [&] {
      auto const r = fcppt::math::mod(a, b);
      require_optional(r);
      C01_OUTCOME(r, "mod");
    });
  });
}

// ---------------------------------------------------------------- functions on signed and unsigned types
template <class T>
void common_fns()
{
  std::string const t = tn<T>();
  binary<T>("math::div<" + t + ">", [](T const a, T const b) {
    using R = decltype(a / b);
    if (b != 0 && !fits<R>(static_cast<i128>(a) / static_cast<i128>(b)))
    {
      VF_COUNT("skipped/div/unrepresentable"); // min / -1
      return;
    }
    guard(wl_none, [&] {
      auto const r = fcppt::math::div(a, b);
      require_optional(r);
      C01_OUTCOME(r, "div");
    });
  });
  binary<T>("math::diff<" + t + ">", [](T const a, T const b) {
    i128 w = static_cast<i128>(a) - static_cast<i128>(b);
    if (w < 0)
      w = -w;
    if (!fits<T>(w))
    {
      VF_COUNT("skipped/diff/unrepresentable");
      return;
    }
    VF_COUNT("bucket/diff/representable");
    guard(wl_none, [&] {
      T const r = fcppt::math::diff(a, b);
      (void)r;
    });
  });
  // clamp(v, lo, hi): v over the binary set, (lo, hi) over lattice^2 (8 bit, thorough: all triples)
  {
    std::vector<T> ps = lattice<T>();
    if constexpr (sizeof(T) == 1)
    {
      if (vf::thorough())
        ps = full_range<T>();
    }
    else if (ps.size() > 48)
    {
      // an evenly thinned lattice for the bounds (min, max and the values around 0 stay in): about 48 (quick) / 100 (thorough)
      std::vector<T> q;
      for (std::size_t i = 0; i < ps.size(); ++i)
        if (i % (ps.size() / vf::tier<std::size_t>(40, 96) + 1) == 0 || i + 1 == ps.size() || (ps[i] >= static_cast<T>(0) && ps[i] <= static_cast<T>(2)) ||
            static_cast<i128>(ps[i]) == -1)
          q.push_back(ps[i]);
      ps = q;
    }
    auto const vs = binary_values<T>("clamp-v-" + t, vf::tier<std::size_t>(20, 200));
    std::string const e = "math::clamp<" + t + ">";
    if (vf::entry_enabled(e))
    {
      vf::set_entry(e);
      std::uint64_t const ph = hash_values(ps);
      std::uint64_t calls = 0;
      for (T const v : vs)
        for (T const l : ps)
        {
          if (!my_item())
            continue;
          if (!vf::begin_case("v=%s lo=%s hi=[%zu values, hash %016llx]", std::to_string(v).c_str(),
                              std::to_string(l).c_str(), ps.size(), static_cast<unsigned long long>(ph)))
            continue;
          vf::sample_case(1);
          vf::add_evals(ps.size() - 1);
          vf::note_distinct(vf::hash_mix(vf::hash_mix(vf::hash_str(e), static_cast<std::uint64_t>(v) * 65537U +
                                                                            static_cast<std::uint64_t>(l)),
                                         ph));
          for (T const h : ps)
          {
            vf::operands(static_cast<long long>(v), static_cast<long long>(l), static_cast<long long>(h));
            guard(wl_none, [&] {
              auto const r = fcppt::math::clamp(v, l, h);
              require_optional(r);
              C01_OUTCOME(r, "clamp");
            });
          }
          calls += ps.size();
        }
      vf::count("calls/" + e, calls);
    }
  }
  // power_of_2<Result = T>(exponent): exact result representable iff exponent < digits(T)
  {
    std::string const e = "math::power_of_2<" + t + ">";
    if (vf::entry_enabled(e) && my_item())
    {
      vf::set_entry(e);
      if (vf::begin_case("exponents 0..%d as u8,u16,u32,u64", std::numeric_limits<T>::digits - 1))
      {
        vf::sample_case(1);
        vf::note_distinct(vf::hash_str(e));
        unsigned n = 0;
        for (unsigned k = 0; k < static_cast<unsigned>(std::numeric_limits<T>::digits); ++k)
        {
          vf::operands(k);
          guard(wl_none, [&] {
            T const r1 = fcppt::math::power_of_2<T>(static_cast<std::uint8_t>(k));
            T const r2 = fcppt::math::power_of_2<T>(static_cast<std::uint16_t>(k));
            T const r3 = fcppt::math::power_of_2<T>(static_cast<std::uint32_t>(k));
            T const r4 = fcppt::math::power_of_2<T>(static_cast<std::uint64_t>(k));
            (void)r1;
            (void)r2;
            (void)r3;
            (void)r4;
          });
          n += 4;
        }
        vf::add_evals(n - 1);
        vf::count("calls/" + e, n);
        vf::count("skipped/power_of_2/exponent>=digits", 256U - static_cast<unsigned>(std::numeric_limits<T>::digits));
      }
    }
  }
}

// ---------------------------------------------------------------- functions on signed types
template <class T>
void signed_fns()
{
  static_assert(std::is_signed_v<T>);
  std::string const t = tn<T>();
  if constexpr (sizeof(T) >= 4) // narrower types are rejected at compile time by the tree before the fixes
  {
    auto const judge = [](T const a, T const b) {
      if (b != 0 && !fits<T>(ceil_div_exact(a, b)))
      {
        VF_COUNT("skipped/ceil_div_signed/unrepresentable"); // min / -1
        return;
      }
      guard(wl_none, [&] {
        auto const r = fcppt::math::ceil_div_signed(a, b);
        require_optional(r);
        C01_OUTCOME(r, "ceil_div_signed");
      });
    };
    binary<T>("math::ceil_div_signed<" + t + ">", judge);
    std::vector<T> small;
    for (int v = -130; v <= 130; ++v)
      small.push_back(static_cast<T>(v));
    rows<T, T>("math::ceil_div_signed<" + t + ">", small, small, judge);
  }
  // interval_distance over well-formed intervals [a,b], [c,d] (a <= b, c <= d).
  // The documentation defines the result through the gap between the intervals, the length of their overlap and,
  // for containment, the lengths of the two parts of the outer interval.  An input is judged when all of these
  // quantities are representable; it is skipped (and counted separately) when the final result or one of the
  // quantities of the definition is not.
  {
    std::string const e = "math::interval_distance<" + t + ">";
    if (vf::entry_enabled(e))
    {
      vf::set_entry(e);
      std::vector<T> ps;
      for (i128 v : {lo<T>(), lo<T>() + 1, lo<T>() / 2, static_cast<i128>(-3), static_cast<i128>(-1), static_cast<i128>(0),
                     static_cast<i128>(1), static_cast<i128>(2), static_cast<i128>(5), hi<T>() / 2, hi<T>() / 2 + 1,
                     hi<T>() - 1, hi<T>()})
        ps.push_back(static_cast<T>(v));
      {
        vf::rng g(vf::seed_for(e));
        for (unsigned i = 0; i < vf::tier(3U, 10U); ++i)
          ps.push_back(random_value<T>(g));
      }
      std::sort(ps.begin(), ps.end());
      ps.erase(std::unique(ps.begin(), ps.end()), ps.end());
      std::uint64_t const ph = hash_values(ps);
      std::uint64_t calls = 0, skipped_definition = 0;
      using iv = fcppt::tuple::object<T, T>;
      for (T const a : ps)
        for (T const b : ps)
        {
          if (a > b || !my_item())
            continue;
          if (!vf::begin_case("[a,b]=[%s,%s] [c,d] over [%zu values, hash %016llx]^2", std::to_string(a).c_str(),
                              std::to_string(b).c_str(), ps.size(), static_cast<unsigned long long>(ph)))
            continue;
          vf::sample_case(1);
          vf::note_distinct(vf::hash_mix(vf::hash_mix(vf::hash_str(e), static_cast<std::uint64_t>(a)),
                                         vf::hash_mix(static_cast<std::uint64_t>(b), ph)));
          for (T const c : ps)
            for (T const d : ps)
            {
              if (c > d)
                continue;
              vf::operands(static_cast<long long>(a), static_cast<long long>(b), static_cast<long long>(c),
                           static_cast<long long>(d));
              i128 const A = a, B = b, C = c, D = d;
              bool const contains = (A <= C && D <= B) || (C <= A && B <= D);
              i128 result;
              if (!contains)
                result = std::max(C - B, A - D); // positive gap or negative overlap
              else if (A <= C && D <= B)
                result = -std::min(C - A, B - D); // shorter part of the outer interval [a,b]
              else
                result = -std::min(A - C, D - B);
              if (!fits<T>(result))
              {
                VF_COUNT("skipped/interval_distance/result-unrepresentable");
                continue;
              }
              bool parts_fit = true;
              for (i128 const q : {C - B, A - D, B - C, D - A, C - A, B - D, A - C, D - B})
                parts_fit = parts_fit && fits<T>(q);
              if (!parts_fit)
              {
                VF_COUNT("skipped/interval_distance/definition-quantity-unrepresentable");
                ++skipped_definition;
                continue;
              }
              if (contains)
                VF_COUNT("bucket/interval_distance/containment");
              else if (result > 0)
                VF_COUNT("bucket/interval_distance/gap");
              else
                VF_COUNT("bucket/interval_distance/touch-or-overlap");
              vf::add_evals(1);
              ++calls;
              guard(wl_none, [&] {
                T const r = fcppt::math::interval_distance(iv{a, b}, iv{c, d});
                (void)r;
              });
            }
        }
      vf::count("calls/" + e, calls);
      if (skipped_definition != 0 && sizeof(T) >= 4)
        vf::observation(e + ": inputs whose result is representable but where a length named by the documented definition "
                            "(gap, overlap, part of the outer interval) is not were NOT executed (side condition; e.g. "
                            "[min,max] and [1,5]: the part length 1-min overflows although the result 5-max fits)");
    }
  }
}

template <class T>
void float_fns()
{
  std::string const t = tn<T>();
  auto const vs = float_values<T>();
  rows<T, T>("math::div<" + t + ">", vs, vs, [](T const a, T const b) {
    guard(wl_none, [&] {
      auto const r = fcppt::math::div(a, b);
      require_optional(r);
      C01_OUTCOME(r, "div-float");
    });
  });
  rows<T, T>("math::mod<" + t + ">", vs, vs, [](T const a, T const b) {
    guard(wl_none, [&] {
      auto const r = fcppt::math::mod(a, b);
      require_optional(r);
      C01_OUTCOME(r, "mod-float");
    });
  });
  rows<T, T>("math::diff<" + t + ">", vs, vs, [](T const a, T const b) {
    guard(wl_none, [&] {
      T const r = fcppt::math::diff(a, b);
      (void)r;
    });
  });
  rows<T, T>("math::clamp<" + t + ">", vs, vs, [&vs](T const v, T const l) {
    for (T const h : vs)
      guard(wl_none, [&] {
        auto const r = fcppt::math::clamp(v, l, h);
        require_optional(r);
        C01_OUTCOME(r, "clamp-float");
      });
  });
}
}
#endif

#if VF_IN_SLICE(0)
void vf_slice_0()
{
  unsigned_fns<std::uint8_t>();
  unsigned_fns<std::uint16_t>();
  common_fns<std::uint8_t>();
  common_fns<std::uint16_t>();
  common_fns<std::int8_t>();
  common_fns<std::int16_t>();
  signed_fns<std::int8_t>();
  signed_fns<std::int16_t>();
}
#endif
#if VF_IN_SLICE(1)
void vf_slice_1()
{
  unsigned_fns<std::uint32_t>();
  unsigned_fns<std::uint64_t>();
  common_fns<std::uint32_t>();
  common_fns<std::uint64_t>();
  common_fns<std::int32_t>();
  common_fns<std::int64_t>();
  signed_fns<std::int32_t>();
  signed_fns<std::int64_t>();
  float_fns<float>();
  float_fns<double>();
}
#endif

// =================================================================================================== truncation_check
#if VF_IN_SLICE(2) || VF_IN_SLICE(3)
#include <fcppt/cast/truncation_check.hpp>
#include <fcppt/optional/is_object.hpp>
#include <fcppt/optional/object.hpp>

namespace
{
template <class D, class S>
void trunc()
{
  std::string const e = std::string("cast::truncation_check<") + tn<D>() + "," + tn<S>() + ">";
  if (!vf::entry_enabled(e))
    return;
  vf::set_entry(e);
  auto const vals = unary_values<S>(e, vf::tier<std::size_t>(10000, 1000000));
  std::size_t const chunk = 4096;
  std::uint64_t calls = 0;
  for (std::size_t c = 0; c < vals.size(); c += chunk)
  {
    if (!my_item())
      continue;
    std::size_t const end = std::min(vals.size(), c + chunk);
    if (!vf::begin_case("chunk@%zu first=%s n=%zu", c, s128(static_cast<i128>(vals[c])).c_str(), end - c))
      continue;
    vf::sample_case(1);
    vf::add_evals(end - c - 1);
    vf::note_distinct(vf::hash_mix(vf::hash_str(e), vf::hash_bytes(&vals[c], (end - c) * sizeof(S))));
    for (std::size_t i = c; i < end; ++i)
    {
      S const s = vals[i];
      vf::operands(static_cast<long long>(s));
      guard(wl_none, [&] {
        auto const r = fcppt::cast::truncation_check<D>(s);
        static_assert(fcppt::optional::is_object<std::remove_cvref_t<decltype(r)>>::value);
        if (r.has_value())
          VF_COUNT("outcome/truncation_check/present");
        else
          VF_COUNT("outcome/truncation_check/absent");
      });
    }
    calls += end - c;
  }
  vf::count("calls/" + e, calls);
}
template <class S>
void trunc_all()
{
  trunc<std::int8_t, S>();
  trunc<std::uint8_t, S>();
  trunc<std::int16_t, S>();
  trunc<std::uint16_t, S>();
  trunc<std::int32_t, S>();
  trunc<std::uint32_t, S>();
  trunc<std::int64_t, S>();
  trunc<std::uint64_t, S>();
}
}
#endif
#if VF_IN_SLICE(2)
void vf_slice_2()
{
  trunc_all<std::int8_t>();
  trunc_all<std::uint8_t>();
  trunc_all<std::int16_t>();
  trunc_all<std::uint16_t>();
}
#endif
#if VF_IN_SLICE(3)
void vf_slice_3()
{
  trunc_all<std::int32_t>();
  trunc_all<std::uint32_t>();
  trunc_all<std::int64_t>();
  trunc_all<std::uint64_t>();
}
#endif

// =================================================================================================== enums
#if VF_IN_SLICE(4)
#include <fcppt/enum/from_int.hpp>
#include <fcppt/enum/from_string.hpp>
#include <fcppt/enum/size.hpp>
#include <fcppt/enum/to_string_impl_fwd.hpp>
#include <fcppt/optional/is_object.hpp>
#include <fcppt/optional/object.hpp>

namespace
{
#define C01_ENUM(name, under, maxv)                                                                          \
  enum class name : under                                                                                    \
  {                                                                                                          \
    first = 0,                                                                                               \
    fcppt_maximum = maxv                                                                                     \
  };
C01_ENUM(e1_u8, std::uint8_t, 0)
C01_ENUM(e3_u8, std::uint8_t, 2)
C01_ENUM(e200_u8, std::uint8_t, 199)
C01_ENUM(e255_u8, std::uint8_t, 254)
C01_ENUM(e3_i8, std::int8_t, 2)
C01_ENUM(e127_i8, std::int8_t, 126)
C01_ENUM(e3_u16, std::uint16_t, 2)
C01_ENUM(e300_u16, std::uint16_t, 299)
C01_ENUM(e3_i16, std::int16_t, 2)
C01_ENUM(e3_u32, std::uint32_t, 2)
C01_ENUM(e70000_u32, std::uint32_t, 69999)
C01_ENUM(e3_int, int, 2)

enum class color
{
  red,
  green,
  blue,
  fcppt_maximum = blue
};
enum class single : std::uint8_t
{
  only,
  fcppt_maximum = only
};
}
namespace fcppt::enum_
{
template <>
struct to_string_impl<color>
{
  static std::string_view get(color const c)
  {
    switch (c)
    {
    case color::red: return "red";
    case color::green: return "green";
    case color::blue: return "blue";
    }
    return "";
  }
};
template <>
struct to_string_impl<single>
{
  static std::string_view get(single) { return ""; } // the empty name
};
}
namespace
{
template <class E, class V>
void from_int_one(char const *ename)
{
  std::string const e = std::string("enum::from_int<") + ename + "," + tn<V>() + ">";
  if (!vf::entry_enabled(e))
    return;
  vf::set_entry(e);
  i128 const size = static_cast<i128>(fcppt::enum_::size<E>::value);
  std::vector<V> vals = unary_values<V>(e, vf::tier<std::size_t>(2000, 200000));
  for (int k : {8, 16, 32})
    for (int d = -2; d <= 2; ++d)
      for (i128 const v : {size + (static_cast<i128>(1) << k) + d, size + d})
        if (fits<V>(v))
          vals.push_back(static_cast<V>(v));
  std::size_t const chunk = 8192;
  std::uint64_t calls = 0;
  for (std::size_t c = 0; c < vals.size(); c += chunk)
  {
    if (!my_item())
      continue;
    std::size_t const end = std::min(vals.size(), c + chunk);
    if (!vf::begin_case("size=%s chunk@%zu first=%s n=%zu", s128(size).c_str(), c, s128(static_cast<i128>(vals[c])).c_str(),
                        end - c))
      continue;
    vf::sample_case(1);
    vf::add_evals(end - c - 1);
    vf::note_distinct(vf::hash_mix(vf::hash_str(e), vf::hash_bytes(&vals[c], (end - c) * sizeof(V))));
    for (std::size_t i = c; i < end; ++i)
    {
      V const v = vals[i];
      vf::operands(static_cast<long long>(v));
      guard(wl_none, [&] {
        auto const r = fcppt::enum_::from_int<E>(v);
        static_assert(fcppt::optional::is_object<std::remove_cvref_t<decltype(r)>>::value);
        if (r.has_value())
        {
          VF_COUNT("outcome/from_int/present");
          // "refers to something valid": the enumerator must be one of the enum's values
          if (static_cast<i128>(static_cast<std::underlying_type_t<E>>(r.get_unsafe())) >= size ||
              static_cast<i128>(static_cast<std::underlying_type_t<E>>(r.get_unsafe())) < 0)
            vf::violation(vf::st().entry + "/enumerator-outside-enum", "invalid-result",
                          "value " + s128(static_cast<i128>(v)) + " size " + s128(size));
        }
        else
          VF_COUNT("outcome/from_int/absent");
        // an integer that is no enumerator is an input the function cannot handle: it is reported through the empty
        // optional, never through some enumerator (the exact value is C06's concern, presence is totality)
        if (r.has_value() != (static_cast<i128>(v) >= 0 && static_cast<i128>(v) < size))
          vf::violation(vf::st().entry + (r.has_value() ? "/enumerator-for-an-integer-outside-the-enum" : "/nothing-for-an-enumerator"),
                        "invalid-result", "value " + s128(static_cast<i128>(v)) + " size " + s128(size));
      });
    }
    calls += end - c;
  }
  vf::count("calls/" + e, calls);
}
template <class E>
void from_int_all(char const *ename)
{
  from_int_one<E, std::uint8_t>(ename);
  from_int_one<E, std::uint16_t>(ename);
  from_int_one<E, std::uint32_t>(ename);
  from_int_one<E, std::uint64_t>(ename);
}

template <class E>
void from_string_one(char const *ename, std::vector<std::string> const &names)
{
  std::string const e = std::string("enum::from_string<") + ename + ">";
  if (!vf::entry_enabled(e))
    return;
  vf::set_entry(e);
  std::vector<std::string> in = string_lattice();
  for (std::string const &n : names)
  {
    in.push_back(n);
    for (std::size_t k = 0; k < n.size(); ++k)
      in.push_back(n.substr(0, k));
    in.push_back(n + "x");
    in.push_back(n + std::string(1, '\0'));
    in.push_back(" " + n);
    std::string up = n;
    for (char &c : up)
      c = static_cast<char>(std::toupper(static_cast<unsigned char>(c)));
    in.push_back(up);
  }
  vf::rng g(vf::seed_for(e));
  for (unsigned i = 0; i < vf::tier(50U, 2000U); ++i)
    in.push_back(random_string(g, "redgnbluRE \0x", 7));
  std::uint64_t calls = 0;
  for (std::string const &s : in)
  {
    if (!my_item())
      continue;
    if (!vf::begin_case("string(len %zu)=\"%s\"", s.size(), printable(s).c_str()))
      continue;
    vf::sample_case(2);
    vf::note_distinct(vf::hash_mix(vf::hash_str(e), vf::hash_str(s)));
    exact_buf<char> const buf{std::string_view{s}};
    guard(wl_none, [&] {
      auto const r = fcppt::enum_::from_string<E>(buf.view());
      static_assert(fcppt::optional::is_object<std::remove_cvref_t<decltype(r)>>::value);
      if (r.has_value())
      {
        VF_COUNT("outcome/from_string/present");
        if (static_cast<i128>(static_cast<std::underlying_type_t<E>>(r.get_unsafe())) >=
            static_cast<i128>(fcppt::enum_::size<E>::value))
          vf::violation(vf::st().entry + "/enumerator-outside-enum", "invalid-result", printable(s));
      }
      else
        VF_COUNT("outcome/from_string/absent");
    });
    ++calls;
  }
  vf::count("calls/" + e, calls);
}
}
void vf_slice_4()
{
  from_int_all<e1_u8>("e1_u8");
  from_int_all<e3_u8>("e3_u8");
  from_int_all<e200_u8>("e200_u8");
  from_int_all<e255_u8>("e255_u8");
  from_int_all<e3_i8>("e3_i8");
  from_int_all<e127_i8>("e127_i8");
  from_int_all<e3_u16>("e3_u16");
  from_int_all<e300_u16>("e300_u16");
  from_int_all<e3_i16>("e3_i16");
  from_int_all<e3_u32>("e3_u32");
  from_int_all<e70000_u32>("e70000_u32");
  from_int_all<e3_int>("e3_int");
  from_string_one<color>("color", {"red", "green", "blue"});
  from_string_one<single>("single", {""});
}
#endif

// =================================================================================================== containers
#if VF_IN_SLICE(5)
#include <fcppt/reference.hpp>
#include <fcppt/array/from_range.hpp>
#include <fcppt/array/object.hpp>
#include <fcppt/cast/dynamic.hpp>
#include <fcppt/cast/dynamic_cross.hpp>
#include <fcppt/container/at_optional.hpp>
#include <fcppt/container/find_opt.hpp>
#include <fcppt/container/find_opt_mapped.hpp>
#include <fcppt/container/maybe_back.hpp>
#include <fcppt/container/maybe_front.hpp>
#include <fcppt/container/pop_back.hpp>
#include <fcppt/container/pop_front.hpp>
#include <fcppt/container/grid/at_optional.hpp>
#include <fcppt/container/grid/object.hpp>
#include <fcppt/optional/is_object.hpp>
#include <fcppt/optional/object.hpp>
#include <fcppt/math/dim/init.hpp>
#include <fcppt/math/vector/init.hpp>
#include <fcppt/optional/reference.hpp>
#include <fcppt/runtime_index.hpp>

#include <deque>
#include <list>
#include <map>
#include <unordered_map>

namespace
{
std::vector<std::size_t> index_lattice(std::size_t const size)
{
  std::vector<std::size_t> r;
  for (std::size_t i = 0; i <= size + 2; ++i)
    r.push_back(i);
  std::size_t const m = std::numeric_limits<std::size_t>::max();
  for (std::size_t v : {m, m - 1, m / 2, m / 2 + 1, m / 2 + 2, std::size_t{1} << 63, (std::size_t{1} << 63) + size,
                        std::size_t{1} << 32, (std::size_t{1} << 32) + 1, std::size_t{1} << 31, m - size, m - size + 1,
                        m / sizeof(int), m / sizeof(int) + 1, m / sizeof(std::string) + 1})
    r.push_back(v);
  return r;
}

template <class C>
bool element_address(C const &c, void const *const p)
{
  for (auto const &x : c)
    if (static_cast<void const *>(&x) == p)
      return true;
  return false;
}

template <class C>
C make_seq(std::size_t const n)
{
  C c;
  for (std::size_t i = 0; i < n; ++i)
  {
    if constexpr (std::is_same_v<typename C::value_type, std::string>)
      c.push_back("element-" + std::to_string(i) + "-long-enough-to-live-on-the-heap");
    else
      c.push_back(static_cast<typename C::value_type>(i + 1));
  }
  return c;
}

// reference results: "refers to something valid" = the address is the address of an element of the container
template <class C, class R>
void judge_ref(C const &c, R const &r, char const *fn)
{
  static_assert(fcppt::optional::is_object<R>::value);
  if (r.has_value())
  {
    vf::count(std::string("outcome/") + fn + "/present");
    if (!element_address(c, static_cast<void const *>(r.get_unsafe().operator->())))
      vf::violation(vf::st().entry + "/reference-outside-container", "invalid-result",
                    "the returned reference is not the address of an element");
  }
  else
    vf::count(std::string("outcome/") + fn + "/absent");
}

template <class C>
void at_optional_one(char const *cname)
{
  std::string const e = std::string("container::at_optional<") + cname + ">";
  if (!vf::entry_enabled(e))
    return;
  vf::set_entry(e);
  std::uint64_t calls = 0;
  for (std::size_t n = 0; n <= 4; ++n)
    for (std::size_t const idx : index_lattice(n))
    {
      if (!my_item())
        continue;
      if (!vf::begin_case("size=%zu index=%zu", n, idx))
        continue;
      vf::sample_case(2);
      vf::note_distinct(vf::hash_mix(vf::hash_str(e), vf::hash_mix(n, idx)));
      std::remove_const_t<C> c = make_seq<std::remove_const_t<C>>(n);
      C &cr = c;
      guard(wl_none, [&] {
        auto const r = fcppt::container::at_optional(cr, idx);
        judge_ref(c, r, "at_optional");
      });
      ++calls;
    }
  vf::count("calls/" + e, calls);
}

template <class C>
void ends_one(char const *cname)
{
  for (char const *fn : {"maybe_front", "maybe_back", "pop_back", "pop_front"})
  {
    std::string const e = std::string("container::") + fn + "<" + cname + ">";
    if (!vf::entry_enabled(e))
      continue;
    bool const is_pop_front = std::string(fn) == "pop_front", is_pop_back = std::string(fn) == "pop_back";
    constexpr bool has_pop_front = requires(std::remove_const_t<C> & x) { x.pop_front(); };
    if ((is_pop_front && !has_pop_front) || ((is_pop_front || is_pop_back) && std::is_const_v<C>))
      continue;
    vf::set_entry(e);
    std::uint64_t calls = 0;
    for (std::size_t n = 0; n <= 4; ++n)
    {
      if (!my_item())
        continue;
      if (!vf::begin_case("size=%zu", n))
        continue;
      vf::sample_case(2);
      vf::note_distinct(vf::hash_mix(vf::hash_str(e), n));
      std::remove_const_t<C> c = make_seq<std::remove_const_t<C>>(n);
      C &cr = c;
      guard(wl_none, [&] {
        if (std::string(fn) == "maybe_front")
          judge_ref(c, fcppt::container::maybe_front(cr), "maybe_front");
        else if (std::string(fn) == "maybe_back")
          judge_ref(c, fcppt::container::maybe_back(cr), "maybe_back");
        else if constexpr (!std::is_const_v<C>)
        {
          if (is_pop_back)
          {
            // pop until empty and once more
            for (std::size_t k = 0; k <= n + 1; ++k)
            {
              vf::extend_case(" pop_back");
              auto const r = fcppt::container::pop_back(c);
              static_assert(fcppt::optional::is_object<std::remove_cvref_t<decltype(r)>>::value);
              vf::count(r.has_value() ? "outcome/pop_back/present" : "outcome/pop_back/absent");
            }
          }
          else if constexpr (has_pop_front)
          {
            for (std::size_t k = 0; k <= n + 1; ++k)
            {
              vf::extend_case(" pop_front");
              auto const r = fcppt::container::pop_front(c);
              static_assert(fcppt::optional::is_object<std::remove_cvref_t<decltype(r)>>::value);
              vf::count(r.has_value() ? "outcome/pop_front/present" : "outcome/pop_front/absent");
            }
          }
        }
      });
      ++calls;
    }
    vf::count("calls/" + e, calls);
  }
}

template <class M>
void find_one(char const *cname)
{
  for (char const *fn : {"find_opt", "find_opt_mapped"})
  {
    std::string const e = std::string("container::") + fn + "<" + cname + ">";
    if (!vf::entry_enabled(e))
      continue;
    vf::set_entry(e);
    std::uint64_t calls = 0;
    for (std::size_t n = 0; n <= 4; ++n)
      for (int key : {-1, 0, 1, 2, 3, 4, 5, 6, 7, 8, 9, 10, std::numeric_limits<int>::max(), std::numeric_limits<int>::min()})
      {
        if (!my_item())
          continue;
        if (!vf::begin_case("size=%zu (keys 2,4,..) key=%d", n, key))
          continue;
        vf::sample_case(2);
        vf::note_distinct(vf::hash_mix(vf::hash_str(e), vf::hash_mix(n, static_cast<std::uint64_t>(key))));
        std::remove_const_t<M> m;
        for (std::size_t i = 1; i <= n; ++i)
          m.emplace(static_cast<int>(2 * i), "mapped-value-" + std::to_string(i) + "-long-enough-to-live-on-the-heap");
        M &mr = m;
        guard(wl_none, [&] {
          if (std::string(fn) == "find_opt")
            judge_ref(m, fcppt::container::find_opt(mr, key), "find_opt");
          else
          {
            auto const r = fcppt::container::find_opt_mapped(mr, key);
            static_assert(fcppt::optional::is_object<std::remove_cvref_t<decltype(r)>>::value);
            if (r.has_value())
            {
              VF_COUNT("outcome/find_opt_mapped/present");
              bool found = false;
              for (auto const &kv : m)
                found = found || static_cast<void const *>(&kv.second) ==
                                     static_cast<void const *>(r.get_unsafe().operator->());
              if (!found)
                vf::violation(vf::st().entry + "/reference-outside-container", "invalid-result",
                              "the returned reference is not the address of a mapped value");
            }
            else
              VF_COUNT("outcome/find_opt_mapped/absent");
          }
        });
        ++calls;
      }
    vf::count("calls/" + e, calls);
  }
}

template <std::size_t N, class G>
void grid_one(char const *gname)
{
  std::string const e = std::string("container::grid::at_optional<") + gname + ">";
  if (!vf::entry_enabled(e))
    return;
  vf::set_entry(e);
  using grid = std::remove_const_t<G>;
  using dim = typename grid::dim;
  using pos = typename grid::pos;
  std::size_t const m = std::numeric_limits<std::size_t>::max();
  std::uint64_t calls = 0;
  // every dimension vector over {0..3}^N, every position over ([0, size+2] u {top of size_type})^N
  std::size_t ndims = 1;
  for (std::size_t i = 0; i < N; ++i)
    ndims *= 4;
  for (std::size_t dcode = 0; dcode < ndims; ++dcode)
  {
    std::array<std::size_t, N> ds{};
    {
      std::size_t x = dcode;
      for (std::size_t i = 0; i < N; ++i, x /= 4)
        ds[i] = x % 4;
    }
    if (!my_item())
      continue;
    std::vector<std::vector<std::size_t>> cand(N);
    for (std::size_t i = 0; i < N; ++i)
    {
      for (std::size_t v = 0; v <= ds[i] + 2; ++v)
        cand[i].push_back(v);
      for (std::size_t v : {m, m / 2 + 1, std::size_t{1} << 63, (std::size_t{1} << 32), m - 1, m / sizeof(int) + 1})
        cand[i].push_back(v);
    }
    std::string dtxt;
    for (std::size_t i = 0; i < N; ++i)
      dtxt += (i ? "x" : "") + std::to_string(ds[i]);
    if (!vf::begin_case("dim=%s positions=(size+3+6)^%zu", dtxt.c_str(), N))
      continue;
    vf::sample_case(2);
    vf::note_distinct(vf::hash_mix(vf::hash_str(e), dcode));
    dim d = fcppt::math::dim::init<dim>([&ds](std::size_t const i) { return ds[i]; });
    grid g(d, 7);
    G &gr = g;
    std::array<std::size_t, N> ix{};
    bool done = false;
    while (!done)
    {
      pos p = fcppt::math::vector::init<pos>([&](std::size_t const i) { return cand[i][ix[i]]; });
      vf::operands(static_cast<long long>(cand[0][ix[0]]), N > 1 ? static_cast<long long>(cand[N > 1 ? 1 : 0][ix[N > 1 ? 1 : 0]]) : 0,
                   N > 2 ? static_cast<long long>(cand[N > 2 ? 2 : 0][ix[N > 2 ? 2 : 0]]) : 0);
      guard(wl_none, [&] {
        auto const r = fcppt::container::grid::at_optional(gr, p);
        judge_ref(g, r, "grid::at_optional");
      });
      ++calls;
      vf::add_evals(1);
      std::size_t k = 0;
      while (k < N && ++ix[k] == cand[k].size())
        ix[k++] = 0;
      done = k == N;
    }
  }
  vf::count("calls/" + e, calls);
}

template <std::size_t Size>
void from_range_size()
{
  std::string const e = "array::from_range<" + std::to_string(Size) + ">";
  if (!vf::entry_enabled(e))
    return;
  vf::set_entry(e);
  std::uint64_t calls = 0;
  for (std::size_t n = 0; n <= Size + 2; ++n)
    for (int kind = 0; kind < 5; ++kind)
    {
      if (!my_item())
        continue;
      static char const *const kinds[] = {"vector<int>&", "vector<string>&&", "deque<int>&", "string&", "vector<int> const&"};
      if (!vf::begin_case("source=%s size=%zu", kinds[kind], n))
        continue;
      vf::sample_case(2);
      vf::note_distinct(vf::hash_mix(vf::hash_str(e), n * 8 + static_cast<unsigned>(kind)));
      auto outcome = [](auto const &r) {
        static_assert(fcppt::optional::is_object<std::remove_cvref_t<decltype(r)>>::value);
        vf::count(r.has_value() ? "outcome/from_range/present" : "outcome/from_range/absent");
      };
      guard(wl_none, [&] {
        switch (kind)
        {
        case 0:
        {
          auto v = make_seq<std::vector<int>>(n);
          outcome(fcppt::array::from_range<Size>(v));
          break;
        }
        case 1:
        {
          auto v = make_seq<std::vector<std::string>>(n);
          outcome(fcppt::array::from_range<Size>(std::move(v)));
          break;
        }
        case 2:
        {
          auto v = make_seq<std::deque<int>>(n);
          outcome(fcppt::array::from_range<Size>(v));
          break;
        }
        case 3:
        {
          std::string v(n, 'x');
          outcome(fcppt::array::from_range<Size>(v));
          break;
        }
        default:
        {
          auto const v = make_seq<std::vector<int>>(n);
          outcome(fcppt::array::from_range<Size>(v));
          break;
        }
        }
      });
      ++calls;
    }
  vf::count("calls/" + e, calls);
}

template <class Index, Index Max>
void runtime_index_one()
{
  std::string const e = std::string("runtime_index<") + tn<Index>() + "," + std::to_string(Max) + ">";
  if (!vf::entry_enabled(e))
    return;
  vf::set_entry(e);
  auto const vals = unary_values<Index>(e, vf::tier<std::size_t>(500, 50000));
  if (!my_item())
    return;
  if (!vf::begin_case("indices=[%zu values]", vals.size()))
    return;
  vf::sample_case(1);
  vf::add_evals(vals.size() - 1);
  vf::note_distinct(vf::hash_mix(vf::hash_str(e), hash_values(vals)));
  for (Index const i : vals)
  {
    vf::operands(static_cast<long long>(i));
    guard(wl_none, [&] {
      long const r = fcppt::runtime_index<std::integral_constant<Index, Max>>(
          i, []<Index I>(std::integral_constant<Index, I>) -> long { return static_cast<long>(I); }, []() -> long { return -1; });
      if (r >= 0)
      {
        VF_COUNT("outcome/runtime_index/function");
        if (r >= static_cast<long>(Max))
          vf::violation(vf::st().entry + "/constant-out-of-range", "invalid-result", "constant " + std::to_string(r));
      }
      else
        VF_COUNT("outcome/runtime_index/fail-function");
    });
  }
  vf::count("calls/" + e, vals.size());
}

struct base
{
  virtual ~base() = default;
  int b = 1;
};
struct derived_a : base
{
  int a = 2;
};
struct derived_b : base
{
  int bb[4] = {3, 3, 3, 3};
};
struct derived_aa : derived_a
{
  int aa = 4;
};
struct other
{
  virtual ~other() = default;
  int o = 5;
};
struct both : derived_a, other
{
  int x = 6;
};

template <class Dest, class Src>
void dynamic_case(std::string const &e, char const *what, Src &src, void const *obj_begin, std::size_t const obj_size, bool const cross)
{
  if (!my_item())
    return;
  if (!vf::begin_case("%s", what))
    return;
  vf::sample_case(2);
  vf::note_distinct(vf::hash_mix(vf::hash_str(e), vf::hash_str(what)));
  guard(wl_none, [&] {
    auto const judge = [&](auto const &r) {
      static_assert(fcppt::optional::is_object<std::remove_cvref_t<decltype(r)>>::value);
      if (r.has_value())
      {
        VF_COUNT("outcome/dynamic/present");
        auto const *p = reinterpret_cast<char const *>(r.get_unsafe().operator->());
        auto const *b = static_cast<char const *>(obj_begin);
        if (p < b || p + sizeof(Dest) > b + obj_size)
          vf::violation(vf::st().entry + "/reference-outside-object", "invalid-result", what);
      }
      else
        VF_COUNT("outcome/dynamic/absent");
    };
    if constexpr (std::is_base_of_v<std::remove_cv_t<Src>, std::remove_cv_t<Dest>>)
    {
      (void)cross;
      judge(fcppt::cast::dynamic<Dest>(src));
    }
    else
      judge(fcppt::cast::dynamic_cross<Dest>(src));
  });
  vf::count("calls/" + e);
}

void dynamic_casts()
{
  derived_a da;
  derived_b db;
  derived_aa daa;
  both bo;
  base ba;
  {
    std::string const e = "cast::dynamic";
    if (vf::entry_enabled(e))
    {
      vf::set_entry(e);
      dynamic_case<derived_a, base>(e, "base&(derived_a)->derived_a", da, &da, sizeof da, false);
      dynamic_case<derived_a, base>(e, "base&(derived_b)->derived_a", db, &db, sizeof db, false);
      dynamic_case<derived_b, base>(e, "base&(derived_a)->derived_b", da, &da, sizeof da, false);
      dynamic_case<derived_aa, base>(e, "base&(derived_a)->derived_aa", da, &da, sizeof da, false);
      dynamic_case<derived_aa, base>(e, "base&(derived_aa)->derived_aa", daa, &daa, sizeof daa, false);
      dynamic_case<derived_a, base>(e, "base&(derived_aa)->derived_a", daa, &daa, sizeof daa, false);
      dynamic_case<derived_aa, derived_a>(e, "derived_a&(derived_a)->derived_aa", da, &da, sizeof da, false);
      dynamic_case<derived_a, base>(e, "base&(base)->derived_a", ba, &ba, sizeof ba, false);
      dynamic_case<both, base>(e, "base&(both)->both", bo, &bo, sizeof bo, false);
      dynamic_case<both, other>(e, "other&(both)->both", static_cast<other &>(bo), &bo, sizeof bo, false);
      base const &cda = da;
      dynamic_case<derived_a const, base const>(e, "base const&(derived_a)->derived_a const", cda, &da, sizeof da, false);
      base const &cdb = db;
      dynamic_case<derived_a const, base const>(e, "base const&(derived_b)->derived_a const", cdb, &db, sizeof db, false);
    }
  }
  {
    std::string const e = "cast::dynamic_cross";
    if (vf::entry_enabled(e))
    {
      vf::set_entry(e);
      dynamic_case<other, base>(e, "base&(both)->other", bo, &bo, sizeof bo, true);
      dynamic_case<other, base>(e, "base&(derived_a)->other", da, &da, sizeof da, true);
      dynamic_case<base, other>(e, "other&(both)->base", static_cast<other &>(bo), &bo, sizeof bo, true);
      other ot;
      dynamic_case<base, other>(e, "other&(other)->base", ot, &ot, sizeof ot, true);
      dynamic_case<derived_b, other>(e, "other&(both)->derived_b", static_cast<other &>(bo), &bo, sizeof bo, true);
      other const &cbo = bo;
      dynamic_case<derived_a const, other const>(e, "other const&(both)->derived_a const", cbo, &bo, sizeof bo, true);
    }
  }
}
}
void vf_slice_5()
{
  at_optional_one<std::vector<int>>("vector<int>");
  at_optional_one<std::vector<int> const>("vector<int>const");
  at_optional_one<std::vector<std::string>>("vector<string>");
  at_optional_one<std::deque<int>>("deque<int>");
  at_optional_one<std::deque<std::string> const>("deque<string>const");
  ends_one<std::vector<int>>("vector<int>");
  ends_one<std::vector<std::string>>("vector<string>");
  ends_one<std::vector<int> const>("vector<int>const");
  ends_one<std::deque<int>>("deque<int>");
  ends_one<std::deque<std::string>>("deque<string>");
  ends_one<std::list<int>>("list<int>");
  ends_one<std::list<std::string>>("list<string>");
  ends_one<std::list<int> const>("list<int>const");
  find_one<std::map<int, std::string>>("map<int,string>");
  find_one<std::map<int, std::string> const>("map<int,string>const");
  find_one<std::unordered_map<int, std::string>>("unordered_map<int,string>");
  grid_one<1, fcppt::container::grid::object<int, 1>>("grid<int,1>");
  grid_one<2, fcppt::container::grid::object<int, 2>>("grid<int,2>");
  grid_one<2, fcppt::container::grid::object<int, 2> const>("grid<int,2>const");
  grid_one<3, fcppt::container::grid::object<int, 3>>("grid<int,3>");
  from_range_size<0>();
  from_range_size<1>();
  from_range_size<2>();
  from_range_size<4>();
  runtime_index_one<std::uint8_t, 0>();
  runtime_index_one<std::uint8_t, 1>();
  runtime_index_one<std::uint8_t, 3>();
  runtime_index_one<std::uint8_t, 200>();
  runtime_index_one<std::uint16_t, 3>();
  runtime_index_one<std::uint16_t, 300>();
  runtime_index_one<std::uint32_t, 8>();
  runtime_index_one<std::uint64_t, 8>();
  dynamic_casts();
}
#endif

// =================================================================================================== strings and streams
#if VF_IN_SLICE(6) || VF_IN_SLICE(7)
#include <fcppt/optional/is_object.hpp>
#include <fcppt/optional/object.hpp>

#include <locale>

namespace
{
// grouping and a decimal comma: exercises the locale dependent paths of num_get
template <class Ch>
struct punct : std::numpunct<Ch>
{
  Ch do_decimal_point() const override { return Ch(','); }
  Ch do_thousands_sep() const override { return Ch('.'); }
  std::string do_grouping() const override { return "\3"; }
};

struct named_locale
{
  std::string name;
  std::locale loc;
};
[[maybe_unused]] std::vector<named_locale> locales()
{
  std::vector<named_locale> r;
  r.push_back({"classic", std::locale::classic()});
  try
  {
    r.push_back({"C.utf8", std::locale("C.utf8")});
  }
  catch (std::runtime_error const &)
  {
    vf::count("skipped/locale-C.utf8-not-installed");
  }
  r.push_back({"punct", std::locale(std::locale(std::locale::classic(), new punct<char>), new punct<wchar_t>)});
  return r;
}
}
#endif

#if VF_IN_SLICE(6)
#include <fcppt/extract_from_string.hpp>
#include <fcppt/extract_from_string_locale.hpp>
#include <fcppt/narrow.hpp>
#include <fcppt/narrow_locale.hpp>
#include <fcppt/widen.hpp>
#include <fcppt/widen_locale.hpp>
#include <codecvt>

namespace
{
template <class Dest, class Source>
void extract_one(char const *dname, char const *sname, std::vector<Source> const &inputs, std::vector<named_locale> const &locs)
{
  for (std::size_t li = 0; li <= locs.size(); ++li)
  {
    bool const plain = li == locs.size();
    std::string const e = plain ? std::string("extract_from_string<") + dname + "," + sname + ">"
                                : std::string("extract_from_string_locale<") + dname + "," + sname + "," + locs[li].name + ">";
    if (!vf::entry_enabled(e))
      continue;
    vf::set_entry(e);
    std::uint64_t calls = 0;
    for (Source const &s : inputs)
    {
      if (!my_item())
        continue;
      if (!vf::begin_case("string(len %zu)=\"%s\"", s.size(), printable(std::basic_string_view<typename Source::value_type>(s)).c_str()))
        continue;
      vf::sample_case(1);
      vf::note_distinct(vf::hash_mix(vf::hash_str(e), vf::hash_bytes(s.data(), s.size() * sizeof(typename Source::value_type))));
      guard(wl_none, [&] {
        auto const r = plain ? fcppt::extract_from_string<Dest>(s) : fcppt::extract_from_string_locale<Dest>(s, locs[li].loc);
        static_assert(fcppt::optional::is_object<std::remove_cvref_t<decltype(r)>>::value);
        if (r.has_value())
          VF_COUNT("outcome/extract_from_string/present");
        else
          VF_COUNT("outcome/extract_from_string/absent");
      });
      ++calls;
    }
    vf::count("calls/" + e, calls);
  }
}

void extract_all()
{
  auto const locs = locales();
  std::vector<std::string> in = string_lattice();
  {
    vf::rng g(vf::seed_for("extract-inputs"));
    for (unsigned i = 0; i < vf::tier(100U, 5000U); ++i)
      in.push_back(random_string(g, std::string_view("0123456789+-., eExX\t\na\0f", 24), 12));
  }
  std::vector<std::wstring> win;
  for (auto const &s : in)
    win.push_back(to_wide(s));
  win.push_back(std::wstring(1, static_cast<wchar_t>(0x663))); // ARABIC-INDIC DIGIT THREE
  win.push_back(std::wstring(1, static_cast<wchar_t>(0xFF11))); // FULLWIDTH DIGIT ONE
  win.push_back(std::wstring(1, static_cast<wchar_t>(0x10FFFF)));
  win.push_back(std::wstring(1, static_cast<wchar_t>(-1)));
  extract_one<int, std::string>("int", "string", in, locs);
  extract_one<unsigned, std::string>("unsigned", "string", in, locs);
  extract_one<short, std::string>("short", "string", in, locs);
  extract_one<unsigned short, std::string>("ushort", "string", in, locs);
  extract_one<long long, std::string>("llong", "string", in, locs);
  extract_one<unsigned long long, std::string>("ullong", "string", in, locs);
  extract_one<char, std::string>("char", "string", in, locs);
  extract_one<unsigned char, std::string>("uchar", "string", in, locs);
  extract_one<bool, std::string>("bool", "string", in, locs);
  extract_one<float, std::string>("float", "string", in, locs);
  extract_one<double, std::string>("double", "string", in, locs);
  extract_one<long double, std::string>("ldouble", "string", in, locs);
  extract_one<std::string, std::string>("string", "string", in, locs);
  extract_one<int, std::wstring>("int", "wstring", win, locs);
  extract_one<unsigned long long, std::wstring>("ullong", "wstring", win, locs);
  extract_one<short, std::wstring>("short", "wstring", win, locs);
  extract_one<wchar_t, std::wstring>("wchar_t", "wstring", win, locs);
  extract_one<bool, std::wstring>("bool", "wstring", win, locs);
  extract_one<double, std::wstring>("double", "wstring", win, locs);
  extract_one<std::wstring, std::wstring>("wstring", "wstring", win, locs);
}

// ---------------------------------------------------------------- narrow / widen
std::wstring from_cps(std::initializer_list<unsigned long> const cps)
{
  std::wstring r;
  for (unsigned long c : cps)
    r += static_cast<wchar_t>(c);
  return r;
}
std::vector<std::wstring> wide_inputs()
{
  std::vector<std::wstring> r{L"", L"a", L"abc", L" ", from_cps({0}), from_cps({'a', 0, 'b'}), from_cps({0xE9}),
                              from_cps({0x20AC}), from_cps({0x1F600}), from_cps({'a', 0x20AC}), from_cps({0x20AC, 'a'}),
                              from_cps({'a', 0x1F600, 'b', 0x1F600}), from_cps({0x7F}), from_cps({0x80}), from_cps({0x7FF}),
                              from_cps({0x800}), from_cps({0xFFFF}), from_cps({0x10000}), from_cps({0x10FFFF}),
                              from_cps({0x110000}), from_cps({0xD800}), from_cps({0xDFFF}), from_cps({0xD800, 0xDC00}),
                              from_cps({0x7FFFFFFF}), from_cps({0x80000000UL}), from_cps({0xFFFFFFFFUL}),
                              from_cps({'a', 0xD800}), from_cps({'a', 'b', 'c', 0x110000}), from_cps({0xFFFE}), from_cps({0xFEFF})};
  for (std::size_t n : {1U, 2U, 3U, 4U, 5U, 7U, 8U, 9U, 15U, 16U, 17U, 31U, 33U, 63U, 64U, 65U, 200U})
  {
    r.push_back(std::wstring(n, L'a'));
    r.push_back(std::wstring(n, static_cast<wchar_t>(0xE9)));
    r.push_back(std::wstring(n, static_cast<wchar_t>(0x20AC)));
    r.push_back(std::wstring(n, static_cast<wchar_t>(0x1F600)));
    r.push_back(std::wstring(n, L'a') + static_cast<wchar_t>(0x1F600));
    r.push_back(std::wstring(n, static_cast<wchar_t>(0x1F600)) + static_cast<wchar_t>(0xD800));
  }
  vf::rng g(vf::seed_for("wide-inputs"));
  for (unsigned i = 0; i < vf::tier(100U, 5000U); ++i)
  {
    std::wstring w;
    std::size_t const n = g.below(12);
    for (std::size_t k = 0; k < n; ++k)
    {
      static unsigned long const pool[] = {'a', 0, 0x7F, 0x80, 0xE9, 0x7FF, 0x800, 0x20AC, 0xD7FF, 0xD800, 0xDFFF, 0xE000,
                                           0xFFFF, 0x10000, 0x1F600, 0x10FFFF, 0x110000, 0xFFFFFFFFUL};
      w += static_cast<wchar_t>(g.chance(1, 4) ? g.below(0x120000) : pool[g.below(sizeof pool / sizeof pool[0])]);
    }
    r.push_back(w);
  }
  return r;
}
std::vector<std::string> byte_inputs()
{
  using S = std::string;
  std::vector<S> r = string_lattice();
  std::vector<S> const valid{"a", "\xc3\xa9", "\xe2\x82\xac", "\xf0\x9f\x98\x80", "a\xe2\x82\xac", "\xe2\x82\xac" "a",
                             "a\xf0\x9f\x98\x80" "b\xf0\x9f\x98\x80", "\xef\xbf\xbf", "\xf4\x8f\xbf\xbf"};
  for (S const &v : valid)
  {
    for (std::size_t k = 0; k <= v.size(); ++k)
    {
      r.push_back(v.substr(0, k));       // truncated
      r.push_back("ab" + v.substr(0, k)); // truncated after valid input
      r.push_back(v.substr(0, k) + "z");
    }
  }
  for (S const &v : {S("\xff"), S("\xfe\xff"), S("\x80"), S("\xbf"), S("\xc0\x80"), S("\xc1\xbf"), S("\xe0\x80\x80"),
                     S("\xed\xa0\x80"), S("\xed\xbf\xbf"), S("\xf4\x90\x80\x80"), S("\xf5\x80\x80\x80"),
                     S("\xf8\x88\x80\x80\x80"), S("\xfc\x84\x80\x80\x80\x80"), S("a\0b", 3), S("\0", 1), S("\xc3\0", 2),
                     S("\xc3\xc3\xa9"), S("\xe2\x82\xe2\x82\xac")})
    r.push_back(v);
  for (std::size_t n : {1U, 2U, 3U, 4U, 5U, 7U, 8U, 9U, 15U, 16U, 17U, 31U, 33U, 63U, 64U, 65U, 200U})
  {
    S a(n, 'a'), e, eu, em;
    for (std::size_t i = 0; i < n; ++i)
    {
      e += "\xc3\xa9";
      eu += "\xe2\x82\xac";
      em += "\xf0\x9f\x98\x80";
    }
    r.push_back(a);
    r.push_back(e);
    r.push_back(eu);
    r.push_back(em);
    r.push_back(em.substr(0, em.size() - 1));
    r.push_back(a + "\xf0\x9f\x98");
    r.push_back(a + "\xff");
  }
  vf::rng g(vf::seed_for("byte-inputs"));
  for (unsigned i = 0; i < vf::tier(100U, 5000U); ++i)
  {
    S w;
    std::size_t const n = g.below(10);
    for (std::size_t k = 0; k < n; ++k)
    {
      static unsigned char const pool[] = {'a', 0, 0x7F, 0x80, 0xBF, 0xC0, 0xC2, 0xC3, 0xA9, 0xE0, 0xE2, 0x82, 0xAC, 0xED,
                                           0xA0, 0xEF, 0xF0, 0x9F, 0x98, 0xF4, 0x8F, 0x90, 0xF5, 0xF8, 0xFE, 0xFF};
      w += static_cast<char>(g.chance(1, 4) ? g.below(256) : pool[g.below(sizeof pool)]);
    }
    r.push_back(w);
  }
  return r;
}

// conversion facets that behave differently from glibc's (which swallows an incomplete trailing sequence into the
// mbstate and answers ok): std::codecvt_utf8 reports it as `partial` without consuming anything, as the standard words
// it; and three degenerate facets - one that never makes progress, one that always fails, one that never converts.
// Whatever the facet does, the conversion functions must come back (a value, nothing, or the documented exception).
template <std::codecvt_base::result Answer>
struct fixed_answer_cvt : std::codecvt<wchar_t, char, std::mbstate_t>
{
  result do_out(std::mbstate_t &, wchar_t const *f, wchar_t const *, wchar_t const *&fn, char *t, char *, char *&tn) const override
  {
    fn = f;
    tn = t;
    return Answer;
  }
  result do_in(std::mbstate_t &, char const *f, char const *, char const *&fn, wchar_t *t, wchar_t *, wchar_t *&tn) const override
  {
    fn = f;
    tn = t;
    return Answer;
  }
  int do_max_length() const noexcept override { return 4; }
  int do_encoding() const noexcept override { return 0; }
  bool do_always_noconv() const noexcept override { return false; }
};
std::vector<named_locale> codecvt_locales()
{
  std::vector<named_locale> r = locales(); // the punct locale has the classic codecvt facet
  r.push_back({"std::codecvt_utf8", std::locale(std::locale::classic(), new std::codecvt_utf8<wchar_t>)});
  r.push_back({"facet-always-partial", std::locale(std::locale::classic(), new fixed_answer_cvt<std::codecvt_base::partial>)});
  r.push_back({"facet-always-error", std::locale(std::locale::classic(), new fixed_answer_cvt<std::codecvt_base::error>)});
  r.push_back({"facet-always-noconv", std::locale(std::locale::classic(), new fixed_answer_cvt<std::codecvt_base::noconv>)});
  return r;
}

void codecvt_all()
{
  auto const locs = codecvt_locales();
  auto const wide = wide_inputs();
  auto const bytes = byte_inputs();
  for (std::size_t li = 0; li <= locs.size(); ++li)
  {
    bool const plain = li == locs.size();
    {
      std::string const e = plain ? std::string("narrow") : "narrow_locale<" + locs[li].name + ">";
      if (vf::entry_enabled(e))
      {
        vf::set_entry(e);
        std::uint64_t calls = 0;
        for (std::wstring const &w : wide)
        {
          if (!my_item())
            continue;
          if (!vf::begin_case("wstring(len %zu)=\"%s\"", w.size(), printable(std::wstring_view(w)).c_str()))
            continue;
          vf::sample_case(1);
          vf::note_distinct(vf::hash_mix(vf::hash_str(e), vf::hash_bytes(w.data(), w.size() * sizeof(wchar_t))));
          exact_buf<wchar_t> const buf{std::wstring_view(w)};
          guard(wl_none, [&] {
            auto const r = plain ? fcppt::narrow(buf.view()) : fcppt::narrow_locale(buf.view(), locs[li].loc);
            static_assert(fcppt::optional::is_object<std::remove_cvref_t<decltype(r)>>::value);
            if (r.has_value())
              VF_COUNT("outcome/narrow/present");
            else
              VF_COUNT("outcome/narrow/absent");
          });
          ++calls;
        }
        vf::count("calls/" + e, calls);
      }
    }
    {
      std::string const e = plain ? std::string("widen") : "widen_locale<" + locs[li].name + ">";
      if (vf::entry_enabled(e))
      {
        vf::set_entry(e);
        std::uint64_t calls = 0;
        for (std::string const &b : bytes)
        {
          if (!my_item())
            continue;
          if (!vf::begin_case("string(len %zu)=\"%s\"", b.size(), printable(std::string_view(b)).c_str()))
            continue;
          vf::sample_case(1);
          vf::note_distinct(vf::hash_mix(vf::hash_str(e), vf::hash_str(b)));
          exact_buf<char> const buf{std::string_view(b)};
          // documented: \throw std::runtime_error if the conversion fails
          if (guard(wl_runtime_error, [&] {
                std::wstring const r = plain ? fcppt::widen(buf.view()) : fcppt::widen_locale(buf.view(), locs[li].loc);
                (void)r;
              }))
            VF_COUNT("outcome/widen/returned");
          else
            VF_COUNT("outcome/widen/threw");
          ++calls;
        }
        vf::count("calls/" + e, calls);
      }
    }
  }
}
}
void vf_slice_6()
{
  extract_all();
  codecvt_all();
}
#endif

#if VF_IN_SLICE(7)
#include <fcppt/io/extract.hpp>
#include <fcppt/io/get.hpp>
#include <fcppt/io/peek.hpp>
#include <fcppt/io/read.hpp>
#include <fcppt/io/read_chars.hpp>
#include <fcppt/io/stream_to_string.hpp>
#include <fcppt/io/widen_string.hpp>
#include <fcppt/time/gmtime.hpp>
#include <fcppt/time/localtime.hpp>
#include <atomic>
#include <ctime>
#include <thread>

#include <bit>

extern std::size_t c01_current_text_size; // length of the text behind the stream under test (for io::read_chars)
namespace
{
// One stream under test: either a std::istringstream (reference behaviour, fault free) or an istream over a
// fault-injecting buffer.  `badbit_exceptions`: the caller switched exceptions(badbit) on.
struct stream_cfg
{
  fault kind;
  std::size_t k;
  bool seekable;
  bool badbit_exceptions;
  bool stringstream; // plain std::istringstream, no double
};
std::string cfg_text(stream_cfg const &c)
{
  if (c.stringstream)
    return "istringstream";
  return std::string(c.kind == fault::none ? "none" : c.kind == fault::eof_after ? "eof_after" : "throw_after") + "(" +
         std::to_string(c.k) + ")" + (c.seekable ? ",seekable" : ",noseek") + (c.badbit_exceptions ? ",exceptions(badbit)" : "");
}
std::vector<stream_cfg> stream_cfgs(std::size_t const n)
{
  std::vector<stream_cfg> r;
  r.push_back({fault::none, 0, false, false, true});
  for (bool seekable : {false, true})
  {
    r.push_back({fault::none, 0, seekable, false, false});
    for (bool ex : {false, true})
      for (fault f : {fault::eof_after, fault::throw_after})
        for (std::size_t k = 0; k <= n; ++k)
          r.push_back({f, k, seekable, ex, false});
  }
  return r;
}

// Runs `op(stream)` on a fresh stream for every configuration; op returns whether its LAST result was present.
template <class Ch, class Op>
void io_matrix(std::string const &e, std::vector<std::basic_string<Ch>> const &texts, Op const &op)
{
  if (!vf::entry_enabled(e))
    return;
  vf::set_entry(e);
  std::uint64_t calls = 0;
  for (auto const &text : texts)
    for (stream_cfg const &cfg : stream_cfgs(text.size()))
    {
      if (!my_item())
        continue;
      if (!vf::begin_case("text(len %zu)=\"%s\" stream=%s", text.size(), printable(std::basic_string_view<Ch>(text)).c_str(),
                          cfg_text(cfg).c_str()))
        continue;
      vf::sample_case(2);
      vf::note_distinct(vf::hash_mix(vf::hash_mix(vf::hash_str(e), vf::hash_bytes(text.data(), text.size() * sizeof(Ch))),
                                     vf::hash_str(cfg_text(cfg))));
      ++calls;
      c01_current_text_size = text.size();
      if (cfg.stringstream)
      {
        std::basic_istringstream<Ch> is(text);
        guard(wl_none, [&] { op(is); });
        VF_COUNT("streams/istringstream");
        continue;
      }
      fault_buf<Ch> buf(text, cfg.kind, cfg.k, cfg.seekable);
      std::basic_istream<Ch> is(&buf);
      if (cfg.badbit_exceptions)
        is.exceptions(std::ios_base::badbit);
      bool last_present = false;
      // judged configuration: exceptions() off => nothing may escape.  With exceptions(badbit) switched on by the
      // caller the standard stream itself rethrows: ios_base::failure and the injected type are whitelisted.
      bool const returned = guard(cfg.badbit_exceptions ? (wl_ios_failure | wl_injected) : wl_none, [&] { last_present = op(is); });
      if (buf.exhausted())
        vf::violation("harness/double-budget-exhausted", "harness", e + ": the reader did not stop at end of file");
      if (cfg.kind == fault::throw_after)
      {
        if (buf.fault_reached())
          vf::count(cfg.badbit_exceptions ? "faults/throw/reached/exceptions-on" : "faults/throw/reached/exceptions-off");
        else
          VF_COUNT("faults/throw/not-reached");
        if (buf.fault_reached() && !cfg.badbit_exceptions && returned)
        {
          vf::count(std::string("observed/after-throwing-underflow/") + (last_present ? "last-result-present" : "last-result-absent"));
          if (last_present)
            vf::observation(e + ": the result was still present although the stream buffer threw from underflow with "
                                "exceptions() off (observed only; seen when the fault is at position 0: an empty string is returned)");
        }
      }
      else if (cfg.kind == fault::eof_after)
        vf::count(buf.fault_reached() ? "faults/eof/reached" : "faults/eof/not-reached");
      if (!returned)
        vf::count(cfg.badbit_exceptions ? "faults/escaped/exceptions-on" : "faults/escaped/exceptions-off");
    }
  vf::count("calls/" + e, calls);
}

template <class T>
void io_read_one(char const *tname, std::vector<std::string> const &texts)
{
  for (std::endian const en : {std::endian::little, std::endian::big})
    io_matrix<char>(std::string("io::read<") + tname + "," + (en == std::endian::little ? "little" : "big") + ">", texts,
                    [en](std::istream &s) {
                      bool last = false;
                      for (int i = 0; i < 3; ++i)
                      {
                        auto const r = fcppt::io::read<T>(s, en);
                        static_assert(fcppt::optional::is_object<std::remove_cvref_t<decltype(r)>>::value);
                        last = r.has_value();
                        vf::count(last ? "outcome/io::read/present" : "outcome/io::read/absent");
                      }
                      return last;
                    });
}

template <class T, class Ch>
void io_extract_one(char const *tname, std::vector<std::basic_string<Ch>> const &texts)
{
  io_matrix<Ch>(std::string("io::extract<") + tname + (sizeof(Ch) == 1 ? ",char>" : ",wchar_t>"), texts,
                [](std::basic_istream<Ch> &s) {
                  bool last = false;
                  for (int i = 0; i < 3; ++i)
                  {
                    auto const r = fcppt::io::extract<T>(s);
                    static_assert(fcppt::optional::is_object<std::remove_cvref_t<decltype(r)>>::value);
                    last = r.has_value();
                    vf::count(last ? "outcome/io::extract/present" : "outcome/io::extract/absent");
                  }
                  return last;
                });
}

// Objects that a factory function returns must not depend on the lifetime of the factory's ARGUMENTS: the object made by
// io::widen_string from a string that is gone by the time it is streamed (a temporary, a local that went out of scope)
void io_object_lifetimes()
{
  std::string const e = "io::widen_string(object-outlives-its-argument)";
  if (!vf::entry_enabled(e))
    return;
  vf::set_entry(e);
  std::uint64_t calls = 0;
  for (std::size_t len : {std::size_t{0}, std::size_t{1}, std::size_t{15}, std::size_t{16}, std::size_t{40}, std::size_t{300}})
  {
    if (!my_item())
      continue;
    if (!vf::begin_case("string of %zu characters: from a temporary, from a local that is destroyed, streamed afterwards", len))
      continue;
    vf::note_distinct(vf::hash_mix(vf::hash_str(e), len));
    std::string want;
    for (std::size_t i = 0; i < len; ++i)
      want += static_cast<char>('a' + i % 26);
    guard(wl_none, [&] {
      auto const from_temporary = fcppt::io::widen_string(std::string(want)); // the temporary dies here
      auto const from_local = [&want] {
        std::unique_ptr<std::string> local(new std::string(want));
        auto w = fcppt::io::widen_string(*local);
        local.reset();
        return w;
      }();
      std::wostringstream o1, o2;
      o1 << from_temporary;
      o2 << from_local;
      std::wstring const ww(want.begin(), want.end());
      if (o1.str() != ww || o2.str() != ww)
        vf::count("observed/widen_string/text-differs");
    });
    VF_COUNT("bucket/io-object-streamed-after-its-argument-died");
    ++calls;
  }
  vf::count("calls/" + e, calls);
}

// Functions that return a value computed from their argument alone are safe to call from several threads at once (no
// hidden shared buffer): time::localtime / time::gmtime from two threads with different arguments, every result compared
// with the re-entrant C function for the same argument.
void time_from_two_threads()
{
  std::string const e = "time::localtime,gmtime(two-threads)";
  if (!vf::entry_enabled(e) || !vf::mine(vf::hash_str(e)))
    return;
  vf::set_entry(e);
  if (!vf::begin_case("four threads (two on localtime, two on gmtime), 150000 calls each over 64 different arguments per thread"))
    return;
  vf::note_distinct(vf::hash_str(e));
  std::atomic<unsigned> mismatches{0}, calls{0};
  // expected values first (re-entrant C functions), then four threads in a tight loop over the library functions only
  struct row
  {
    std::time_t t;
    std::tm local, utc;
  };
  auto const table = [](std::time_t base, std::time_t step) {
    std::vector<row> r(64);
    for (std::size_t k = 0; k < r.size(); ++k)
    {
      r[k].t = base + step * static_cast<std::time_t>(k);
      ::localtime_r(&r[k].t, &r[k].local);
      ::gmtime_r(&r[k].t, &r[k].utc);
    }
    return r;
  };
  auto const same = [](std::tm const &a, std::tm const &b) {
    return a.tm_year == b.tm_year && a.tm_mon == b.tm_mon && a.tm_mday == b.tm_mday && a.tm_hour == b.tm_hour && a.tm_min == b.tm_min && a.tm_sec == b.tm_sec;
  };
  std::atomic<unsigned> ready{0};
  auto const worker = [&](std::vector<row> const &rows, bool local) {
    ++ready;
    while (ready.load() < 4)
    {
    }
    unsigned bad = 0;
    for (int k = 0; k < 150000; ++k)
    {
      row const &r = rows[static_cast<std::size_t>(k) % rows.size()];
      if (local ? !same(fcppt::time::localtime(r.t), r.local) : !same(fcppt::time::gmtime(r.t), r.utc))
        ++bad;
    }
    mismatches += bad;
    calls += 150000;
  };
  auto const t1 = table(std::time_t{1234567890}, std::time_t{86400 * 37}), t2 = table(std::time_t{86400}, std::time_t{86400 * 365}), t3 = table(std::time_t{946684800}, std::time_t{3601}),
             t4 = table(std::time_t{1700000000}, std::time_t{86400 * 11});
  guard(wl_none, [&] {
    std::thread a(worker, std::cref(t1), true), b(worker, std::cref(t2), true), c(worker, std::cref(t3), false), d(worker, std::cref(t4), false);
    a.join();
    b.join();
    c.join();
    d.join();
  });
  vf::count("calls/" + e, calls.load());
  VF_COUNT("bucket/time-functions-from-two-threads");
  if (mismatches.load() != 0)
    vf::violation("time::localtime,gmtime/result-of-another-thread", "mismatch",
                  std::to_string(mismatches.load()) + " of " + std::to_string(calls.load()) + " concurrent calls returned the broken-down time of another argument");
}

void io_all()
{
  io_object_lifetimes();
  time_from_two_threads();
  std::vector<std::string> const texts{"", "7", "12345 678", "-42 x", "3.25e2", "hello world", " \t\n", std::string("\0\1\2\3\4\5\6\7\x08\x09", 10),
                                       "99999999999999999999 1", "\xff\xfe\xfd\xfc"};
  std::vector<std::wstring> wtexts;
  for (auto const &t : texts)
    wtexts.push_back(to_wide(t));
  wtexts.push_back(std::wstring(3, static_cast<wchar_t>(0x20AC)));

  io_matrix<char>("io::stream_to_string<char>", texts, [](std::istream &s) {
    auto const r = fcppt::io::stream_to_string(s);
    static_assert(fcppt::optional::is_object<std::remove_cvref_t<decltype(r)>>::value);
    vf::count(r.has_value() ? "outcome/io::stream_to_string/present" : "outcome/io::stream_to_string/absent");
    auto const r2 = fcppt::io::stream_to_string(s); // again, at end of file / in the failed state
    return r.has_value() && r2.has_value();
  });
  io_matrix<wchar_t>("io::stream_to_string<wchar_t>", wtexts, [](std::wistream &s) {
    auto const r = fcppt::io::stream_to_string(s);
    vf::count(r.has_value() ? "outcome/io::stream_to_string/present" : "outcome/io::stream_to_string/absent");
    return r.has_value();
  });
  io_matrix<char>("io::get<char>", texts, [](std::istream &s) {
    bool last = false;
    for (int i = 0; i < 14; ++i)
    {
      auto const r = fcppt::io::get(s);
      static_assert(fcppt::optional::is_object<std::remove_cvref_t<decltype(r)>>::value);
      last = r.has_value();
      vf::count(last ? "outcome/io::get/present" : "outcome/io::get/absent");
    }
    return last;
  });
  io_matrix<wchar_t>("io::get<wchar_t>", wtexts, [](std::wistream &s) {
    bool last = false;
    for (int i = 0; i < 14; ++i)
      last = fcppt::io::get(s).has_value();
    return last;
  });
  io_matrix<char>("io::peek<char>", texts, [](std::istream &s) {
    bool last = false;
    for (int i = 0; i < 14; ++i)
    {
      auto const r = fcppt::io::peek(s);
      static_assert(fcppt::optional::is_object<std::remove_cvref_t<decltype(r)>>::value);
      last = r.has_value();
      vf::count(last ? "outcome/io::peek/present" : "outcome/io::peek/absent");
      if (i % 2 == 1)
        (void)fcppt::io::get(s);
    }
    return last;
  });
  io_matrix<wchar_t>("io::peek<wchar_t>", wtexts, [](std::wistream &s) {
    bool last = false;
    for (int i = 0; i < 14; ++i)
    {
      last = fcppt::io::peek(s).has_value();
      if (i % 2 == 1)
        (void)fcppt::io::get(s);
    }
    return last;
  });
  // read_chars with counts 0, n-1, n, n+1 (n = length of the text), each on a fresh stream and once more after it
  for (int delta : {-100, -1, 0, 1, 7})
    io_matrix<char>("io::read_chars<count=" + std::string(delta == -100 ? "0" : delta < 0 ? "n-1" : delta == 0 ? "n" : delta == 1 ? "n+1" : "n+7") + ">",
                    texts, [delta](std::istream &s) {
                      std::size_t const n = c01_current_text_size;
                      std::size_t const count = delta == -100 ? 0U : (delta < 0 && n == 0) ? 0U : static_cast<std::size_t>(static_cast<long>(n) + delta);
                      auto const r = fcppt::io::read_chars(s, count);
                      static_assert(fcppt::optional::is_object<std::remove_cvref_t<decltype(r)>>::value);
                      vf::count(r.has_value() ? "outcome/io::read_chars/present" : "outcome/io::read_chars/absent");
                      auto const r2 = fcppt::io::read_chars(s, 2);
                      return r.has_value() && r2.has_value();
                    });
  io_extract_one<int, char>("int", texts);
  io_extract_one<unsigned short, char>("ushort", texts);
  io_extract_one<double, char>("double", texts);
  io_extract_one<char, char>("char", texts);
  io_extract_one<bool, char>("bool", texts);
  io_extract_one<std::string, char>("string", texts);
  io_extract_one<int, wchar_t>("int", wtexts);
  io_extract_one<std::wstring, wchar_t>("wstring", wtexts);
  io_read_one<std::uint8_t>("u8", texts);
  io_read_one<std::uint16_t>("u16", texts);
  io_read_one<std::int32_t>("i32", texts);
  io_read_one<std::uint64_t>("u64", texts);
  io_read_one<float>("float", texts);
  io_read_one<double>("double", texts);
}
}
std::size_t c01_current_text_size = 0;
void vf_slice_7() { io_all(); }
#endif

// =================================================================================================== filesystem
#if VF_IN_SLICE(8)
#include <fcppt/either/object.hpp>
#include <fcppt/filesystem/create_directories_recursive.hpp>
#include <fcppt/filesystem/create_directory.hpp>
#include <fcppt/filesystem/directory_range.hpp>
#include <fcppt/filesystem/extension.hpp>
#include <fcppt/filesystem/extension_without_dot.hpp>
#include <fcppt/filesystem/file_size.hpp>
#include <fcppt/filesystem/make_directory_range.hpp>
#include <fcppt/filesystem/make_recursive_directory_range.hpp>
#include <fcppt/filesystem/normalize.hpp>
#include <fcppt/filesystem/num_subpaths.hpp>
#include <fcppt/filesystem/open.hpp>
#include <fcppt/filesystem/path_to_string.hpp>
#include <fcppt/filesystem/recursive_directory_range.hpp>
#include <fcppt/filesystem/remove_extension.hpp>
#include <fcppt/filesystem/replace_extension.hpp>
#include <fcppt/filesystem/stem.hpp>
#include <fcppt/optional/is_object.hpp>
#include <fcppt/optional/object.hpp>

#include <filesystem>
#include <fstream>
#include <system_error>

namespace
{
namespace fs = std::filesystem;

// everything that touches the file system happens below this directory (VERIF_SCRATCH, per run and partition)
fs::path scratch_root()
{
  char const *env = std::getenv("VERIF_SCRATCH");
  fs::path const r = env != nullptr && *env != 0
                         ? fs::path(env)
                         : fs::temp_directory_path() / ("verif_c01_scratch_" + std::to_string(::getpid()));
  std::error_code ec;
  fs::create_directories(r, ec);
  return r;
}

void make_fixture(fs::path const &root)
{
  std::error_code ec;
  fs::create_directories(root / "d" / "sub", ec);
  {
    std::ofstream f(root / "f.txt");
    f << "12345";
  }
  {
    std::ofstream f(root / "e");
  }
  {
    std::ofstream f(root / "d" / "file.x");
    f << "x";
  }
  fs::create_symlink("no-such-target", root / "dangling", ec);
  fs::create_symlink("f.txt", root / "lnk", ec);
  fs::create_symlink("loop", root / "loop", ec);
  fs::create_directory_symlink("d", root / "dlnk", ec);
  fs::create_directory_symlink("..", root / "d" / "sub" / "up", ec); // a cycle for follow_directory_symlink
}

std::vector<std::string> lexical_paths()
{
  using S = std::string;
  std::vector<S> r{"", ".", "..", "a", "a.b", ".b", "a.", "a/", "a/b.c/", "/", "...", "//", "///a", "a//b", "a.b.c", "a/.b",
                   "a/b.", "a/..", "a/.", "./", "../", "/.", "/..", ".a.", "..a", "a..", "a/b/c/d/e/f", " ", "a b.c d",
                   "\xff\xfe.x", "C:\\x.y", "/a.b/c", "/a.b/", "a.b/.", "a.b/..", ".../...", "a/...", "-", "~", "a.b/c.d/e.f"};
  r.push_back(S("a\0b.c", 5));
  r.push_back(S("\0", 1));
  r.push_back(S(300, 'n') + ".ext");
  S deep;
  for (int i = 0; i < 2500; ++i)
    deep += "a/";
  r.push_back(deep);
  r.push_back(deep + "x.y");
  r.push_back(S(5000, '.'));
  r.push_back(S(5000, '/'));
  return r;
}

std::vector<std::string> relative_paths()
{
  using S = std::string;
  std::vector<S> r{"", ".", "..", "a", "a.b", ".b", "a.", "a/", "a/b.c/", "...", "nonexistent", "nonexistent/child", "d", "d/",
                   "d/sub", "d/sub/..", "d/sub/up", "f.txt", "f.txt/x", "f.txt/", "e", "dangling", "dangling/x", "lnk", "dlnk",
                   "dlnk/sub", "loop", "loop/x", "\xff\xfe", "with space", "d/new/deeper/still"};
  r.push_back(S(300, 'n'));
  r.push_back(S("nul\0byte", 8));
  return r;
}

template <class F>
void lexical(std::string const &e, F const &f)
{
  if (!vf::entry_enabled(e))
    return;
  vf::set_entry(e);
  std::uint64_t calls = 0;
  for (std::string const &ps : lexical_paths())
  {
    if (!my_item())
      continue;
    if (!vf::begin_case("path(len %zu)=\"%s\"", ps.size(), printable(ps).c_str()))
      continue;
    vf::sample_case(2);
    vf::note_distinct(vf::hash_mix(vf::hash_str(e), vf::hash_str(ps)));
    fs::path const p{ps};
    guard(wl_none, [&] { f(p); });
    ++calls;
  }
  vf::count("calls/" + e, calls);
}

std::uint64_t &fixture_counter()
{
  static std::uint64_t n = 0;
  return n;
}

// f(path) on a fresh fixture for every relative path of the workload, plus the really empty path
template <class F>
void touching(std::string const &e, fs::path const &scratch, F const &f)
{
  if (!vf::entry_enabled(e))
    return;
  vf::set_entry(e);
  std::uint64_t calls = 0;
  std::vector<std::string> rels = relative_paths();
  rels.push_back("<the empty path>");
  for (std::string const &rel : rels)
  {
    if (!my_item())
      continue;
    if (!vf::begin_case("path=<fixture>/\"%s\"", printable(rel).c_str()))
      continue;
    vf::sample_case(2);
    vf::note_distinct(vf::hash_mix(vf::hash_str(e), vf::hash_str(rel)));
    fs::path const root = scratch / ("c" + std::to_string(fixture_counter()++));
    make_fixture(root);
    fs::path const p = rel == "<the empty path>" ? fs::path{} : root / fs::path{rel};
    guard(wl_none, [&] { f(p); });
    ++calls;
    std::error_code ec;
    fs::remove_all(root, ec);
  }
  vf::count("calls/" + e, calls);
}

template <class Range>
void walk(Range const &range, char const *name)
{
  std::error_code ec;
  unsigned n = 0;
  for (auto it = range.begin(); it != range.end() && n < 2000; it.increment(ec), ++n)
  {
    if (ec)
      break;
  }
  vf::count_max(std::string("max/") + name + "/entries", n);
}

void filesystem_all()
{
  fs::path const scratch = scratch_root();
  lexical("filesystem::remove_extension", [](fs::path const &p) { (void)fcppt::filesystem::remove_extension(p); });
  lexical("filesystem::extension", [](fs::path const &p) { (void)fcppt::filesystem::extension(p); });
  lexical("filesystem::extension_without_dot", [](fs::path const &p) { (void)fcppt::filesystem::extension_without_dot(p); });
  lexical("filesystem::stem", [](fs::path const &p) { (void)fcppt::filesystem::stem(p); });
  lexical("filesystem::normalize", [](fs::path const &p) { (void)fcppt::filesystem::normalize(p); });
  lexical("filesystem::num_subpaths", [](fs::path const &p) { (void)fcppt::filesystem::num_subpaths(p); });
  lexical("filesystem::path_to_string", [](fs::path const &p) { (void)fcppt::filesystem::path_to_string(p); });
  lexical("filesystem::replace_extension", [](fs::path const &p) {
    using S = std::string;
    for (S const &ext : {S(""), S("x"), S(".x"), S(".."), S("a.b"), S("/"), S("a/b"), S("x\0y", 3), S(300, 'e')})
    {
      // libstdc++ 12 (this image): std::filesystem::path("/") += "./" (and "//") writes past a heap block inside
      // libstdc++.so (memcheck: "Invalid write ... path::operator+=", reproducible without fcppt).  ASan cannot see it
      // (libstdc++.so is not instrumented) but the process heap is damaged, so the two combinations are not executed.
      if (ext == "/" && !p.empty() && p == p.root_directory())
      {
        VF_COUNT("skipped/libstdc++-12-path-append-overflow(platform-defect)");
        continue;
      }
      exact_buf<char> const buf{std::string_view(ext)};
      (void)fcppt::filesystem::replace_extension(p, buf.view());
      vf::add_evals(1);
    }
  });
  lexical("filesystem::file_size/lexical-paths", [](fs::path const &p) {
    // relative and absolute paths as they are (read-only): almost all of them do not exist
    auto const r = fcppt::filesystem::file_size(p);
    static_assert(fcppt::optional::is_object<std::remove_cvref_t<decltype(r)>>::value);
    vf::count(r.has_value() ? "outcome/file_size/present" : "outcome/file_size/absent");
  });
  touching("filesystem::file_size", scratch, [](fs::path const &p) {
    auto const r = fcppt::filesystem::file_size(p);
    static_assert(fcppt::optional::is_object<std::remove_cvref_t<decltype(r)>>::value);
    vf::count(r.has_value() ? "outcome/file_size/present" : "outcome/file_size/absent");
  });
  touching("filesystem::create_directory", scratch, [](fs::path const &p) {
    auto const r = fcppt::filesystem::create_directory(p);
    static_assert(fcppt::optional::is_object<std::remove_cvref_t<decltype(r)>>::value);
    vf::count(r.has_value() ? "outcome/create_directory/error" : "outcome/create_directory/no-error");
    auto const r2 = fcppt::filesystem::create_directory(p); // again: now it exists (or still fails)
    (void)r2;
  });
  touching("filesystem::create_directories_recursive", scratch, [](fs::path const &p) {
    auto const r = fcppt::filesystem::create_directories_recursive(p);
    static_assert(fcppt::optional::is_object<std::remove_cvref_t<decltype(r)>>::value);
    vf::count(r.has_value() ? "outcome/create_directories_recursive/error" : "outcome/create_directories_recursive/no-error");
    auto const r2 = fcppt::filesystem::create_directories_recursive(p);
    (void)r2;
  });
  for (auto const &[oname, opt] : {std::pair<char const *, fs::directory_options>{"none", fs::directory_options::none},
                                   {"skip_permission_denied", fs::directory_options::skip_permission_denied},
                                   {"follow_directory_symlink", fs::directory_options::follow_directory_symlink}})
  {
    touching(std::string("filesystem::make_directory_range<") + oname + ">", scratch, [opt = opt](fs::path const &p) {
      auto const r = fcppt::filesystem::make_directory_range(p, opt);
      if (r.has_success())
      {
        VF_COUNT("outcome/make_directory_range/success");
        walk(r.get_success_unsafe(), "directory_range");
      }
      else
        VF_COUNT("outcome/make_directory_range/failure");
    });
    touching(std::string("filesystem::make_recursive_directory_range<") + oname + ">", scratch, [opt = opt](fs::path const &p) {
      auto const r = fcppt::filesystem::make_recursive_directory_range(p, opt);
      if (r.has_success())
      {
        VF_COUNT("outcome/make_recursive_directory_range/success");
        walk(r.get_success_unsafe(), "recursive_directory_range");
      }
      else
        VF_COUNT("outcome/make_recursive_directory_range/failure");
    });
  }
  touching("filesystem::open<ifstream>", scratch, [](fs::path const &p) {
    auto const r = fcppt::filesystem::open<std::ifstream>(p, std::ios_base::in | std::ios_base::binary);
    static_assert(fcppt::optional::is_object<std::remove_cvref_t<decltype(r)>>::value);
    vf::count(r.has_value() ? "outcome/open/present" : "outcome/open/absent");
  });
  touching("filesystem::open<ofstream>", scratch, [](fs::path const &p) {
    if (p.empty())
      return;
    auto const r = fcppt::filesystem::open<std::ofstream>(p, std::ios_base::out);
    vf::count(r.has_value() ? "outcome/open/present" : "outcome/open/absent");
  });
  std::error_code ec;
  fs::remove_all(scratch, ec);
}
}
void vf_slice_8() { filesystem_all(); }
#endif

// =================================================================================================== options
#if VF_IN_SLICE(9) || VF_IN_SLICE(12)
#include <fcppt/args_vector.hpp>
#include <fcppt/either/object.hpp>
#include <fcppt/optional/is_object.hpp>
#include <fcppt/optional/make.hpp>
#include <fcppt/optional/object.hpp>
#include <fcppt/container/raw_vector/object_impl.hpp>
#include <fcppt/endianness/reverse_mem.hpp>
#include <fcppt/options/apply.hpp>
#include <fcppt/options/argument.hpp>
#include <fcppt/options/default_help_switch.hpp>
#include <fcppt/options/duplicate_names.hpp>
#include <fcppt/options/exception.hpp>
#include <fcppt/options/flag.hpp>
#include <fcppt/options/help_text.hpp>
#include <fcppt/options/long_name.hpp>
#include <fcppt/options/make_active_value.hpp>
#include <fcppt/options/make_commands.hpp>
#include <fcppt/options/make_default_value.hpp>
#include <fcppt/options/make_inactive_value.hpp>
#include <fcppt/options/make_many.hpp>
#include <fcppt/options/make_optional.hpp>
#include <fcppt/options/make_sub_command.hpp>
#include <fcppt/options/make_sum.hpp>
#include <fcppt/options/no_default_value.hpp>
#include <fcppt/options/option.hpp>
#include <fcppt/options/option_name.hpp>
#include <fcppt/options/option_name_set.hpp>
#include <fcppt/options/optional_help_text.hpp>
#include <fcppt/options/optional_short_name.hpp>
#include <fcppt/options/parse.hpp>
#include <fcppt/options/parse_help.hpp>
#include <fcppt/options/short_name.hpp>
#include <fcppt/options/switch.hpp>
#include <fcppt/options/impl/is_flag.hpp>
#include <fcppt/options/impl/next_arg.hpp>
#include <fcppt/record/make_label.hpp>
#include <fcppt/variant/holds_type.hpp>

#include <optional>

namespace
{
namespace o = fcppt::options;

std::vector<std::string> const &arg_alphabet()
{
  static std::vector<std::string> const a{"-",   "--",  "",    "-f",     "--flag", "--opt",  "-o",
                                          "1",   "x",   "foo", "bar",    "--help", "-1",     "--opt=3",
                                          "99999999999999999999"};
  return a;
}
std::string show_args(fcppt::args_vector const &v)
{
  std::string r = "[";
  for (auto const &s : v)
    r += "\"" + printable(s) + "\",";
  return r + "]";
}
// all argument vectors of length <= maxlen over the alphabet, in a fixed order; f(index, vector)
template <class F>
void all_arg_vectors(unsigned const maxlen, F const &f)
{
  auto const &a = arg_alphabet();
  std::uint64_t index = 0;
  for (unsigned len = 0; len <= maxlen; ++len)
  {
    std::vector<std::size_t> ix(len, 0);
    for (;;)
    {
      fcppt::args_vector v;
      for (std::size_t i : ix)
        v.push_back(a[i]);
      f(index++, v);
      std::size_t k = 0;
      while (k < len && ++ix[k] == a.size())
        ix[k++] = 0;
      if (k == len)
        break;
    }
  }
}

// Memory helpers taking a pointer+length or a reference into the container itself: in-domain arguments include the
// empty block and a value that aliases an element of the vector (C07 judges the contents; here only "returns normally,
// touches nothing outside its allocation" - the sanitizers and the exception classifier are the oracle).
void memory_helpers_all()
{
  {
    std::string const e = "endianness::reverse_mem";
    if (vf::entry_enabled(e))
    {
      vf::set_entry(e);
      std::uint64_t calls = 0;
      for (std::size_t len = 0; len <= 17; ++len)
      {
        if (!my_item())
          continue;
        if (!vf::begin_case("block of %zu bytes, exactly sized heap buffer", len))
          continue;
        vf::sample_case(2);
        vf::note_distinct(vf::hash_mix(vf::hash_str(e), len));
        std::unique_ptr<unsigned char[]> const buf(new unsigned char[len]);
        for (std::size_t i = 0; i < len; ++i)
          buf[i] = static_cast<unsigned char>(i + 1);
        guard(wl_none, [&] { fcppt::endianness::reverse_mem(buf.get(), len); });
        for (std::size_t i = 0; i < len; ++i)
          if (buf[i] != static_cast<unsigned char>(len - i))
            vf::count("observed/reverse_mem/not-reversed");
        if (len == 0)
          VF_COUNT("bucket/reverse_mem/empty-block");
        ++calls;
      }
      vf::count("calls/" + e, calls);
    }
  }
  {
    std::string const e = "container::raw_vector(aliased-value)";
    if (vf::entry_enabled(e))
    {
      vf::set_entry(e);
      using rv = fcppt::container::raw_vector::object<int>;
      std::uint64_t calls = 0;
      for (std::size_t n = 1; n <= 9; ++n)
        for (std::size_t spare = 0; spare <= 2; ++spare)
        {
          if (!my_item())
            continue;
          if (!vf::begin_case("size %zu, capacity %zu: push_back / insert / insert(n) / resize with every own element as the value", n, n + spare))
            continue;
          vf::sample_case(1);
          vf::note_distinct(vf::hash_mix(vf::hash_str(e), n * 8 + spare));
          auto const fresh = [&] {
            rv v;
            v.reserve(n + spare);
            for (std::size_t i = 0; i < n; ++i)
              v.push_back(static_cast<int>(10 + i));
            v.shrink_to_fit();
            v.reserve(n + spare);
            return v;
          };
          for (std::size_t i = 0; i < n; ++i)
          {
            guard(wl_none, [&] {
              rv v(fresh());
              v.push_back(v[i]);
              if (v.back() != static_cast<int>(10 + i))
                vf::count("observed/raw_vector/aliased-value-changed");
            });
            ++calls;
            for (std::size_t p = 0; p <= n; ++p)
            {
              guard(wl_none, [&] {
                rv v(fresh());
                v.insert(v.begin() + static_cast<std::ptrdiff_t>(p), v[i]);
              });
              guard(wl_none, [&] {
                rv v(fresh());
                v.insert(v.begin() + static_cast<std::ptrdiff_t>(p), spare + 1, v[i]);
              });
              calls += 2;
            }
            guard(wl_none, [&] {
              rv v(fresh());
              v.resize(n + spare + 2, v[i]);
            });
            ++calls;
            if (spare == 0)
              VF_COUNT("bucket/raw_vector/aliased-value-while-reallocating");
          }
        }
      vf::count("calls/" + e, calls);
    }
  }
}

void is_flag_all()
{
  std::string const e = "options::impl::is_flag";
  if (!vf::entry_enabled(e))
    return;
  vf::set_entry(e);
  std::vector<std::string> in = string_lattice();
  for (char const *s : {"-", "--", "---", "-a", "--a", "a-", "-=", "- ", "--=x", "-ab", "--ab"})
    in.emplace_back(s);
  in.push_back(std::string("-\0", 2));
  in.push_back(std::string("--\0x", 4));
  for (auto const &s : arg_alphabet())
    in.push_back(s);
  vf::rng g(vf::seed_for(e));
  for (unsigned i = 0; i < vf::tier(200U, 20000U); ++i)
    in.push_back(random_string(g, std::string_view("--a=\0 x", 7), 5));
  std::uint64_t calls = 0;
  for (std::string const &s : in)
  {
    if (!my_item())
      continue;
    if (!vf::begin_case("string(len %zu)=\"%s\" over an exactly sized heap buffer", s.size(), printable(s).c_str()))
      continue;
    vf::sample_case(2);
    vf::note_distinct(vf::hash_mix(vf::hash_str(e), vf::hash_str(s)));
    exact_buf<char> const buf{std::string_view(s)};
    guard(wl_none, [&] {
      auto const r = o::impl::is_flag(buf.view());
      static_assert(fcppt::optional::is_object<std::remove_cvref_t<decltype(r)>>::value);
      vf::count(r.has_value() ? "outcome/is_flag/present" : "outcome/is_flag/absent");
    });
    ++calls;
  }
  vf::count("calls/" + e, calls);
}

void next_arg_all()
{
  std::string const e = "options::impl::next_arg";
  if (!vf::entry_enabled(e))
    return;
  vf::set_entry(e);
  std::vector<std::pair<std::string, o::option_name_set>> sets;
  sets.emplace_back("{}", o::option_name_set{});
  sets.emplace_back("{-o}", o::option_name_set{o::option_name{"o", o::option_name::is_short{true}}});
  sets.emplace_back("{--opt,-f}", o::option_name_set{o::option_name{"opt", o::option_name::is_short{false}},
                                                       o::option_name{"f", o::option_name::is_short{true}}});
  sets.emplace_back("{--,-}", o::option_name_set{o::option_name{"", o::option_name::is_short{false}},
                                                   o::option_name{"", o::option_name::is_short{true}}});
  std::uint64_t calls = 0;
  all_arg_vectors(vf::tier(3U, 4U), [&](std::uint64_t const index, fcppt::args_vector const &v) {
    if (!my_item())
      return;
    if (!vf::begin_case("args#%llu=%s", static_cast<unsigned long long>(index), show_args(v).c_str()))
      return;
    vf::sample_case(2);
    vf::note_distinct(vf::hash_mix(vf::hash_str(e), index));
    for (auto const &[name, set] : sets)
    {
      vf::extend_case(" names=%s", name.c_str());
      guard(wl_none, [&, &set = set] {
        auto const r = o::impl::next_arg(v, set);
        static_assert(fcppt::optional::is_object<std::remove_cvref_t<decltype(r)>>::value);
        if (r.has_value())
        {
          VF_COUNT("outcome/next_arg/present");
          // "refers to something valid": an iterator into the vector, not its end
          if (r.get_unsafe() < v.begin() || r.get_unsafe() >= v.end())
            vf::violation("options::impl::next_arg/iterator-outside-vector", "invalid-result", show_args(v));
        }
        else
          VF_COUNT("outcome/next_arg/absent");
      });
      vf::add_evals(1);
      ++calls;
    }
  });
  vf::count("calls/" + e, calls);
}

FCPPT_RECORD_MAKE_LABEL(l_arg);
FCPPT_RECORD_MAKE_LABEL(l_arg2);
FCPPT_RECORD_MAKE_LABEL(l_flag);
FCPPT_RECORD_MAKE_LABEL(l_switch);
FCPPT_RECORD_MAKE_LABEL(l_opt);
FCPPT_RECORD_MAKE_LABEL(l_sum);
FCPPT_RECORD_MAKE_LABEL(l_foo);
FCPPT_RECORD_MAKE_LABEL(l_bar);

auto mk_arg_int() { return o::argument<l_arg, int>{o::long_name{"arg"}, o::optional_help_text{}}; }
auto mk_arg_str() { return o::argument<l_arg2, std::string>{o::long_name{"text"}, o::optional_help_text{}}; }
auto mk_flag()
{
  return o::flag<l_flag, int>{o::optional_short_name{o::short_name{"f"}}, o::long_name{"flag"}, o::make_active_value(42),
                              o::make_inactive_value(10), o::optional_help_text{}};
}
auto mk_switch()
{
  return o::switch_<l_switch>{o::optional_short_name{o::short_name{"f"}}, o::long_name{"flag"}, o::optional_help_text{}};
}
auto mk_opt()
{
  return o::option<l_opt, int>{o::optional_short_name{o::short_name{"o"}}, o::long_name{"opt"}, o::no_default_value<int>(),
                               o::optional_help_text{}};
}
auto mk_opt_default()
{
  return o::option<l_opt, int>{o::optional_short_name{}, o::long_name{"opt"}, o::make_default_value(fcppt::optional::make(100)),
                               o::optional_help_text{}};
}

template <class Make>
void shape(char const *name, Make const &make)
{
  using parser_type = decltype(make());
  std::optional<parser_type> parser;
  {
    std::string const e = std::string("options::construct<") + name + ">";
    vf::set_entry(e);
    if (vf::begin_case("well-formed definition"))
      guard(wl_none, [&] { parser.emplace(make()); });
    else
      parser.emplace(make());
    vf::count("calls/" + e);
  }
  if (!parser.has_value())
    return;
  unsigned const maxlen = vf::tier(3U, 4U);
  for (bool help : {false, true})
  {
    std::string const e = std::string(help ? "options::parse_help<" : "options::parse<") + name + ">";
    if (!vf::entry_enabled(e))
      continue;
    vf::set_entry(e);
    std::uint64_t calls = 0;
    all_arg_vectors(maxlen, [&](std::uint64_t const index, fcppt::args_vector const &v) {
      if (!my_item())
        return;
      if (!vf::begin_case("args#%llu=%s", static_cast<unsigned long long>(index), show_args(v).c_str()))
        return;
      vf::sample_case(1);
      vf::note_distinct(vf::hash_mix(vf::hash_str(e), index));
      guard(wl_none, [&] {
        if (help)
        {
          auto const r = o::parse_help(o::default_help_switch(), *parser, v);
          if (fcppt::variant::holds_type<o::help_text>(r))
            VF_COUNT("outcome/parse_help/help-text");
          else
            VF_COUNT("outcome/parse_help/result");
        }
        else
        {
          auto const r = o::parse(*parser, v);
          if (r.has_success())
            VF_COUNT("outcome/parse/success");
          else
            VF_COUNT("outcome/parse/failure");
        }
      });
      ++calls;
    });
    vf::count("calls/" + e, calls);
  }
}

// ill-formed definitions: fcppt::options::exception (and its subclass duplicate_names) is the documented failure
template <class Make>
void ill_formed(char const *name, Make const &make)
{
  std::string const e = std::string("options::construct-ill-formed<") + name + ">";
  if (!vf::entry_enabled(e) || !my_item())
    return;
  vf::set_entry(e);
  if (!vf::begin_case("ill-formed definition"))
    return;
  vf::sample_case(1);
  vf::note_distinct(vf::hash_str(e));
  if (guard<o::exception>(wl_extra, [&] { (void)make(); }))
    VF_COUNT("outcome/ill-formed-definition/accepted");
  else
    VF_COUNT("outcome/ill-formed-definition/threw");
  vf::count("calls/" + e);
}

}
#endif
#if VF_IN_SLICE(9)
void vf_slice_9()
{
  is_flag_all();
  next_arg_all();
  memory_helpers_all();
  shape("argument<int>", [] { return mk_arg_int(); });
  shape("argument<string>", [] { return mk_arg_str(); });
  shape("flag<int>", [] { return mk_flag(); });
  shape("switch", [] { return mk_switch(); });
  shape("option<int>", [] { return mk_opt(); });
  shape("option<int>+default", [] { return mk_opt_default(); });
  shape("apply(argument<string>,option<int>+default,switch)", [] { return o::apply(mk_arg_str(), mk_opt_default(), mk_switch()); });
  ill_formed("flag:active==inactive", [] {
    return o::flag<l_flag, int>{o::optional_short_name{}, o::long_name{"flag"}, o::make_active_value(0), o::make_inactive_value(0),
                                o::optional_help_text{}};
  });
  ill_formed("flag:short==long", [] {
    return o::flag<l_flag, int>{o::optional_short_name{o::short_name{"flag"}}, o::long_name{"flag"}, o::make_active_value(0),
                                o::make_inactive_value(1), o::optional_help_text{}};
  });
  ill_formed("switch:short==long", [] {
    return o::switch_<l_switch>{o::optional_short_name{o::short_name{"x"}}, o::long_name{"x"}, o::optional_help_text{}};
  });
}
#endif
#if VF_IN_SLICE(12)
void vf_slice_12()
{
  shape("optional(argument<int>)", [] { return o::make_optional(mk_arg_int()); });
  shape("many(argument<int>)", [] { return o::make_many(mk_arg_int()); });
  shape("many(apply(argument<int>,option<int>))", [] { return o::make_many(o::apply(mk_arg_int(), mk_opt())); });
  shape("optional(apply(switch,argument<int>))", [] { return o::make_optional(o::apply(mk_switch(), mk_arg_int())); });
  shape("sum(switch,argument<int>)", [] { return o::make_sum<l_sum>(mk_switch(), mk_arg_int()); });
  shape("commands(option<int>+default;foo:argument<int>;bar:option<int>)", [] {
    return o::make_commands(mk_opt_default(), o::make_sub_command<l_foo>("foo", mk_arg_int(), o::optional_help_text{}),
                            o::make_sub_command<l_bar>("bar", mk_opt(), o::optional_help_text{}));
  });
  ill_formed("apply:duplicate-names", [] {
    return o::apply(o::flag<l_flag, int>{o::optional_short_name{}, o::long_name{"flag"}, o::make_active_value(0),
                                         o::make_inactive_value(1), o::optional_help_text{}},
                    o::switch_<l_switch>{o::optional_short_name{}, o::long_name{"flag"}, o::optional_help_text{}});
  });
  ill_formed("commands:duplicate-sub-commands", [] {
    return o::make_commands(mk_opt_default(), o::make_sub_command<l_foo>("foo", mk_arg_int(), o::optional_help_text{}),
                            o::make_sub_command<l_bar>("foo", mk_arg_str(), o::optional_help_text{}));
  });
}
#endif

// =================================================================================================== parse
#if VF_IN_SLICE(10) || VF_IN_SLICE(11) || VF_IN_SLICE(13)
#include <fcppt/make_cref.hpp>
#include <fcppt/either/object.hpp>
#include <fcppt/parse/phrase_parse_stream.hpp>
#include <fcppt/parse/phrase_parse_string.hpp>
#include <fcppt/parse/parse_string.hpp>
#include <fcppt/parse/skipper/epsilon.hpp>
#include <fcppt/parse/skipper/basic_char_set.hpp>
#include <fcppt/parse/skipper/space.hpp>
#include <fcppt/parse/skipper/operators/repetition.hpp>

namespace
{
namespace p = fcppt::parse;

// all strings of length <= maxlen over the alphabet
[[maybe_unused]] std::vector<std::string> all_strings(std::string_view const alphabet, unsigned const maxlen)
{
  std::vector<std::string> r;
  for (unsigned len = 0; len <= maxlen; ++len)
  {
    std::vector<std::size_t> ix(len, 0);
    for (;;)
    {
      std::string s;
      for (std::size_t i : ix)
        s += alphabet[i];
      r.push_back(s);
      std::size_t k = 0;
      while (k < len && ++ix[k] == alphabet.size())
        ix[k++] = 0;
      if (k == len)
        break;
    }
  }
  return r;
}

// skipper::basic_space<wchar_t>() does not compile (it builds a char_set<char>), so the wide skipper is spelled out
template <class Ch>
auto space_skipper()
{
  return *p::skipper::basic_char_set<Ch>{Ch(' '), Ch('\t'), Ch('\n'), Ch('\r'), Ch('\v'), Ch('\f')};
}

template <class Ch>
std::basic_string<Ch> conv(std::string const &s)
{
  if constexpr (std::is_same_v<Ch, char>)
    return s;
  else
    return to_wide(s);
}

// parse_string (no skipper) and phrase_parse_string (space skipper) on every input
template <class Ch, bool WithoutSkipper = true, class Parser>
void run_grammar(std::string const &name, Parser const &parser, std::vector<std::string> const &inputs)
{
  for (bool skip : {false, true})
  {
    if (!skip && !WithoutSkipper)
      continue; // rules behind base_unique_ptr are bound to one skipper type
    std::string const e = std::string(skip ? "parse::phrase_parse_string<" : "parse::parse_string<") + name + ">";
    if (!vf::entry_enabled(e))
      continue;
    vf::set_entry(e);
    std::uint64_t calls = 0;
    for (std::string const &in : inputs)
    {
      if (!my_item())
        continue;
      if (!vf::begin_case("input(len %zu)=\"%s\"", in.size(), printable(in).c_str()))
        continue;
      vf::sample_case(1);
      vf::note_distinct(vf::hash_mix(vf::hash_str(e), vf::hash_str(in)));
      guard(wl_none, [&] {
        if (skip)
        {
          auto const r = p::phrase_parse_string(parser, conv<Ch>(in), space_skipper<Ch>());
          if (r.has_success())
            VF_COUNT("outcome/phrase_parse_string/success");
          else
            VF_COUNT("outcome/phrase_parse_string/failure");
        }
        else if constexpr (WithoutSkipper)
        {
          auto const r = p::parse_string(parser, conv<Ch>(in));
          if (r.has_success())
            VF_COUNT("outcome/parse_string/success");
          else
            VF_COUNT("outcome/parse_string/failure");
        }
      });
      ++calls;
    }
    vf::count("calls/" + e, calls);
  }
}

// phrase_parse_stream over the fault-injecting buffers: every position, eof/throw, seekable or not, exceptions off/on
template <class Ch, class Parser>
void run_grammar_faults(std::string const &name, Parser const &parser, std::vector<std::string> const &texts)
{
  std::string const e = "parse::phrase_parse_stream<" + name + ">/faults";
  if (!vf::entry_enabled(e))
    return;
  vf::set_entry(e);
  std::uint64_t calls = 0;
  for (std::string const &t : texts)
    for (bool seekable : {true, false})
      for (bool ex : {false, true})
        for (fault f : {fault::none, fault::eof_after, fault::throw_after})
          for (std::size_t k = 0; k <= t.size(); ++k)
          {
            if (f == fault::none && (k != 0 || ex))
              continue;
            if (!my_item())
              continue;
            if (!vf::begin_case("text(len %zu)=\"%s\" %s(%zu)%s%s", t.size(), printable(t).c_str(),
                                f == fault::none ? "none" : f == fault::eof_after ? "eof_after" : "throw_after", k,
                                seekable ? ",seekable" : ",noseek", ex ? ",exceptions(badbit)" : ""))
              continue;
            vf::sample_case(2);
            vf::note_distinct(vf::hash_mix(vf::hash_mix(vf::hash_str(e), vf::hash_str(t)),
                                           k * 16 + static_cast<unsigned>(f) * 4 + (seekable ? 2 : 0) + (ex ? 1 : 0)));
            fault_buf<Ch> buf(conv<Ch>(t), f, k, seekable);
            std::basic_istream<Ch> is(&buf);
            is.unsetf(std::ios_base::skipws);
            if (ex)
              is.exceptions(std::ios_base::badbit);
            bool success = false;
            bool const returned = guard(ex ? (wl_ios_failure | wl_injected) : wl_none, [&] {
              auto const r = p::phrase_parse_stream(parser, is, space_skipper<Ch>());
              success = r.has_success();
            });
            ++calls;
            if (buf.exhausted())
              vf::violation("harness/double-budget-exhausted", "harness", e + ": the parser did not stop at end of file");
            if (returned)
              vf::count(success ? "outcome/phrase_parse_stream/success" : "outcome/phrase_parse_stream/failure");
            if (f == fault::throw_after && buf.fault_reached())
            {
              vf::count(ex ? "parse-faults/throw/reached/exceptions-on" : "parse-faults/throw/reached/exceptions-off");
              if (!ex && returned)
                vf::count(success ? "observed/parse-after-throwing-underflow/success" : "observed/parse-after-throwing-underflow/failure");
            }
            if (!seekable && returned)
              vf::count(success ? "observed/parse-noseek/success" : "observed/parse-noseek/failure");
          }
  // the state the caller's stream is in when it is handed over: eofbit / failbit / badbit already set (an earlier read hit
  // the end, a failed extraction, a device error) - the entry point returns an either, whatever it finds
  for (std::string const &t : texts)
    for (int pre = 0; pre < 4; ++pre)
    {
      if (!my_item())
        continue;
      char const *const pn[] = {"eofbit", "failbit", "badbit", "eofbit|failbit"};
      if (!vf::begin_case("text(len %zu)=\"%s\" stream handed over with %s set", t.size(), printable(t).c_str(), pn[pre]))
        continue;
      vf::note_distinct(vf::hash_mix(vf::hash_mix(vf::hash_str(e), vf::hash_str(t)), 9000U + static_cast<unsigned>(pre)));
      std::basic_istringstream<Ch> is(conv<Ch>(t));
      is.unsetf(std::ios_base::skipws);
      is.setstate(pre == 0   ? std::ios_base::eofbit
                  : pre == 1 ? std::ios_base::failbit
                  : pre == 2 ? std::ios_base::badbit
                             : std::ios_base::eofbit | std::ios_base::failbit);
      bool success = false;
      bool const returned = guard(wl_none, [&] {
        auto const r = p::phrase_parse_stream(parser, is, space_skipper<Ch>());
        success = r.has_success();
      });
      ++calls;
      if (returned)
        vf::count(std::string("outcome/phrase_parse_stream/handed-over-with-") + pn[pre] + (success ? "/success" : "/failure"));
      VF_COUNT("bucket/phrase_parse_stream/handed-over-in-a-failed-state");
    }
  vf::count("calls/" + e, calls);
}
}
#endif

#if VF_IN_SLICE(10) || VF_IN_SLICE(13)
#include <fcppt/parse/basic_char.hpp>
#include <fcppt/parse/basic_char_set.hpp>
#include <fcppt/parse/basic_literal.hpp>
#include <fcppt/parse/char.hpp>
#include <fcppt/parse/char_set.hpp>
#include <fcppt/parse/float.hpp>
#include <fcppt/parse/int.hpp>
#include <fcppt/parse/list.hpp>
#include <fcppt/parse/literal.hpp>
#include <fcppt/parse/make_fatal.hpp>
#include <fcppt/parse/make_lexeme.hpp>
#include <fcppt/parse/separator.hpp>
#include <fcppt/parse/string.hpp>
#include <fcppt/parse/uint.hpp>
#include <fcppt/parse/operators/alternative.hpp>
#include <fcppt/parse/operators/complement.hpp>
#include <fcppt/parse/operators/not.hpp>
#include <fcppt/parse/operators/optional.hpp>
#include <fcppt/parse/operators/repetition.hpp>
#include <fcppt/parse/operators/repetition_plus.hpp>
#include <fcppt/parse/operators/sequence.hpp>
#endif

#if VF_IN_SLICE(10)
void vf_slice_10()
{
  std::vector<std::string> numeric = string_lattice();
  {
    vf::rng g(vf::seed_for("parse-numeric"));
    for (unsigned i = 0; i < vf::tier(200U, 10000U); ++i)
      numeric.push_back(random_string(g, std::string_view("0123456789+-. eE\ta\0", 19), 24));
  }
  run_grammar<char>("int_<int>", p::int_<int>{}, numeric);
  run_grammar<char>("int_<llong>", p::int_<long long>{}, numeric);
  run_grammar<char>("uint<unsigned>", p::uint<unsigned>{}, numeric);
  run_grammar<char>("uint<ullong>", p::uint<unsigned long long>{}, numeric);
  run_grammar<char>("uint<ushort>", p::uint<unsigned short>{}, numeric);
  run_grammar<char>("float_<float>", p::float_<float>{}, numeric);
  run_grammar<char>("float_<double>", p::float_<double>{}, numeric);
  run_grammar<wchar_t>("int_<int>,wchar_t", p::int_<int>{}, numeric);
  run_grammar<wchar_t>("float_<double>,wchar_t", p::float_<double>{}, numeric);
  run_grammar<char>("*int_<int>", *p::int_<int>{}, numeric);
  run_grammar_faults<char>("float_<double>", p::float_<double>{}, {"3.25e2", "-1", "1e999", "x"});
}
#endif

#if VF_IN_SLICE(13)
void vf_slice_13()
{
  unsigned const L = vf::tier(5U, 7U);
  auto abc = all_strings("abc ", L);
  run_grammar<char>("*char_set{a,b}>>literal(c)", *p::char_set{'a', 'b'} >> p::literal{'c'}, abc);
  run_grammar<char>("+char_set{a}>>-literal(b)>>!literal(c)>>char_", +p::char_set{'a'} >> -p::literal{'b'} >> !p::literal{'c'} >> p::char_{}, abc);
  run_grammar<char>("string(ab)|string(abc)|string(a)", p::string{std::string{"ab"}} | p::string{std::string{"abc"}} | p::string{std::string{"a"}}, abc);
  run_grammar<char>("literal(a)>>fatal(literal(b))|string(ac)",
                    (p::literal{'a'} >> p::make_fatal(p::literal{'b'})) | p::string{std::string{"ac"}}, abc);
  run_grammar<char>("*fatal(literal(a))", *p::make_fatal(p::literal{'a'}), abc);
  run_grammar<char>("lexeme(*~char_set{c})>>literal(c)", p::make_lexeme(*~p::char_set{'c'}) >> p::literal{'c'}, abc);
  run_grammar<wchar_t>("*basic_char_set<wchar_t>{a,b}>>basic_literal<wchar_t>(c)",
                       *p::basic_char_set<wchar_t>{L'a', L'b'} >> p::basic_literal<wchar_t>{L'c'}, abc);

  auto lists = all_strings("[],1- ", vf::tier(5U, 6U));
  for (char const *s : {"[1,2,3]", "[ 1 , 2 ]", "[1,,2]", "[1,2", "[99999999999,1]", "[-2147483648,2147483647]", "[2147483648]", "[1,2]]", "[[1]]"})
    lists.emplace_back(s);
  run_grammar<char>("literal([)>>separator(int_<int>,literal(,))>>literal(])",
                    p::literal{'['} >> p::separator(p::int_<int>{}, p::literal{','}) >> p::literal{']'}, lists);
  run_grammar<char>("list([,fatal(~char_set{,]}),,,])",
                    p::list{p::literal{'['}, p::make_fatal(~p::char_set{',', ']'}), p::literal{','}, p::literal{']'}}, lists);

  // the same grammars over failing streams
  auto const list_parser = p::literal{'['} >> p::separator(p::int_<int>{}, p::literal{','}) >> p::literal{']'};
  run_grammar_faults<char>("literal([)>>separator(int_<int>,literal(,))>>literal(])", list_parser,
                           {"[1, 22 ,333]", "[]", "", "[1,", "x", " [ 12 ] tail"});
  run_grammar_faults<wchar_t>("literal([)>>separator(int_<int>,literal(,))>>literal(]),wchar_t",
                              p::basic_literal<wchar_t>{L'['} >> p::separator(p::int_<int>{}, p::basic_literal<wchar_t>{L','}) >> p::basic_literal<wchar_t>{L']'},
                              {"[1, 22 ,333]", "[]", ""});
  run_grammar_faults<char>("*char_set{a,b}>>literal(c)", *p::char_set{'a', 'b'} >> p::literal{'c'}, {"ababc", "c", "abx", ""});
}
#endif

#if VF_IN_SLICE(11)
#include <fcppt/nonmovable.hpp>
#include <fcppt/not.hpp>
#include <fcppt/recursive.hpp>
#include <fcppt/algorithm/fold.hpp>
#include <fcppt/container/insert.hpp>
#include <fcppt/container/make_move_range.hpp>
#include <fcppt/either/try_call.hpp>
#include <fcppt/parse/base_unique_ptr.hpp>
#include <fcppt/parse/char_set.hpp>
#include <fcppt/parse/construct.hpp>
#include <fcppt/parse/convert_const.hpp>
#include <fcppt/parse/deref.hpp>
#include <fcppt/parse/error.hpp>
#include <fcppt/parse/grammar.hpp>
#include <fcppt/parse/grammar_parse_string.hpp>
#include <fcppt/parse/int.hpp>
#include <fcppt/parse/literal.hpp>
#include <fcppt/parse/make_base.hpp>
#include <fcppt/parse/make_convert_if.hpp>
#include <fcppt/parse/make_lexeme.hpp>
#include <fcppt/parse/make_recursive.hpp>
#include <fcppt/parse/separator.hpp>
#include <fcppt/parse/string.hpp>
#include <fcppt/parse/operators/alternative.hpp>
#include <fcppt/parse/operators/complement.hpp>
#include <fcppt/parse/operators/repetition.hpp>
#include <fcppt/parse/operators/sequence.hpp>
#include <fcppt/tuple/get.hpp>
#include <fcppt/tuple/object.hpp>
#include <fcppt/variant/object.hpp>

#include <unordered_map>

namespace
{
// The JSON grammar of /repo/test/parse/json.cpp (recursive rules through base_unique_ptr, a throwing semantic
// action converted by either::try_call).
namespace json
{
struct null
{
};
class value
{
public:
  using type = fcppt::variant::object<json::null, bool, int, std::string, std::vector<fcppt::recursive<json::value>>,
                                      std::unordered_map<std::string, fcppt::recursive<json::value>>>;
  explicit value(type &&_impl) : impl_{std::move(_impl)} {}
  [[nodiscard]] type const &get() const { return impl_; }

private:
  type impl_;
};
using array = std::vector<fcppt::recursive<json::value>>;
using object = std::unordered_map<std::string, fcppt::recursive<json::value>>;
class double_insert
{
};
using entries = std::vector<fcppt::tuple::object<std::string, fcppt::recursive<json::value>>>;

json::object make_object_(json::entries &&_args)
{
  return fcppt::algorithm::fold(
      fcppt::container::make_move_range(std::move(_args)), object{},
      [](fcppt::tuple::object<std::string, fcppt::recursive<json::value>> &&_element, json::object &&_state) {
        if (fcppt::not_(fcppt::container::insert(
                _state, json::object::value_type{std::move(fcppt::tuple::get<0>(_element)), std::move(fcppt::tuple::get<1>(_element))})))
          throw json::double_insert{};
        return std::move(_state);
      });
}
fcppt::parse::result<char, json::object> make_object(json::entries &&_args)
{
  return fcppt::either::try_call<json::double_insert>([&_args] { return make_object_(std::move(_args)); },
                                                      [](json::double_insert const &) {
                                                        return fcppt::parse::error<char>{std::string{"Double insert"}};
                                                      });
}
using start = fcppt::variant::object<json::array, json::object>;
}

using json_skipper = decltype(fcppt::parse::skipper::space());
template <typename Type>
using json_base = fcppt::parse::base_unique_ptr<Type, char, json_skipper>;

class json_parser
{
  FCPPT_NONMOVABLE(json_parser);

public:
  json_parser()
      : string_{p::make_base<char, json_skipper>(p::literal('"') >> p::make_lexeme(*~p::char_set{'"'}) >> p::literal('"'))},
        value_{p::make_base<char, json_skipper>(p::construct<json::value>(
            p::convert_const(p::string("null"), json::null{}) |
            (p::convert_const(p::string("true"), true) | p::convert_const(p::string("false"), false)) | p::int_<int>{} |
            fcppt::make_cref(string_) | fcppt::make_cref(array_) | fcppt::make_cref(object_)))},
        object_{p::make_base<char, json_skipper>(p::make_convert_if(
            p::literal('{') >>
                p::separator(fcppt::make_cref(string_) >> p::literal(':') >> p::make_recursive(fcppt::make_cref(value_)),
                             p::literal{','}) >>
                p::literal('}'),
            [](json::entries &&_entries) { return json::make_object(std::move(_entries)); }))},
        array_{p::make_base<char, json_skipper>(
            p::literal('[') >> p::separator(p::make_recursive(fcppt::make_cref(value_)), p::literal{','}) >> p::literal(']'))},
        start_{p::make_base<char, json_skipper>(fcppt::make_cref(array_) | fcppt::make_cref(object_))}
  {
  }
  ~json_parser() = default;
  [[nodiscard]] json_base<json::start> const &get() const { return start_; }

private:
  json_base<std::string> string_;
  json_base<json::value> value_;
  json_base<json::object> object_;
  json_base<json::array> array_;
  json_base<json::start> start_;
};

// a grammar object (fcppt::parse::grammar) for grammar_parse_string
class int_list_grammar : public fcppt::parse::grammar<std::vector<int>, char, json_skipper>
{
  FCPPT_NONMOVABLE(int_list_grammar);

public:
  int_list_grammar()
      : grammar_base{fcppt::make_cref(this->start_), fcppt::parse::skipper::space()},
        start_{grammar_base::make_base(p::literal{'['} >> p::separator(p::int_<int>{}, p::literal{','}) >> p::literal{']'})}
  {
  }
  ~int_list_grammar() = default;

private:
  grammar_base::base_type<std::vector<int>> start_;
};

std::vector<std::string> json_inputs()
{
  std::vector<std::string> r = string_lattice();
  std::vector<std::string> const docs{"[]", "{}", "[1]", "[null]", "[true]", "[false]", "[ \"test\" ]", "[1, true]", "{\"XY\":42}",
                                      " { \"XY\" : 42 }", "{\"X\" : true,\"Y\" : [ 10, false, null ],\"Z\" : { \"A\" : \"test\", \"B\" : 20 }}",
                                      "{\"a\":1,\"a\":2}", "[[[[[[]]]]]]", "[{\"a\":[{\"b\":[]}]}]", "[99999999999999999999]", "[-2147483648]",
                                      "[2147483648]", "[\"unterminated", "[\"\"]", "{\"\":\"\"}", "{\"a\":1,\"b\":{\"a\":1,\"a\":1}}", "[1,]", "[,1]",
                                      "{\"a\"}", "{\"a\":}", "{:1}", "[nul]", "[nulll]", "[truefalse]", "[- 1]", "[1 2]", "[\"a\" \"b\"]"};
  for (auto const &d : docs)
  {
    r.push_back(d);
    for (std::size_t k = 0; k < d.size(); ++k)
      r.push_back(d.substr(0, k)); // every prefix
  }
  for (unsigned depth : {10U, 20U, 40U})
  {
    r.push_back(std::string(depth, '[') + std::string(depth, ']'));
    r.push_back(std::string(depth, '['));
    std::string o, c;
    for (unsigned i = 0; i < depth; ++i)
    {
      o += "{\"k\":";
      c += "}";
    }
    r.push_back(o + "[]" + c);
    r.push_back(o);
  }
  // mutations of valid documents and random token sequences
  vf::rng g(vf::seed_for("json-inputs"));
  static char const *const toks[] = {"[", "]", "{", "}", ",", ":", "\"", "\"a\"", "\"\"", "null", "true", "false", "0", "-1", "42",
                                     "99999999999", " ", "\n", "x", "-", "\"k\":", "[]", "{}", "nul", "tru"};
  unsigned const n = vf::tier(400U, 20000U);
  for (unsigned i = 0; i < n; ++i)
  {
    if (g.chance(1, 2))
    {
      std::string d = docs[g.below(docs.size())];
      unsigned const edits = 1 + static_cast<unsigned>(g.below(3));
      for (unsigned k = 0; k < edits && !d.empty(); ++k)
      {
        std::size_t const pos = g.below(d.size());
        switch (g.below(3))
        {
        case 0: d.erase(pos, 1); break;
        case 1: d.insert(pos, toks[g.below(sizeof toks / sizeof toks[0])]); break;
        default: d[pos] = "[]{},:\"0 x"[g.below(10)]; break;
        }
      }
      r.push_back(d);
    }
    else
    {
      std::string d;
      std::size_t const len = g.below(14);
      for (std::size_t k = 0; k < len; ++k)
        d += toks[g.below(sizeof toks / sizeof toks[0])];
      r.push_back(d);
    }
  }
  return r;
}
}

void vf_slice_11()
{
  json_parser const jp{};
  auto const inputs = json_inputs();
  run_grammar<char, false>("json", fcppt::parse::deref(jp.get()), inputs);
  run_grammar_faults<char>("json", fcppt::parse::deref(jp.get()),
                           {"{\"X\" : true,\"Y\" : [ 10, false, null ]}", "[1, \"a\", {}]", "[", ""});
  {
    std::string const e = "parse::grammar_parse_string<int-list-grammar>";
    if (vf::entry_enabled(e))
    {
      vf::set_entry(e);
      int_list_grammar const grammar{};
      auto lists = all_strings("[],1- ", vf::tier(4U, 5U));
      for (char const *s : {"[1,2,3]", "[ 1 , 2 ]", "[1,,2]", "[1,2", "[99999999999,1]", "[2147483648]", "[1,2]]"})
        lists.emplace_back(s);
      std::uint64_t calls = 0;
      for (std::string const &in : lists)
      {
        if (!my_item())
          continue;
        if (!vf::begin_case("input(len %zu)=\"%s\"", in.size(), printable(in).c_str()))
          continue;
        vf::sample_case(1);
        vf::note_distinct(vf::hash_mix(vf::hash_str(e), vf::hash_str(in)));
        guard(wl_none, [&] {
          auto const r = p::grammar_parse_string(std::string{in}, grammar);
          if (r.has_success())
            VF_COUNT("outcome/grammar_parse_string/success");
          else
            VF_COUNT("outcome/grammar_parse_string/failure");
        });
        ++calls;
      }
      vf::count("calls/" + e, calls);
    }
  }
}
#endif

//@@NEXT@@

// =================================================================================================== main
#if VF_SLICE < 0
#define C01_SLICES(X) X(0) X(1) X(2) X(3) X(4) X(5) X(6) X(7) X(8) X(9) X(10) X(11) X(12) X(13)
#define C01_DECL(i) void vf_slice_##i();
C01_SLICES(C01_DECL)
namespace
{
void body()
{
  for (char const *b :
       {"bucket/log2/top-bit-set", "bucket/log2/top-bit-clear", "bucket/next_power_of_2/representable", "bucket/diff/representable",
        "bucket/interval_distance/containment", "bucket/interval_distance/gap", "bucket/interval_distance/touch-or-overlap",
        "outcome/widen/returned", "outcome/widen/threw", "outcome/parse/success", "outcome/parse/failure",
        "outcome/parse_help/help-text", "outcome/parse_help/result", "outcome/parse_string/success", "outcome/parse_string/failure",
        "outcome/phrase_parse_string/success", "outcome/phrase_parse_string/failure", "outcome/grammar_parse_string/success",
        "outcome/grammar_parse_string/failure", "outcome/phrase_parse_stream/success", "outcome/phrase_parse_stream/failure",
        "outcome/create_directory/error", "outcome/create_directory/no-error", "outcome/create_directories_recursive/error",
        "outcome/create_directories_recursive/no-error", "outcome/make_directory_range/success",
        "outcome/make_directory_range/failure", "outcome/make_recursive_directory_range/success",
        "outcome/make_recursive_directory_range/failure", "outcome/runtime_index/function", "outcome/runtime_index/fail-function",
        "outcome/ill-formed-definition/threw", "outcome/is_power_of_2/true", "outcome/is_power_of_2/false",
        "faults/throw/reached/exceptions-off", "faults/throw/reached/exceptions-on", "faults/eof/reached",
        "parse-faults/throw/reached/exceptions-off", "parse-faults/throw/reached/exceptions-on", "streams/istringstream",
        "bucket/reverse_mem/empty-block", "bucket/raw_vector/aliased-value-while-reallocating",
        "bucket/phrase_parse_stream/handed-over-in-a-failed-state", "bucket/io-object-streamed-after-its-argument-died"})
    vf::require_bucket(b);
  // an entry family that never returned both outcomes where both are possible makes the run inconclusive
  for (char const *f : {"ceil_div", "ceil_div_signed", "div", "mod", "clamp", "div-float", "mod-float", "clamp-float", "truncation_check",
                        "from_int", "from_string", "at_optional", "maybe_front", "maybe_back", "pop_back", "pop_front", "find_opt",
                        "find_opt_mapped", "grid::at_optional", "from_range", "dynamic", "extract_from_string", "narrow",
                        "io::stream_to_string", "io::read_chars", "io::get", "io::peek", "io::extract", "io::read", "file_size", "open",
                        "is_flag", "next_arg"})
  {
    vf::require_bucket(std::string("outcome/") + f + "/present");
    vf::require_bucket(std::string("outcome/") + f + "/absent");
  }
  vf::require_bucket("harness/double-selftest-passed");
  // self-test of the fault-injecting stream buffers against std::basic_stringbuf (every process, it is cheap)
  vf::set_entry("harness/test-doubles");
  if (vf::begin_case("self-test against std::stringbuf on fault-free input"))
  {
    for (char const *t : {"", "a", "ab", "hello world 12345", "[1, 2, 3]\n{\"x\": null}"})
    {
      selftest_double<char>(t);
      selftest_double<wchar_t>(to_wide(t));
    }
    selftest_double<char>(std::string("a\0b\xff", 4));
  }
#define C01_CALL(i) vf_slice_##i();
  C01_SLICES(C01_CALL)
}
}
VF_MAIN(body)
#endif
