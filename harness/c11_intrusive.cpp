// C11: intrusive list / signal membership equals the set of live connections.
// Oracle: per list an ordered vector of element slots (object identity), updated by the documented
// rules; after every step every live list is iterated forward and backward (bounded) and compared.
// Signals: ordered vector of live connection ids; every callback logs (connection, argument);
// results are folded with a non-commutative combiner; unregister callbacks are counted per connection.
#include <vf.hpp>
#include <heavy.hpp>

#include <fcppt/function.hpp>
#include <fcppt/intrusive/base.hpp>
#include <fcppt/intrusive/list.hpp>
#include <fcppt/signal/auto_connection.hpp>
#include <fcppt/signal/base.hpp>
#include <fcppt/signal/object.hpp>
#include <fcppt/signal/unregister/base.hpp>
#include <fcppt/signal/unregister/function.hpp>

#include <algorithm>
#include <functional>
#include <map>
#include <memory>
#include <optional>
#include <string>
#include <utility>
#include <vector>

namespace
{
// ------------------------------------------------------------------ intrusive list
struct El : fcppt::intrusive::base<El>
{
  El(fcppt::intrusive::list<El> &l, int t) : fcppt::intrusive::base<El>(l), tag(t) {}
  // the tag is the identity of the object (its slot); it does not travel with the link
  El(El &&o, int t) noexcept : fcppt::intrusive::base<El>(std::move(o)), tag(t) {}
  El &operator=(El &&o) noexcept
  {
    fcppt::intrusive::base<El>::operator=(std::move(o));
    return *this;
  }
  int tag;
};
using L = fcppt::intrusive::list<El>;

struct list_runner
{
  static constexpr int NL = 3, NE = 8;
  std::vector<std::unique_ptr<L>> ls;
  std::vector<std::unique_ptr<El>> es;
  std::vector<std::vector<int>> ml; // model: slots in link order
  std::vector<int> where;           // slot -> list index or -1
  vf::rng g{0};
  bool ok = true;
  std::uint64_t iterated = 0;

  void fail(std::string const &cls, std::string const &d)
  {
    vf::violation("intrusive/" + cls, "mismatch", d);
    ok = false;
  }
  void munlink(int slot)
  {
    if (where[slot] >= 0)
    {
      auto &v = ml[static_cast<std::size_t>(where[slot])];
      v.erase(std::find(v.begin(), v.end(), slot));
    }
    where[slot] = -1;
  }
  std::string show(std::vector<int> const &v)
  {
    std::string s = "[";
    for (int x : v)
      s += std::to_string(x) + " ";
    return s + "]";
  }
  void verify(std::string const &op)
  {
    for (int i = 0; i < NL && ok; ++i)
    {
      if (!ls[static_cast<std::size_t>(i)])
        continue;
      L &l = *ls[static_cast<std::size_t>(i)];
      L const &cl = l;
      auto const &want = ml[static_cast<std::size_t>(i)];
      std::vector<int> fwd, cfwd, bwd;
      for (auto it = l.begin(); it != l.end(); ++it)
      {
        fwd.push_back((*it).tag);
        if (fwd.size() > 40)
          break;
      }
      for (auto it = cl.begin(); it != cl.end(); ++it)
      {
        cfwd.push_back((*it).tag);
        if (cfwd.size() > 40)
          break;
      }
      {
        auto it = l.end();
        while (it != l.begin())
        {
          --it;
          bwd.push_back((*it).tag);
          if (bwd.size() > 40)
            break;
        }
      }
      iterated += fwd.size() + bwd.size();
      std::vector<int> rwant(want.rbegin(), want.rend());
      if (fwd != want || cfwd != want)
      {
        fail(op + "/membership", "list " + std::to_string(i) + " iterates " + show(fwd) + " want " + show(want));
        return;
      }
      if (bwd != rwant)
      {
        fail(op + "/backward", "list " + std::to_string(i) + " backwards " + show(bwd) + " want " + show(rwant));
        return;
      }
      if (l.empty() != want.empty())
      {
        fail(op + "/empty", "list " + std::to_string(i) + " empty()=" + (l.empty() ? "true" : "false"));
        return;
      }
      vf::count_max("max/intrusive/ring-length", want.size());
    }
  }

  void run(std::uint64_t idx, std::string const &e)
  {
    g = vf::rng(vf::seed_for(e, idx));
    ok = true;
    ls.clear();
    es.clear();
    ls.resize(NL);
    es.resize(NE);
    ml.assign(NL, {});
    where.assign(NE, -1);
    for (int i = 0; i < NL; ++i)
      if (i == 0 || g.chance(2, 3))
        ls[static_cast<std::size_t>(i)] = std::make_unique<L>();
    unsigned len = static_cast<unsigned>(g.below(50)) + 1;
    for (unsigned st = 0; st < len && ok; ++st)
    {
      unsigned op = static_cast<unsigned>(g.below(16));
      int li = static_cast<int>(g.below(NL)), lj = static_cast<int>(g.below(NL));
      int ei = static_cast<int>(g.below(NE)), ej = static_cast<int>(g.below(NE));
      auto &Li = ls[static_cast<std::size_t>(li)];
      auto &Lj = ls[static_cast<std::size_t>(lj)];
      auto &Ei = es[static_cast<std::size_t>(ei)];
      auto &Ej = es[static_cast<std::size_t>(ej)];
      std::string opn;
      switch (op)
      {
      case 0:
      case 1:
      case 2:
        if (Li && !Ei)
        {
          vf::extend_case(" create(e%d in L%d)", ei, li);
          Ei = std::make_unique<El>(*Li, ei);
          ml[static_cast<std::size_t>(li)].push_back(ei);
          where[static_cast<std::size_t>(ei)] = li;
          opn = "create";
        }
        break;
      case 3:
        if (Ei)
        {
          vf::extend_case(" destroy(e%d)", ei);
          opn = where[static_cast<std::size_t>(ei)] >= 0 ? "destroy-linked" : "destroy-unlinked";
          munlink(ei);
          Ei.reset();
        }
        break;
      case 4:
        if (Ei)
        {
          vf::extend_case(" unlink(e%d)", ei);
          opn = where[static_cast<std::size_t>(ei)] >= 0 ? "unlink-linked" : "unlink-unlinked";
          Ei->unlink();
          munlink(ei);
        }
        break;
      case 5:
      case 6:
        if (Ei && !Ej)
        {
          vf::extend_case(" move_ctor(e%d<-e%d)", ej, ei);
          int w = where[static_cast<std::size_t>(ei)];
          opn = w >= 0 ? "element-move-ctor-linked" : "element-move-ctor-unlinked";
          Ej = std::make_unique<El>(std::move(*Ei), ej);
          if (w >= 0)
          {
            auto &v = ml[static_cast<std::size_t>(w)];
            *std::find(v.begin(), v.end(), ei) = ej;
          }
          where[static_cast<std::size_t>(ej)] = w;
          where[static_cast<std::size_t>(ei)] = -1;
        }
        break;
      case 7:
      case 8:
        if (Ei && Ej && ei != ej)
        {
          vf::extend_case(" move_assign(e%d<-e%d)", ej, ei);
          int ws = where[static_cast<std::size_t>(ei)], wd = where[static_cast<std::size_t>(ej)];
          bool adjacent = false, same_list = ws >= 0 && ws == wd;
          if (same_list)
          {
            auto &v = ml[static_cast<std::size_t>(ws)];
            auto a = std::find(v.begin(), v.end(), ei) - v.begin(), b = std::find(v.begin(), v.end(), ej) - v.begin();
            adjacent = a - b == 1 || b - a == 1;
            opn = a - b == 1 ? "element-move-assign-from-successor" : (b - a == 1 ? "element-move-assign-from-predecessor" : "element-move-assign-same-list");
          }
          else if (ws >= 0)
            opn = wd >= 0 ? "element-move-assign-other-list" : "element-move-assign-linked-to-unlinked";
          else
            opn = wd >= 0 ? "element-move-assign-unlinked-to-linked" : "element-move-assign-unlinked-to-unlinked";
          (void)adjacent;
          munlink(ej);
          if (ws >= 0)
          {
            auto &v = ml[static_cast<std::size_t>(ws)];
            *std::find(v.begin(), v.end(), ei) = ej;
          }
          where[static_cast<std::size_t>(ej)] = ws;
          where[static_cast<std::size_t>(ei)] = -1;
          *Ej = std::move(*Ei);
        }
        break;
      case 9:
        if (Li && !Lj)
        {
          vf::extend_case(" list_move_ctor(L%d<-L%d)", lj, li);
          opn = ml[static_cast<std::size_t>(li)].empty() ? "list-move-ctor-from-empty" : "list-move-ctor-from-nonempty";
          Lj = std::make_unique<L>(std::move(*Li));
          ml[static_cast<std::size_t>(lj)] = ml[static_cast<std::size_t>(li)];
          ml[static_cast<std::size_t>(li)].clear();
          for (int s : ml[static_cast<std::size_t>(lj)])
            where[static_cast<std::size_t>(s)] = lj;
        }
        break;
      case 10:
      case 11:
        if (Li && Lj && li != lj)
        {
          vf::extend_case(" list_move_assign(L%d<-L%d)", lj, li);
          bool se = ml[static_cast<std::size_t>(li)].empty(), de = ml[static_cast<std::size_t>(lj)].empty();
          opn = std::string("list-move-assign-") + (se ? "empty" : "nonempty") + "-to-" + (de ? "empty" : "nonempty");
          for (int s : ml[static_cast<std::size_t>(lj)])
            where[static_cast<std::size_t>(s)] = -1; // the target's previous members are in no list any more
          ml[static_cast<std::size_t>(lj)] = ml[static_cast<std::size_t>(li)];
          ml[static_cast<std::size_t>(li)].clear();
          for (int s : ml[static_cast<std::size_t>(lj)])
            where[static_cast<std::size_t>(s)] = lj;
          *Lj = std::move(*Li);
        }
        break;
      case 12:
        if (Li && g.chance(1, 2))
        {
          vf::extend_case(" destroy_list(L%d)", li);
          opn = ml[static_cast<std::size_t>(li)].empty() ? "destroy-list-empty" : "destroy-list-before-elements";
          for (int s : ml[static_cast<std::size_t>(li)])
            where[static_cast<std::size_t>(s)] = -1;
          ml[static_cast<std::size_t>(li)].clear();
          Li.reset();
        }
        break;
      case 13:
        if (!Li)
        {
          vf::extend_case(" new_list(L%d)", li);
          Li = std::make_unique<L>();
          opn = "new-list";
        }
        break;
      case 14:
        // self move assignment (through a reference, as it happens in generic code: swap-like rotations, erase-remove
        // with equal positions): the element stays where it is
        if (Ei)
        {
          vf::extend_case(" self_move_assign(e%d)", ei);
          opn = where[static_cast<std::size_t>(ei)] >= 0 ? "element-self-move-assign-linked" : "element-self-move-assign-unlinked";
          El &alias = *Ei;
          *Ei = std::move(alias);
        }
        break;
      case 15:
        if (Li)
        {
          vf::extend_case(" list_self_move_assign(L%d)", li);
          opn = ml[static_cast<std::size_t>(li)].empty() ? "list-self-move-assign-empty" : "list-self-move-assign-nonempty";
          L &alias = *Li;
          *Li = std::move(alias);
        }
        break;
      }
      if (opn.empty())
        continue;
      vf::count("intrusive/op/" + opn);
      verify(opn);
    }
    // tear down in a random order: lists before or after their elements
    if (ok)
    {
      vf::extend_case(" teardown");
      std::vector<int> order;
      for (int i = 0; i < NL + NE; ++i)
        order.push_back(i);
      for (std::size_t i = order.size(); i > 1; --i)
        std::swap(order[i - 1], order[g.below(i)]);
      for (int x : order)
      {
        if (x < NL)
        {
          if (ls[static_cast<std::size_t>(x)])
          {
            for (int s : ml[static_cast<std::size_t>(x)])
              where[static_cast<std::size_t>(s)] = -1;
            ml[static_cast<std::size_t>(x)].clear();
            ls[static_cast<std::size_t>(x)].reset();
          }
        }
        else if (es[static_cast<std::size_t>(x - NL)])
        {
          munlink(x - NL);
          es[static_cast<std::size_t>(x - NL)].reset();
        }
        verify("teardown");
        if (!ok)
          break;
      }
    }
    vf::note_distinct(vf::hash_str(vf::current_case()));
  }
};

// ------------------------------------------------------------------ signals
struct call_log_entry
{
  int conn;
  int arg;
  bool operator==(call_log_entry const &o) const { return conn == o.conn && arg == o.arg; }
};
std::vector<call_log_entry> g_calls;
std::map<int, int> g_unregistered;
// re-entrant use of the signal from inside an unregister callback: set by the runner while a connection is dropped
std::function<void(int)> g_in_unregister;
// destruction of ANOTHER connection from inside a callback while the signal is being called: set by the runner
std::function<void(int)> g_during_call;
bool g_suppress_reentrant_call = false;
// a callback that throws: the exception reaches the caller of the signal, later callbacks are not invoked, and the signal
// is what it was (the next call invokes every live connection again)
struct callback_fault
{
};
int g_throwing_connection = -1;

int callback_value(int conn, int arg) { return conn * 7 + arg; }
int combine(int a, int b) // not commutative, not associative; unsigned arithmetic, no overflow
{
  return static_cast<int>((static_cast<unsigned>(a) * 31U + static_cast<unsigned>(b)) & 0x3fffffffU);
}

template <class Sig, bool Returns, bool Unregister>
struct signal_runner
{
  static constexpr int NS = 3, NC = 8;
  struct slot
  {
    std::unique_ptr<Sig> sig;
    bool usable = false; // false after it was moved from (only destruction / assignment to it are allowed)
  };
  std::vector<slot> sigs;
  std::vector<std::optional<fcppt::signal::auto_connection>> conns;
  std::vector<int> conn_id;          // slot -> connection id (unique per history)
  std::vector<std::vector<int>> ms;  // model: connection ids in connection order
  std::map<int, int> owner;          // connection id -> signal index or -1
  std::vector<int> dead;             // ids of connections that died
  vf::rng g{0};
  bool ok = true;
  int next_conn = 1;
  std::string name;

  void fail(std::string const &cls, std::string const &d)
  {
    vf::violation(name + "/" + cls, "mismatch", d);
    ok = false;
  }
  std::unique_ptr<Sig> make()
  {
    if constexpr (Returns)
      return std::make_unique<Sig>(typename Sig::combiner_function{&combine});
    else
      return std::make_unique<Sig>();
  }
  void connect(int si, int ci)
  {
    int id = next_conn++;
    conn_id[static_cast<std::size_t>(ci)] = id;
    using fn = typename Sig::function;
    Sig &s = *sigs[static_cast<std::size_t>(si)].sig;
    auto cb = [id](int a) {
      g_calls.push_back({id, a});
      if (g_during_call)
        g_during_call(id);
      if (g_throwing_connection == id)
        throw callback_fault{};
      if constexpr (Returns)
        return callback_value(id, a);
    };
    if constexpr (Unregister)
      conns[static_cast<std::size_t>(ci)].emplace(
          s.connect(fn{cb}, fcppt::signal::unregister::function{[id] {
            ++g_unregistered[id];
            if (g_in_unregister)
              g_in_unregister(id);
          }}));
    else
      conns[static_cast<std::size_t>(ci)].emplace(s.connect(fn{cb}));
    ms[static_cast<std::size_t>(si)].push_back(id);
    owner[id] = si;
  }
  void drop(int ci)
  {
    int id = conn_id[static_cast<std::size_t>(ci)];
    int o = owner[id];
    if (o >= 0)
    {
      auto &v = ms[static_cast<std::size_t>(o)];
      v.erase(std::find(v.begin(), v.end(), id));
    }
    owner[id] = -1;
    if (Unregister && g_unregistered[id] != 0)
      fail("unregister/ran-before-death", "connection " + std::to_string(id));
    if (Unregister && !g_suppress_reentrant_call && o >= 0 && sigs[static_cast<std::size_t>(o)].sig && sigs[static_cast<std::size_t>(o)].usable)
      g_in_unregister = [this, o](int) {
        // the dying connection is no longer alive: a call from inside its unregister callback must not invoke it,
        // and the signal's emptiness must already exclude it (the model was updated before the connection is reset)
        VF_COUNT("signal/reentrant-calls-from-unregister");
        std::vector<call_log_entry> saved = g_calls;
        call(o, 5);
        g_calls = saved;
      };
    conns[static_cast<std::size_t>(ci)].reset();
    g_in_unregister = nullptr;
    dead.push_back(id);
    if (Unregister && g_unregistered[id] != 1)
      fail("unregister/count", "unregister callback of connection " + std::to_string(id) + " ran " +
                                   std::to_string(g_unregistered[id]) + " times at its death, want 1");
  }
  // actor >= 0: while the callback of connection `actor` runs it destroys the connection in slot victim_ci (another
  // one - a connection that destroys ITSELF during the call is outside what the signal supports, see DESIGN.md 9.2).
  // Expected: a connection destroyed before the call reaches it is not invoked, every other one once, in order.
  void call(int si, int arg, int actor = -1, int victim_ci = -1)
  {
    Sig &s = *sigs[static_cast<std::size_t>(si)].sig;
    std::vector<int> const m = ms[static_cast<std::size_t>(si)];
    g_calls.clear();
    std::vector<call_log_entry> want;
    int wantv = 1000 + arg;
    int const victim_id = victim_ci >= 0 ? conn_id[static_cast<std::size_t>(victim_ci)] : -1;
    bool victim_dead = false;
    for (int id : m)
    {
      if (id == victim_id && victim_dead)
        continue;
      want.push_back({id, arg});
      wantv = combine(wantv, callback_value(id, arg));
      if (id == actor)
        victim_dead = true;
    }
    if (actor >= 0)
    {
      bool done = false;
      g_during_call = [this, actor, victim_ci, done](int id) mutable {
        if (id != actor || done)
          return;
        done = true;
        g_suppress_reentrant_call = true;
        std::vector<call_log_entry> const saved = g_calls;
        drop(victim_ci);
        g_calls = saved;
        g_suppress_reentrant_call = false;
      };
    }
    struct reset_hook
    {
      ~reset_hook() { g_during_call = nullptr; }
    } reset_hook_guard;
    if constexpr (Returns)
    {
      int got = s(typename Sig::initial_value{1000 + arg}, arg);
      if (got != wantv)
        fail("call/combined-result", "got " + std::to_string(got) + " want " + std::to_string(wantv) + " over " + std::to_string(m.size()) + " connections");
    }
    else
      s(arg);
    if (!(g_calls == want))
    {
      std::string gs, ws;
      for (auto const &c : g_calls)
        gs += std::to_string(c.conn) + " ";
      for (auto const &c : want)
        ws += std::to_string(c.conn) + " ";
      fail("call/callback-sequence", "invoked connections [" + gs + "] want [" + ws + "]");
    }
    g_during_call = nullptr;
    if (s.empty() != ms[static_cast<std::size_t>(si)].empty())
      fail("call/empty", "empty() disagrees");
    vf::count_max("max/signal/connections-called", m.size());
    vf::count("signal/callbacks-invoked", g_calls.size());
  }

  void call_throwing(int si, int arg, int thrower)
  {
    Sig &s = *sigs[static_cast<std::size_t>(si)].sig;
    std::vector<int> const m = ms[static_cast<std::size_t>(si)];
    g_calls.clear();
    std::vector<call_log_entry> want;
    for (int id : m)
    {
      want.push_back({id, arg});
      if (id == thrower)
        break;
    }
    g_throwing_connection = thrower;
    bool threw = false;
    try
    {
      if constexpr (Returns)
        (void)s(typename Sig::initial_value{1000 + arg}, arg);
      else
        s(arg);
    }
    catch (callback_fault const &)
    {
      threw = true;
    }
    g_throwing_connection = -1;
    if (!threw)
      fail("call/throwing-callback/exception-swallowed", "the exception of a callback did not reach the caller");
    if (!(g_calls == want))
      fail("call/throwing-callback/callback-sequence", "callbacks invoked before the exception differ from the connection order up to the throwing one");
    VF_COUNT("signal/call/callback-throws");
    call(si, arg); // the signal is intact
  }

  void run(std::uint64_t idx, std::string const &e)
  {
    g = vf::rng(vf::seed_for(e, idx));
    ok = true;
    next_conn = 1;
    g_unregistered.clear();
    sigs.clear();
    sigs.resize(NS);
    conns.clear();
    conns.resize(NC);
    conn_id.assign(NC, 0);
    ms.assign(NS, {});
    owner.clear();
    dead.clear();
    sigs[0].sig = make();
    sigs[0].usable = true;
    unsigned len = static_cast<unsigned>(g.below(50)) + 1;
    for (unsigned st = 0; st < len && ok; ++st)
    {
      unsigned op = static_cast<unsigned>(g.below(12));
      int si = static_cast<int>(g.below(NS)), sj = static_cast<int>(g.below(NS)), ci = static_cast<int>(g.below(NC));
      slot &Si = sigs[static_cast<std::size_t>(si)];
      slot &Sj = sigs[static_cast<std::size_t>(sj)];
      std::string opn;
      switch (op)
      {
      case 0:
      case 1:
      case 2:
        if (Si.sig && Si.usable && !conns[static_cast<std::size_t>(ci)].has_value())
        {
          vf::extend_case(" connect(c%d to S%d)", ci, si);
          connect(si, ci);
          opn = "connect";
        }
        break;
      case 3:
      case 4:
        if (conns[static_cast<std::size_t>(ci)].has_value())
        {
          vf::extend_case(" drop(c%d)", ci);
          opn = owner[conn_id[static_cast<std::size_t>(ci)]] >= 0 ? "drop-connected" : "drop-orphaned";
          drop(ci);
        }
        break;
      case 5:
      case 6:
      case 7:
        if (Si.sig && Si.usable)
        {
          int arg = static_cast<int>(g.below(5));
          vf::extend_case(" call(S%d,%d)", si, arg);
          auto const &cur = ms[static_cast<std::size_t>(si)];
          opn = cur.empty() ? "call-empty" : (cur.size() > 2 ? "call-three-or-more" : "call-one-or-two");
          if (!cur.empty() && g.chance(1, 8))
          {
            int const thrower = cur[g.below(cur.size())];
            vf::extend_case("[callback of connection %d throws]", thrower);
            call_throwing(si, arg, thrower);
            break;
          }
          // in a third of the calls on two or more connections one callback destroys another connection of this signal
          if (cur.size() >= 2 && g.chance(1, 3))
          {
            std::size_t const ai = g.below(cur.size());
            std::size_t vi = g.below(cur.size() - 1);
            if (vi >= ai)
              ++vi;
            int victim_slot = -1;
            for (int c = 0; c < NC; ++c)
              if (conns[static_cast<std::size_t>(c)].has_value() && conn_id[static_cast<std::size_t>(c)] == cur[vi])
                victim_slot = c;
            if (victim_slot >= 0)
            {
              char const *rel = vi == ai + 1 ? "next" : vi > ai ? "later" : vi + 1 == ai ? "previous" : "earlier";
              vf::extend_case("[callback %zu destroys %s connection %zu]", ai, rel, vi);
              vf::count(std::string("signal/call/callback-destroys-") + rel + "-connection", 1);
              int const actor_id = cur[ai];
              call(si, arg, actor_id, victim_slot);
              break;
            }
          }
          call(si, arg);
        }
        break;
      case 8:
        if (Si.sig && Si.usable && !Sj.sig)
        {
          vf::extend_case(" signal_move_ctor(S%d<-S%d)", sj, si);
          opn = ms[static_cast<std::size_t>(si)].empty() ? "signal-move-ctor-empty" : "signal-move-ctor-with-connections";
          Sj.sig = std::make_unique<Sig>(std::move(*Si.sig));
          Sj.usable = true;
          Si.usable = false;
          ms[static_cast<std::size_t>(sj)] = ms[static_cast<std::size_t>(si)];
          ms[static_cast<std::size_t>(si)].clear();
          for (int id : ms[static_cast<std::size_t>(sj)])
            owner[id] = sj;
          if (!Si.sig->empty())
            fail("signal-move-ctor/source-not-empty", "the moved-from signal reports connections");
        }
        break;
      case 9:
        if (Si.sig && Si.usable && Sj.sig && si != sj)
        {
          vf::extend_case(" signal_move_assign(S%d<-S%d)", sj, si);
          bool se = ms[static_cast<std::size_t>(si)].empty(), de = ms[static_cast<std::size_t>(sj)].empty();
          opn = std::string("signal-move-assign-") + (se ? "empty" : "nonempty") + "-to-" + (de ? "empty" : "nonempty");
          for (int id : ms[static_cast<std::size_t>(sj)])
            owner[id] = -1; // still alive, but connected to no signal any more
          ms[static_cast<std::size_t>(sj)] = ms[static_cast<std::size_t>(si)];
          ms[static_cast<std::size_t>(si)].clear();
          for (int id : ms[static_cast<std::size_t>(sj)])
            owner[id] = sj;
          *Sj.sig = std::move(*Si.sig);
          Sj.usable = true;
          // the moved-from source took nothing over: it has no connections (one look at it, then it is only destroyed
          // or assigned to - its combiner was moved away as well)
          if (!Si.sig->empty())
            fail("signal-move-assign/source-not-empty", "the moved-from signal reports connections (the target had " + std::to_string(de ? 0 : 1) + "+ before)");
          else
          {
            call(si, 2);
            VF_COUNT("signal/moved-from-source-inspected");
          }
          Si.usable = false;
        }
        break;
      case 10:
        if (Si.sig && g.chance(1, 2))
        {
          vf::extend_case(" destroy_signal(S%d)", si);
          opn = ms[static_cast<std::size_t>(si)].empty() ? "destroy-signal-empty" : "destroy-signal-before-connections";
          for (int id : ms[static_cast<std::size_t>(si)])
            owner[id] = -1;
          ms[static_cast<std::size_t>(si)].clear();
          Si.sig.reset();
          Si.usable = false;
        }
        break;
      case 11:
        if (!Si.sig)
        {
          vf::extend_case(" new_signal(S%d)", si);
          Si.sig = make();
          Si.usable = true;
          opn = "new-signal";
        }
        break;
      }
      if (opn.empty())
        continue;
      vf::count("signal/op/" + opn);
      // after every step: every usable signal is called and must invoke exactly its live connections
      for (int k = 0; k < NS && ok; ++k)
        if (sigs[static_cast<std::size_t>(k)].sig && sigs[static_cast<std::size_t>(k)].usable)
          call(k, 9);
      if (Unregister)
        for (auto const &kv : owner)
        {
          bool is_dead = std::find(dead.begin(), dead.end(), kv.first) != dead.end();
          if (g_unregistered[kv.first] != (is_dead ? 1 : 0))
            fail("unregister/count", "connection " + std::to_string(kv.first) + (is_dead ? " dead" : " alive") + " has unregister count " + std::to_string(g_unregistered[kv.first]));
        }
    }
    if (ok)
    {
      vf::extend_case(" teardown");
      std::vector<int> order;
      for (int i = 0; i < NS + NC; ++i)
        order.push_back(i);
      for (std::size_t i = order.size(); i > 1; --i)
        std::swap(order[i - 1], order[g.below(i)]);
      for (int x : order)
      {
        if (x < NS)
        {
          slot &S = sigs[static_cast<std::size_t>(x)];
          if (S.sig)
          {
            for (int id : ms[static_cast<std::size_t>(x)])
              owner[id] = -1;
            ms[static_cast<std::size_t>(x)].clear();
            S.sig.reset();
            S.usable = false;
          }
        }
        else if (conns[static_cast<std::size_t>(x - NS)].has_value())
          drop(x - NS);
        for (int k = 0; k < NS && ok; ++k)
          if (sigs[static_cast<std::size_t>(k)].sig && sigs[static_cast<std::size_t>(k)].usable)
            call(k, 3);
        if (!ok)
          break;
      }
      if (Unregister)
        for (auto const &kv : owner)
          if (g_unregistered[kv.first] != 1)
            fail("unregister/final-count", "connection " + std::to_string(kv.first) + " ran its unregister callback " + std::to_string(g_unregistered[kv.first]) + " times in total");
    }
    vf::note_distinct(vf::hash_str(vf::current_case()));
  }
};


// ---- arguments of class type passed BY VALUE: "calling a signal invokes exactly the callbacks whose connection is alive,
// once each" - each with the call's argument.  A callback that takes its parameter by value (and may move it on) must
// not change what the later callbacks receive; the result is the left fold over the values computed from the argument.
struct byvalue_runner
{
  std::string name;
  template <class Sig, class Arg, class Show, class Use>
  void one_signature(char const *signame, std::uint64_t h, vf::rng &g, std::vector<Arg> const &values, Show show, Use use)
  {
    constexpr bool returns = !std::is_void_v<typename Sig::result_type>;
    std::unique_ptr<Sig> sig;
    if constexpr (returns)
      sig = std::make_unique<Sig>(typename Sig::combiner_function{&combine});
    else
      sig = std::make_unique<Sig>();
    std::vector<std::optional<fcppt::signal::auto_connection>> conns;
    std::vector<int> ids;
    std::map<int, int> calls_of; // model: how often the callback of a connection has run
    std::vector<std::pair<int, std::string>> seen; // (connection id, the argument as this callback received it # its own call count)
    int next_id = 1;
    unsigned const steps = 4 + static_cast<unsigned>(g.below(8));
    for (unsigned q = 0; q < steps; ++q)
    {
      unsigned const op = static_cast<unsigned>(g.below(4));
      if (op <= 1 && conns.size() < 6)
      {
        int const id = next_id++;
        bool const greedy = g.below(2) == 0; // takes the parameter by value and moves it on
        vf::extend_case(" connect(%d%s)", id, greedy ? ",moves" : "");
        using fn = typename Sig::function;
        // the callback keeps state INSIDE itself (own_calls): the signal invokes the callback object the connection
        // owns, every time - not a copy of it
        auto cb = [id, greedy, &seen, show, use, own_calls = 0](Arg a) mutable {
          ++own_calls;
          seen.emplace_back(id, show(a) + "#" + std::to_string(own_calls));
          int const r = callback_value(id, use(a) + own_calls);
          if (greedy)
          {
            Arg sink(std::move(a));
            (void)sink;
          }
          if constexpr (returns)
            return r;
          else
            (void)r;
        };
        conns.emplace_back(sig->connect(fn{cb}));
        ids.push_back(id);
      }
      else if (op == 2 && !conns.empty())
      {
        std::size_t const k = g.below(conns.size());
        vf::extend_case(" drop(%d)", ids[k]);
        conns.erase(conns.begin() + static_cast<std::ptrdiff_t>(k));
        ids.erase(ids.begin() + static_cast<std::ptrdiff_t>(k));
      }
      else
      {
        Arg const &v = values[g.below(values.size())];
        bool const as_rvalue = g.below(2) == 0;
        vf::extend_case(" call(%s%s)", show(v).c_str(), as_rvalue ? ",rvalue" : ",lvalue");
        seen.clear();
        Arg lv(v);
        int got = 0, want = 1000;
        if constexpr (returns)
        {
          got = as_rvalue ? (*sig)(typename Sig::initial_value{1000}, Arg(v)) : (*sig)(typename Sig::initial_value{1000}, lv);
          for (int id : ids)
            want = combine(want, callback_value(id, use(v) + calls_of[id] + 1));
        }
        else
        {
          if (as_rvalue)
            (*sig)(Arg(v));
          else
            (*sig)(lv);
        }
        VF_COUNT("signal/by-value/calls");
        if (ids.size() >= 2)
          VF_COUNT("signal/by-value/calls-with-two-or-more-connections");
        std::string const key = std::string("signal/by-value<") + signame + ">";
        if (seen.size() != ids.size())
          vf::violation(key + "/invoked-count", "mismatch", std::to_string(seen.size()) + " callbacks invoked, " + std::to_string(ids.size()) + " connections alive");
        else
          for (std::size_t k = 0; k < ids.size(); ++k)
          {
            if (seen[k].first != ids[k])
              vf::violation(key + "/order", "mismatch", "position " + std::to_string(k));
            if (seen[k].second != show(v) + "#" + std::to_string(calls_of[ids[k]] + 1))
            {
              vf::violation(key + "/argument-seen-by-later-callback", "mismatch",
                            "callback " + std::to_string(k) + " of " + std::to_string(ids.size()) + " received " + seen[k].second + " (argument # own call count) for the argument " + show(v) +
                                " at its call " + std::to_string(calls_of[ids[k]] + 1));
              break;
            }
          }
        for (int id : ids)
          ++calls_of[id];
        if (returns && got != want)
          vf::violation(key + "/fold", "mismatch", "result " + std::to_string(got) + ", left fold of the callbacks on the argument gives " + std::to_string(want));
        if (!as_rvalue && show(lv) != show(v))
          vf::violation(key + "/lvalue-argument-changed", "mismatch", show(lv) + " after the call, was " + show(v));
      }
    }
    (void)h;
  }
  void run(std::uint64_t h, std::string const &e)
  {
    vf::rng g(vf::seed_for(e, h));
    auto show_s = [](std::string const &x) { return "\"" + x + "\""; };
    auto use_s = [](std::string const &x) { return static_cast<int>(x.size()) * 3 + (x.empty() ? 0 : x[0]); };
    std::vector<std::string> const strs{"", "a", "a-string-long-enough-to-live-on-the-heap-0123456789", "zz"};
    auto show_p = [](std::shared_ptr<int> const &x) { return x ? "ptr(" + std::to_string(*x) + ")" : std::string("null"); };
    auto use_p = [](std::shared_ptr<int> const &x) { return x ? *x : -1; };
    std::vector<std::shared_ptr<int>> const ptrs{std::make_shared<int>(7), std::make_shared<int>(40), nullptr};
    auto show_h = [](vf::heavy const &x) { return std::to_string(x.get()); };
    auto use_h = [](vf::heavy const &x) { return static_cast<int>(x.get()); };
    std::vector<vf::heavy> const hs{vf::heavy(3), vf::heavy(0), vf::heavy(-12)};
    switch (h % 5)
    {
    case 0:
      one_signature<fcppt::signal::object<void(std::string)>, std::string>("void(string)", h, g, strs, show_s, use_s);
      break;
    case 1:
      one_signature<fcppt::signal::object<int(std::string)>, std::string>("int(string)", h, g, strs, show_s, use_s);
      break;
    case 2:
      one_signature<fcppt::signal::object<int(std::shared_ptr<int>)>, std::shared_ptr<int>>("int(shared_ptr)", h, g, ptrs, show_p, use_p);
      break;
    case 3:
      one_signature<fcppt::signal::object<void(vf::heavy)>, vf::heavy>("void(heavy)", h, g, hs, show_h, use_h);
      break;
    default:
      one_signature<fcppt::signal::object<int(vf::heavy)>, vf::heavy>("int(heavy)", h, g, hs, show_h, use_h);
      break;
    }
  }
};

// ---- connections that die during STACK UNWINDING (the scope owning the auto_connection is left by an exception): "runs a
// connection's unregister callback exactly once when that connection dies" - however it dies
struct unwinding_runner
{
  std::string name;
  void run(std::uint64_t h, std::string const &e)
  {
    vf::rng g(vf::seed_for(e, h));
    using sig_t = fcppt::signal::object<void(int), fcppt::signal::unregister::base>;
    sig_t sig;
    std::map<int, int> unregistered;
    std::vector<int> called;
    std::vector<std::optional<fcppt::signal::auto_connection>> outer;
    std::vector<int> outer_ids;
    int next_id = 1;
    auto const connect = [&](int id) {
      return sig.connect(sig_t::function{[id, &called](int) { called.push_back(id); }}, fcppt::signal::unregister::function{[id, &unregistered] { ++unregistered[id]; }});
    };
    unsigned const steps = 3 + static_cast<unsigned>(g.below(6));
    for (unsigned q = 0; q < steps; ++q)
    {
      if (g.below(3) == 0 && outer.size() < 4)
      {
        int const id = next_id++;
        vf::extend_case(" connect(%d)", id);
        outer.emplace_back(connect(id));
        outer_ids.push_back(id);
        continue;
      }
      // a scope with 1..3 connections that is left by an exception (or, as the control, normally)
      unsigned const n = 1 + static_cast<unsigned>(g.below(3));
      bool const by_exception = g.below(4) != 0;
      std::vector<int> scoped_ids;
      vf::extend_case(" scope(%u connections,%s)", n, by_exception ? "left by an exception" : "left normally");
      try
      {
        std::vector<fcppt::signal::auto_connection> scoped;
        for (unsigned k = 0; k < n; ++k)
        {
          scoped_ids.push_back(next_id);
          scoped.push_back(connect(next_id++));
        }
        called.clear();
        sig(7);
        std::vector<int> want = outer_ids;
        want.insert(want.end(), scoped_ids.begin(), scoped_ids.end());
        if (called != want)
          vf::violation(name + "/call-inside-the-scope", "mismatch", "");
        if (by_exception)
          throw callback_fault{};
      }
      catch (callback_fault const &)
      {
      }
      VF_COUNT("signal/unwinding/scopes");
      if (by_exception)
        VF_COUNT("signal/unwinding/scopes-left-by-an-exception");
      for (int id : scoped_ids)
        if (unregistered[id] != 1)
          vf::violation(name + "/unregister/count-after-the-scope-was-left" + (by_exception ? "-by-an-exception" : ""), "mismatch",
                        "the unregister callback of connection " + std::to_string(id) + " ran " + std::to_string(unregistered[id]) + " times, want 1");
      called.clear();
      sig(8);
      if (called != outer_ids)
        vf::violation(name + "/membership-after-the-scope", "mismatch", "");
    }
    outer.clear();
    for (int id : outer_ids)
      if (unregistered[id] != 1)
        vf::violation(name + "/unregister/count", "mismatch", "connection " + std::to_string(id));
  }
};

template <class Runner>
void drive(std::string const &e, std::uint64_t total)
{
  if (!vf::entry_enabled(e))
    return;
  vf::set_entry(e);
  Runner r;
  if constexpr (requires { r.name; })
    r.name = e;
  std::uint64_t per = total / vf::opts().nparts + 1;
  for (std::uint64_t i = 0; i < per; ++i)
  {
    if (!vf::begin_case("seed=%" PRIu64 " part=%u h=%" PRIu64 ":", vf::opts().seed, vf::opts().part, i))
      continue;
    r.run(i, e);
    vf::sample_case(1);
  }
  if constexpr (requires { r.iterated; })
    vf::count("intrusive/elements-iterated", r.iterated);
}

void body()
{
  for (char const *b :
       {"intrusive/op/element-self-move-assign-linked", "intrusive/op/list-self-move-assign-nonempty", "intrusive/op/create", "intrusive/op/destroy-linked", "intrusive/op/destroy-unlinked", "intrusive/op/unlink-linked",
        "intrusive/op/unlink-unlinked", "intrusive/op/element-move-ctor-linked", "intrusive/op/element-move-ctor-unlinked",
        "intrusive/op/element-move-assign-from-successor", "intrusive/op/element-move-assign-from-predecessor",
        "intrusive/op/element-move-assign-same-list", "intrusive/op/element-move-assign-other-list",
        "intrusive/op/element-move-assign-linked-to-unlinked", "intrusive/op/element-move-assign-unlinked-to-linked",
        "intrusive/op/element-move-assign-unlinked-to-unlinked", "intrusive/op/list-move-ctor-from-empty",
        "intrusive/op/list-move-ctor-from-nonempty", "intrusive/op/list-move-assign-empty-to-empty",
        "intrusive/op/list-move-assign-empty-to-nonempty", "intrusive/op/list-move-assign-nonempty-to-empty",
        "intrusive/op/list-move-assign-nonempty-to-nonempty", "intrusive/op/destroy-list-before-elements",
        "signal/op/connect", "signal/op/drop-connected", "signal/op/drop-orphaned", "signal/op/call-three-or-more",
        "signal/op/signal-move-ctor-with-connections", "signal/op/signal-move-assign-nonempty-to-nonempty",
        "signal/op/signal-move-assign-empty-to-nonempty", "signal/op/destroy-signal-before-connections",
        "signal/callbacks-invoked", "signal/reentrant-calls-from-unregister", "signal/call/callback-throws", "signal/call/callback-destroys-next-connection",
        "signal/call/callback-destroys-later-connection", "signal/call/callback-destroys-previous-connection", "signal/call/callback-destroys-earlier-connection",
        "signal/by-value/calls-with-two-or-more-connections", "signal/unwinding/scopes-left-by-an-exception"})
    vf::require_bucket(b);
  std::uint64_t total = vf::tier<std::uint64_t>(30000, 4000000);
  if (vf::has_extra("--small")) // the memcheck pass
    total = 48000;
  drive<list_runner>("intrusive-list", total);
  using s_void = fcppt::signal::object<void(int)>;
  using s_int = fcppt::signal::object<int(int)>;
  using s_void_u = fcppt::signal::object<void(int), fcppt::signal::unregister::base>;
  using s_int_u = fcppt::signal::object<int(int), fcppt::signal::unregister::base>;
  drive<signal_runner<s_void, false, false>>("signal<void(int)>", total / 6);
  drive<signal_runner<s_int, true, false>>("signal<int(int)>", total / 6);
  drive<signal_runner<s_void_u, false, true>>("signal<void(int),unregister>", total / 6);
  drive<signal_runner<s_int_u, true, true>>("signal<int(int),unregister>", total / 6);
  drive<byvalue_runner>("signal-by-value-arguments", total / 10);
  drive<unwinding_runner>("signal-connections-dying-during-unwinding", total / 20);
}
}

#ifdef VF_FUZZ
// one history per libFuzzer input; the first byte selects the family
void vf_fuzz_one()
{
  using s_void = fcppt::signal::object<void(int)>;
  using s_int = fcppt::signal::object<int(int)>;
  using s_void_u = fcppt::signal::object<void(int), fcppt::signal::unregister::base>;
  using s_int_u = fcppt::signal::object<int(int), fcppt::signal::unregister::base>;
  switch (vf::fuzz_src().take(1) % 6)
  {
  case 0:
  case 1: drive<list_runner>("intrusive-list", 0); break;
  case 2: drive<signal_runner<s_void, false, false>>("signal<void(int)>", 0); break;
  case 3: drive<signal_runner<s_int, true, false>>("signal<int(int)>", 0); break;
  case 4: drive<signal_runner<s_void_u, false, true>>("signal<void(int),unregister>", 0); break;
  default: drive<signal_runner<s_int_u, true, true>>("signal<int(int),unregister>", 0); break;
  }
}
#endif

VF_MAIN(body)
