#!/bin/bash
# usage: buildtest.sh <worktree of /repo>     builds libraries + all tests of that tree in <worktree>/_build (same
# configuration as the pinned baseline: RelWithDebInfo, shared libs, boost + catch tests) and runs the 433 tests.
# Incremental on a second call. ccache (path-insensitive) makes fresh worktrees cheap after the first one.
WT=$(readlink -f "$1")
export CCACHE_BASEDIR=$WT CCACHE_NOHASHDIR=1 CCACHE_DIR=${CCACHE_DIR:-/root/.cache/ccache-mut}
L=""; command -v ccache >/dev/null && L="-DCMAKE_CXX_COMPILER_LAUNCHER=ccache"
if [ ! -f $WT/_build/build.ninja ]; then
  cmake -S $WT -B $WT/_build -G Ninja -DCMAKE_BUILD_TYPE=RelWithDebInfo -DCMAKE_CXX_FLAGS="-Wno-error" \
    -DENABLE_TEST=ON -DENABLE_BOOST=ON -DENABLE_CATCH=ON -DENABLE_EXAMPLES=OFF -DENABLE_DOC=OFF \
    -DENABLE_SHARED=ON -DENABLE_STATIC=OFF $L > $WT/_build.configure.log 2>&1 || { tail -20 $WT/_build.configure.log; echo "CONFIGURE FAILED"; exit 2; }
fi
cmake --build $WT/_build -j${JOBS:-16} > $WT/_build.build.log 2>&1 || { grep -E "error|FAILED" $WT/_build.build.log | head -20; echo "BUILD FAILED"; exit 2; }
ctest --test-dir $WT/_build -j${JOBS:-16} --timeout 900 2>&1 | tail -8
