import json,re,os,glob
props={}
for l in open('/verif/properties.jsonl'):
    p=json.loads(l); props[p['id']]=p
os.makedirs('/tmp/mutw/prompts',exist_ok=True)
LETTER=os.environ.get('LETTER','j')
THEME=os.environ.get('THEME','')
for pid,p in props.items():
    prior=[]
    for d in sorted(glob.glob('/verif/seeded/%s?'%pid)):
        m=json.load(open(d+'/meta.json'))
        files=sorted(set(re.findall(r'^\+\+\+ b/(\S+)',open(d+'/patch.diff').read(),re.M)))
        prior.append('- %s (%s)'%(m['summary'],', '.join(f.split('include/fcppt/')[-1] for f in files)))
    mid=pid+LETTER
    anchors=p.get('anchors') or p.get('code_anchors') or []
    txt=f'''You are helping to evaluate a verification effort for the C++20 library freundlich/fcppt. Your job is to play the role of a developer who introduces a subtle, realistic regression.

You have your own scratch git worktree of the library at /tmp/mutw/{mid} (already created; work ONLY there; never touch /repo and do not read anything under /verif). Two helper scripts exist:
  /root/mut/buildtest.sh /tmp/mutw/{mid}            builds the libraries and all 433 tests of that tree into /tmp/mutw/{mid}/_build and runs them (first call takes a few minutes on a busy machine; later calls are incremental). It prints the ctest summary.
  /root/mut/democompile.sh /tmp/mutw/{mid} <demo.cpp> <out-binary>   compiles a small program against that tree's headers and freshly built libraries.
The machine has no network. Other people use the same machine: run at most one build at a time, always run your demo under `timeout 120`.

This is the property of fcppt you are to break (this text is all you are told about it):

  {pid}: {p.get('title','')}
  {p.get('statement','')}

Task: make ONE small change to the library sources under /tmp/mutw/{mid}/libs (headers or .cpp; not the tests, not the build files unless that is the point of the change) such that
  1. everything still compiles and ALL 433 existing tests still pass (check with buildtest.sh: "100% tests passed, 0 tests failed out of 433");
  2. the property above is violated by the changed library for SOME input / history / schedule;
  3. the violation needs something specific to manifest: a particular interleaving, a fault or exception at a particular point, a multi-step sequence of operations, an unusual input or instantiation, or two cooperating sites that each look fine alone. NOT something that ordinary use exposes at once. {THEME}
  4. the change looks like something a maintainer could plausibly write (a refactoring slip, a "simplification", an optimisation, a wrong generalisation), not sabotage: no magic constants, no special-casing of odd values.

Changes already made by others for this property - do NOT repeat them or close variants; pick a function / code path / mechanism none of them touches:
{chr(10).join(prior)}

Deliverables, in the directory /tmp/mutw/{mid}-out/ (create it):
  patch.diff   output of `git -C /tmp/mutw/{mid} diff -- libs` (must apply to the unmodified tree with `git apply`)
  demo.cpp     a self-contained program (only fcppt + the standard library; main returns 0 on success) that exits NON-ZERO (or crashes) on the changed tree and exits 0 on the unchanged tree, and prints what went wrong. It demonstrates the violation of the property as stated.
  README.md    what you changed, why it violates the property, what is needed for it to manifest, and the exact commands you ran with their results (tests with the change: 433/433; demo with the change: fails; demo without: passes).
Verify all of that yourself before you finish: build+test with the change, run the demo (must fail), then `git apply -R` the patch (or stash), rebuild, run the demo again (must pass), then re-apply the patch so the worktree is left WITH the change. If your first idea makes an existing test fail, that idea is not acceptable - pick another one. Finish with a three-line summary: the change, what it needs to manifest, and the verification results.'''
    open('/tmp/mutw/prompts/%s.txt'%mid,'w').write(txt)
print(len(props))
