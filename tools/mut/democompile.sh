#!/bin/bash
# usage: democompile.sh <worktree> <demo.cpp> <output binary> [extra g++ flags]
# compiles a demonstration program against the headers and the freshly built shared libraries of <worktree>/_build
WT=$(readlink -f "$1"); SRC=$2; OUT=$3; shift 3
I=""; for l in core parse options log filesystem boost catch; do [ -d $WT/libs/$l/include ] && I="$I -I$WT/libs/$l/include"; done
g++ -std=c++20 -O1 -g -pthread $I -I$WT/_build/include "$@" "$SRC" -o "$OUT" \
  -L$WT/_build/lib -Wl,-rpath,$WT/_build/lib -lfcppt_options -lfcppt_filesystem -lfcppt_log -lfcppt_core
